package props

import (
	"encoding/json"
	"fmt"
	"strings"
	"testing"

	"github.com/ovn-org/libovsdb/ovsdb"
	"pgregory.net/rapid"

	"verif/pbt/kit"
)

type c19WireCase struct {
	Schema      json.RawMessage `json:"schema"`
	Prefix      []string        `json:"prefix"`
	Request     string          `json:"request"`
	Corruptions []string        `json:"corruptions"`
	Refused     []string        `json:"refusedRequests,omitempty"`
}

// refusedRequests are requests other than transact that the server has to refuse (the
// monitoring peer has the monitor "watch" in place): the transactions sent afterwards must
// be served as if nothing had happened.
var refusedRequests = []struct {
	method string
	params string
}{
	{"monitor", `["$DB","watch",{"$T":{}}]`}, {"monitor_cond", `["$DB","watch",{"$T":{}}]`}, {"monitor_cond_since", `["$DB","watch",{"$T":{}},"00000000-0000-0000-0000-000000000000"]`},
	{"monitor", `["nosuchdb","other",{"$T":{}}]`}, {"monitor_cond", `["$DB","other",{"nosuchtable":{}}]`}, {"monitor_cancel", `["nosuch"]`},
	{"monitor", `["$DB","other",{"$T":{"columns":["nosuch"]}}]`},
	{"get_schema", `["nosuchdb"]`}, {"transact", `["nosuchdb",{"op":"select","table":"$T","where":[]}]`}, {"transact", `[]`}, {"transact", `[1]`}, {"transact", `["$DB",1]`},
	{"nosuchmethod", `[]`}, {"lock", `["x"]`}, {"steal", `["x"]`}, {"unlock", `["x"]`},
}

// Not in the list (outside the statement of C19, which is about transact requests and the
// decoders): monitor, monitor_cond, monitor_cond_since, monitor_cancel and get_schema
// requests with fewer parameters than RFC 7047 prescribes make the server index its
// parameter list out of range (observation in DESIGN.md).

// TestC19Wire: the requests of TestC19Txn are sent as raw JSON-RPC transact calls to a
// listening server that also has a monitoring peer, each followed by an echo and a
// select on every table. A panic in a connection goroutine of the server takes the test
// process down: the case in flight is on disk by then (kit.InFlight) and the driver
// reports it.
func TestC19Wire(t *testing.T) {
	kit.TolerateDuplicates = true
	defer func() { kit.TolerateDuplicates = false }()
	rapid.Check(t, func(t *rapid.T) {
		kit.PinUUIDs(1)
		s := kit.GenSchema(t, kit.ProfileDB)
		w, err := kit.BuildWorld(s, nil)
		if err != nil {
			t.Fatalf("world: %v", err)
		}
		srv, err := kit.StartServer(w)
		if err != nil {
			t.Fatalf("server: %v", err)
		}
		defer srv.Close()
		peer, err := kit.DialRaw(srv.Sock)
		if err != nil {
			t.Fatalf("dial: %v", err)
		}
		defer peer.Close()
		watcher, err := kit.DialRaw(srv.Sock)
		if err != nil {
			t.Fatalf("dial: %v", err)
		}
		defer watcher.Close()
		reqs := map[string]interface{}{}
		for _, tb := range s.Tables {
			reqs[tb.Name] = map[string]interface{}{}
		}
		var initial json.RawMessage
		if err := watcher.Call("monitor_cond", []interface{}{s.Name, "watch", reqs}, &initial); err != nil {
			t.Fatalf("harness: monitor_cond: %v", err)
		}
		kase := c19WireCase{Schema: s.JSON()}
		fail := func(class, format string, args ...interface{}) {
			kit.Fail(t, "C19", class, kase, format, args...)
		}
		send := func(text []byte) (json.RawMessage, error) {
			var raw []json.RawMessage
			if err := json.Unmarshal(text, &raw); err != nil {
				return nil, err
			}
			return peer.Transact(s.Name, raw)
		}
		st := kit.State{}
		for _, tb := range s.Tables {
			st[tb.Name] = kit.Rows{}
		}
		g := kit.NewTxnGen(s, kit.TxnCfg{MaxOps: 3, Named: true, RefBias: true, MaxRows: 5})
		for i, n := 0, rapid.IntRange(0, 4).Draw(t, "nprefix"); i < n; i++ {
			text := kit.OpsJSON(s, g.GenTxn(t, st))
			kase.Prefix = append(kase.Prefix, string(text))
			if _, err := send(text); err != nil {
				fail("prefix.error", "valid prefix transaction answered with an RPC error: %v", err)
			}
			if st, err = srv.Snapshot(); err != nil {
				t.Fatalf("snapshot: %v", err)
			}
		}
		// requests the server refuses (or answers), from the monitoring connection or the other one
		for i, n := 0, rapid.IntRange(0, 2).Draw(t, "nrefused"); i < n; i++ {
			rr := rapid.SampledFrom(refusedRequests).Draw(t, "refused")
			params := strings.ReplaceAll(strings.ReplaceAll(rr.params, "$DB", s.Name), "$T", s.Tables[0].Name)
			from := peer
			fromName := "transacting connection"
			if rapid.Bool().Draw(t, "fromwatcher") {
				from, fromName = watcher, "monitoring connection"
			}
			kase.Refused = append(kase.Refused, fmt.Sprintf("%s %s from the %s", rr.method, params, fromName))
			kit.StartMemGuard(c19MemoryGuard)
			done := kit.InFlight("C19", "panic.server-process", kase)
			var reply json.RawMessage
			_ = from.Call(rr.method, json.RawMessage(params), &reply)
			var echoed []interface{}
			echoErr := from.Call("echo", []interface{}{"still-there"}, &echoed)
			done()
			if echoErr != nil || len(echoed) != 1 {
				fail("serving.echo-after", "after the request %s %s an echo on the same connection fails: %v %v", rr.method, params, echoed, echoErr)
			}
			kit.Label("C19", "wire:refused-request:"+rr.method)
		}
		g2 := kit.NewTxnGen(s, cfgC19)
		g2.Next = g.Next + 100
		for r, rounds := 0, rapid.IntRange(1, 4).Draw(t, "rounds"); r < rounds; r++ {
			valid := kit.OpsJSON(s, g2.GenTxn(t, st))
			text, desc := kit.CorruptJSON(t, valid, 3, map[string]bool{"timeout": true})
			var raw []json.RawMessage
			if err := json.Unmarshal(text, &raw); err != nil || len(raw) == 0 {
				kit.Record("C19", "wire:notalist", false, nil, "wire:not-a-list")
				continue
			}
			if rapid.IntRange(0, 3).Draw(t, "hostileop") == 0 {
				tb := s.Tables[rapid.IntRange(0, len(s.Tables)-1).Draw(t, "hostiletable")]
				h := rapid.SampledFrom(hostileOps).Draw(t, "hostile")
				h = strings.ReplaceAll(h, "$T", tb.Name)
				h = strings.ReplaceAll(h, "$C", tb.Cols[0].Name)
				pos := rapid.IntRange(0, len(raw)).Draw(t, "hostilepos")
				raw = append(raw[:pos], append([]json.RawMessage{json.RawMessage(h)}, raw[pos:]...)...)
				desc = append(desc, "hostile-op:"+h)
			}
			kase.Request, kase.Corruptions = string(kit.MustJSON(raw)), desc
			// a wait that may block is not sent (RFC 7047 lets it block); decoding here is only for that test
			unbounded := false
			for _, rm := range raw {
				var op ovsdb.Operation
				func() {
					defer func() { _ = recover() }()
					if json.Unmarshal(rm, &op) == nil && op.Op == ovsdb.OperationWait && (op.Timeout == nil || *op.Timeout > 0) {
						unbounded = true
					}
				}()
				// a wait whose timeout member does not decode cannot be judged: skip as well
				if strings.Contains(string(rm), `"wait"`) && op.Timeout == nil {
					unbounded = true
				}
			}
			if unbounded {
				kit.Record("C19", "wire:unboundedwait", false, nil, "wire:skipped-unbounded-wait")
				continue
			}
			before, err := srv.Snapshot()
			if err != nil {
				fail("state.unreadable", "database unreadable before the request: %v", err)
			}
			kit.StartMemGuard(c19MemoryGuard)
			done := kit.InFlight("C19", "panic.server-process", kase)
			reply, rpcErr := peer.Transact(s.Name, raw)
			var echoed []interface{}
			echoErr := peer.Call("echo", []interface{}{"still-there"}, &echoed)
			done()
			if echoErr != nil || len(echoed) != 1 {
				fail("serving.echo-after", "after the request %s (reply %s, error %v) an echo on the same connection fails: %v %v", kase.Request, reply, rpcErr, echoed, echoErr)
			}
			failed := rpcErr != nil
			if !failed {
				var results []*ovsdb.OperationResult
				if err := json.Unmarshal(reply, &results); err != nil {
					fail("reply.malformed", "the reply %s to %s is not a list of results: %v", reply, kase.Request, err)
				}
				failed = firstError(results) >= 0
			}
			post, err := srv.Snapshot()
			if err != nil {
				fail("state.unreadable", "database unreadable after %s: %v", kase.Request, err)
			}
			if failed {
				if d := kit.DiffStates(before, post); len(d) > 0 {
					fail("atomicity.state-changed", "request %s failed (reply %s, rpc error %v) but changed the database:\n%s", kase.Request, reply, rpcErr, strings.Join(d, "\n"))
				}
			}
			st = post
			for _, tb := range s.Tables {
				sel, err := send([]byte(fmt.Sprintf(`[{"op":"select","table":%q,"where":[]}]`, tb.Name)))
				var results []*ovsdb.OperationResult
				if err == nil {
					err = json.Unmarshal(sel, &results)
				}
				if err != nil || len(results) != 1 || results[0] == nil || results[0].Error != "" || len(results[0].Rows) != len(post[tb.Name]) {
					fail("serving.select-after", "select on %s after %s: %s %v, want %d rows", tb.Name, kase.Request, sel, err, len(post[tb.Name]))
				}
			}
			lbl := "wire:rejected"
			if rpcErr != nil {
				lbl = "wire:rpc-error"
			} else if !failed {
				lbl = "wire:accepted"
			}
			kit.Record("C19", fmt.Sprintf("wire:%s:%s", strings.Join(desc, ","), lbl), true, func() interface{} { return kase }, lbl)
		}
		// a valid transaction that changes something is committed and notified as usual
		{
			if st, err = srv.Snapshot(); err != nil {
				t.Fatalf("snapshot: %v", err)
			}
			g.Next = g2.Next + 100
			text := []byte(fmt.Sprintf(`[{"op":"insert","table":%q,"row":{}}]`, s.Tables[0].Name))
			if rapid.Bool().Draw(t, "generatedlast") {
				text = kit.OpsJSON(s, g.GenTxn(t, st))
			}
			kase.Request, kase.Corruptions = string(text), []string{"none: closing valid transaction"}
			done := kit.InFlight("C19", "panic.server-process", kase)
			_, err := send(text)
			done()
			if err != nil {
				fail("serving.transact-after", "the closing valid transaction %s is answered with an RPC error: %v", text, err)
			}
		}
		// the monitoring peer is still served
		var echoed []interface{}
		if err := watcher.Call("echo", []interface{}{"watcher"}, &echoed); err != nil {
			fail("serving.echo-after", "the monitoring peer gets no echo after the requests: %v", err)
		}
	})
}
