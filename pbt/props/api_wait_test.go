package props

import (
	"encoding/json"
	"fmt"
	"reflect"
	"sort"
	"strings"

	"github.com/ovn-org/libovsdb/client"
	"github.com/ovn-org/libovsdb/ovsdb"
	"pgregory.net/rapid"

	"verif/pbt/kit"
	"verif/pbt/refdb"
)

// apiWaitCase: the fourth action of apiConditionalCase, Where*(...).Wait(until, 0, model,
// fields...). Two oracles:
//
//  1. shape: one wait operation per where clause the conditional generates (as many as
//     its Delete generates; together the clauses select exactly the listed rows), each naming the table, the until function, the timeout,
//     exactly the columns of the listed fields and one expected row holding exactly those
//     columns with the model's values;
//  2. outcome: executed alone with timeout 0, operation i succeeds exactly when the rows a
//     select with the same where clause returns, projected on the columns, are (until "==")
//     or are not (until "!=") the set {expected row} - the reference interpreter decides on
//     the rows the select of the same clause reports.
//
// The expectation stays inside the domain where the open finding wait-semantics coincides
// with RFC 7047: no default value and no multi-element set in the expected row, and the
// outcome is only compared when every clause selects at most one row.
func apiWaitCase(t *rapid.T, prop string, a *apiWorld, tb kit.Table, rows kit.Rows, capi client.ConditionalAPI, kind, cfgName string, gotSet map[string]bool, kase *c08APICase, fail func(class, format string, args ...interface{})) {
	w := a.w
	s := w.S
	typ := w.Types[tb.Name].Elem()
	m := reflect.New(typ).Interface()
	until := rapid.SampledFrom([]string{"==", "==", "!="}).Draw(t, "until")
	listed := make([]string, 0, len(gotSet))
	for u := range gotSet {
		listed = append(listed, u)
	}
	sort.Strings(listed)
	var src kit.Row
	switch {
	case len(listed) > 0 && rapid.IntRange(0, 3).Draw(t, "expectlisted") > 0:
		src = rows[listed[0]]
	case len(rows) > 0 && rapid.Bool().Draw(t, "expectstored"):
		us := kit.SortedUUIDs(rows)
		src = rows[us[rapid.IntRange(0, len(us)-1).Draw(t, "expectrow")]]
	}
	exp := kit.Row{}
	var fields []interface{}
	var names, descr []string
	ncol := rapid.IntRange(1, 3).Draw(t, "nwaitcols")
	for _, ci := range rapid.Permutation([]int{0, 1, 2, 3, 4, 5, 6}).Draw(t, "waitcols") {
		if len(names) == ncol {
			break
		}
		c := tb.Cols[ci]
		var v kit.Val
		switch {
		case src != nil && rapid.IntRange(0, 4).Draw(t, "keepvalue") > 0:
			v = src[c.Name].Clone()
		case c.Name == "m":
			v = genIndexRow(t, tb)["m"]
		default:
			v = kit.GenVal(t, c, nil)
		}
		if c.IsDefault(v) || hasZero(v) || (c.Shape() == kit.ShSet && len(v.K) > 1) {
			continue
		}
		exp[c.Name] = v
		reflect.ValueOf(m).Elem().FieldByName(kit.FieldName(ci)).Set(reflect.ValueOf(kit.ToNative(c, v)))
		fields = append(fields, fieldPtrByColumn(w, tb.Name, m, c.Name))
		names = append(names, c.Name)
		descr = append(descr, c.Name+"="+v.Key())
	}
	if len(names) == 0 {
		t.Skip("no expectation inside the agreeing domain drawn")
	}
	kase.Action = fmt.Sprintf("Wait(until %s, timeout 0, %s)", until, strings.Join(descr, ", "))
	zero := 0
	ops, err := capi.Wait(ovsdb.WaitCondition(until), &zero, m, fields...)
	delOps, delErr := capi.Delete()
	if (err != nil) != (delErr != nil) {
		fail("api.wait-shape", "%s: Wait() reports %v where Delete() of the same conditional reports %v", kase.Conditional, err, delErr)
	}
	if err != nil {
		if len(gotSet) > 0 {
			fail("api.ops-error", "%s: List reports %s but Wait() fails: %v", kase.Conditional, setKey(gotSet), err)
		}
		kit.Record(prop, "api|"+kind+"|Wait|no-ops", false, func() interface{} { return *kase }, "api:"+kind, "api:Wait")
		return
	}
	// ---- shape ----
	if len(ops) != len(delOps) {
		fail("api.wait-shape", "%s: Wait() generates %d operations, Delete() of the same conditional %d (%s)", kase.Conditional, len(ops), len(delOps), kit.MustJSON(ops))
	}
	for i, op := range ops {
		bad := ""
		switch {
		case op.Op != ovsdb.OperationWait:
			bad = "op is " + op.Op
		case op.Table != tb.Name:
			bad = "table is " + op.Table
		case op.Until != until:
			bad = "until is " + op.Until
		case op.Timeout == nil || *op.Timeout != 0:
			bad = "timeout is not the 0 asked for"
		case !reflect.DeepEqual(op.Columns, names):
			bad = fmt.Sprintf("columns are %v, the listed fields are %v", op.Columns, names)
		case len(op.Rows) != 1:
			bad = fmt.Sprintf("%d expected rows", len(op.Rows))
		}
		if bad == "" {
			var back ovsdb.Row
			if jerr := json.Unmarshal(kit.MustJSON(op.Rows[0]), &back); jerr != nil {
				bad = "expected row does not decode: " + jerr.Error()
			} else if got, cerr := w.RowFromOvs(tb.Name, back); cerr != nil {
				bad = "expected row: " + cerr.Error()
			} else if got.Key() != exp.Key() {
				bad = fmt.Sprintf("expected row is %s, the model's listed fields hold %s", got.Key(), exp.Key())
			}
		}
		if bad != "" {
			fail("api.wait-shape", "%s: %s: operation %d: %s (%s)", kase.Conditional, kase.Action, i, bad, kit.MustJSON(op))
		}
	}
	if len(ops) == 0 {
		if len(gotSet) > 0 {
			fail("api.ops-error", "%s: List reports %s but Wait() generates no operation", kase.Conditional, setKey(gotSet))
		}
		kit.Record(prop, "api|"+kind+"|Wait|no-ops", false, func() interface{} { return *kase }, "api:"+kind, "api:Wait")
		return
	}
	// ---- outcome, one operation at a time ----
	outcomes := []string{}
	compared := 0
	union := map[string]bool{}
	for i, op := range ops {
		sel, serr := a.c.Transact(a.ctx, ovsdb.Operation{Op: ovsdb.OperationSelect, Table: tb.Name, Where: op.Where, Columns: []string{"_uuid"}})
		if serr != nil || len(sel) != 1 || sel[0].Error != "" {
			fail("api.ops-error", "%s: select with the where clause of wait operation %d failed: %v %s", kase.Conditional, i, serr, kit.MustJSON(sel))
		}
		var selected []string
		for _, r := range sel[0].Rows {
			if u, ok := r["_uuid"].(ovsdb.UUID); ok {
				selected = append(selected, u.GoUUID)
			}
		}
		sort.Strings(selected)
		for _, u := range selected {
			union[u] = true
			if !gotSet[u] {
				fail("api.ops-affect-other-rows", "%s: List reports %s, the where clause of wait operation %d selects %v (%s)", kase.Conditional, setKey(gotSet), i, selected, kit.MustJSON(op.Where))
			}
		}
		res, terr := a.c.Transact(a.ctx, op)
		if terr != nil || len(res) < 1 {
			fail("api.ops-error", "%s: transact of wait operation %d failed: %v (%s)", kase.Conditional, i, terr, kit.MustJSON(op))
		}
		if len(selected) > 1 {
			// outside the agreeing domain of the open finding wait-semantics
			kit.Label(prop, "api:wait-clause-selects-several-rows-not-compared")
			continue
		}
		// reference: the wait over exactly the selected rows
		sub := kit.Rows{}
		var where []kit.Cond
		target := kit.MkUUID(700009)
		if len(selected) == 1 {
			target = selected[0]
			sub[target] = rows[target]
		}
		where = []kit.Cond{{Col: "_uuid", Fn: "==", Val: kit.Scalar(kit.UUID(target))}}
		ref := refdb.Exec(s, kit.State{tb.Name: sub}, []kit.Op{{Op: "wait", Table: tb.Name, Where: where, Timeout: &zero, Until: until, HasColumns: true, Columns: names, Rows: []kit.Row{exp}}}, nil)
		wantOK := ref.FailedAt < 0 && ref.CommitErr == ""
		gotOK := res[0].Error == ""
		compared++
		if wantOK != gotOK {
			fail("api.wait-outcome", "%s: %s: operation %d selects %v (stored %s): the wait must %s, the database answers %q %s (%s)", kase.Conditional, kase.Action, i, selected, sub[target].Key(),
				map[bool]string{true: "succeed", false: "time out"}[wantOK], res[0].Error, res[0].Details, kit.MustJSON(op))
		}
		if !gotOK && res[0].Error != "timed out" {
			fail("api.wait-outcome", "%s: %s: operation %d fails with %q %s instead of timing out (%s)", kase.Conditional, kase.Action, i, res[0].Error, res[0].Details, kit.MustJSON(op))
		}
		outcomes = append(outcomes, map[bool]string{true: "api:wait-succeeds", false: "api:wait-times-out"}[gotOK])
	}
	if setKey(union) != setKey(gotSet) {
		fail("api.ops-affect-other-rows", "%s: List reports %s, the where clauses of the wait operations select %s together (%s)", kase.Conditional, setKey(gotSet), setKey(union), kit.MustJSON(ops))
	}
	// nothing was changed
	post, err := a.srv.Snapshot()
	if err != nil {
		t.Fatalf("harness: snapshot: %v", err)
	}
	if d := kit.DiffStates(kit.State{tb.Name: rows}, post); len(d) > 0 {
		fail("api.ops-affect-other-rows", "%s: executing %s changed the database:\n%s", kase.Conditional, kase.Action, strings.Join(d, "\n"))
	}
	labels := append([]string{"api:" + kind, "api:Wait", "api:wait-until" + until}, outcomes...)
	kit.Record(prop, fmt.Sprintf("api|%s|%s|%s|%d", kind, kase.Action, cfgName, len(gotSet)), compared > 0 && len(gotSet) > 0, func() interface{} { return *kase }, labels...)
}
