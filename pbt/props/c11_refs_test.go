package props

import (
	"testing"

	"pgregory.net/rapid"

	"github.com/ovn-org/libovsdb/model"

	"verif/pbt/kit"
)

// c11RefsAfter: the laws of an accumulated update for the update of a whole transaction,
// reference-driven changes (garbage-collected rows, pruned weak references, over several
// rounds) merged in: for every row named by the transaction's update the old model is the row
// before the transaction, the new model the row after it (nil = absent), and a row that ended
// as it began is not named. The modify difference is checked by checkUpdate in every step.
func c11RefsAfter(l *l1, info *stepInfo) ([]string, bool, *mismatch) {
	if info.Excluded != "" || info.Model.FailedAt >= 0 || !info.Model.Committed {
		return nil, false, nil
	}
	up := info.Impl.Update
	if info.Impl.ViaServer || up == nil {
		// every second transaction of a history goes through the server's handler, which does
		// not hand out the update
		return nil, false, nil
	}
	var labels []string
	var first *mismatch
	named := 0
	for _, table := range up.GetUpdatedTables() {
		t := l.W.S.Table(table)
		if t == nil {
			continue
		}
		_ = up.ForEachModelUpdate(table, func(uuid string, old, new model.Model) error {
			if first != nil {
				return nil
			}
			named++
			for _, side := range []struct {
				what string
				m    model.Model
				want kit.Row
				has  bool
			}{{"old", old, info.Pre[table][uuid], info.Pre[table][uuid] != nil}, {"new", new, l.Ref[table][uuid], l.Ref[table][uuid] != nil}} {
				if side.m == nil {
					if side.has {
						first = mm("aggregate.refs-"+side.what+"-missing", "row %s of %s: the %s model of the transaction's update is nil, the row was %s", uuid, table, side.what, side.want.Key())
					}
					continue
				}
				if !side.has {
					first = mm("aggregate.refs-"+side.what+"-unexpected", "row %s of %s: the transaction's update has a %s model but the row did not exist on that side", uuid, table, side.what)
					continue
				}
				_, got, err := l.W.RowFromModel(table, side.m)
				if err != nil {
					first = mm("aggregate.refs-unreadable", "row %s of %s: %v", uuid, table, err)
					continue
				}
				delete(got, "_uuid")
				if d := kit.DiffStates(kit.State{table: kit.Rows{uuid: t.FillDefaults(side.want.Clone())}}, kit.State{table: kit.Rows{uuid: t.FillDefaults(got)}}); len(d) > 0 {
					first = mm("aggregate.refs-"+side.what+"-differs", "row %s of %s: the %s model of the transaction's update is not the row %s the transaction:\n%v", uuid, table, side.what, map[string]string{"old": "before", "new": "after"}[side.what], d)
				}
			}
			if first == nil && info.Pre[table][uuid] != nil && l.Ref[table][uuid] != nil && len(kit.DiffStates(kit.State{table: kit.Rows{uuid: info.Pre[table][uuid]}}, kit.State{table: kit.Rows{uuid: l.Ref[table][uuid]}})) == 0 {
				first = mm("aggregate.refs-unchanged-row-named", "row %s of %s ended as it began and is still named by the transaction's update", uuid, table)
			}
			return nil
		})
	}
	if first != nil {
		return nil, false, first
	}
	nt := false
	if info.Model.GCDeleted > 0 {
		labels = append(labels, "refs:gc-merged")
		nt = true
	}
	if info.Model.WeakPruned > 0 {
		labels = append(labels, "refs:weak-pruning-merged")
		nt = true
	}
	if nt && named > 2 {
		labels = append(labels, "refs:update-names>2-rows")
	}
	return labels, nt, nil
}

// TestC11Refs: "or reference-driven changes merged into it" - whole transactions on
// reference-rich schemas through the transaction engine.
func TestC11Refs(t *testing.T) {
	rapid.Check(t, func(t *rapid.T) {
		runHistory(t, "C11", kit.ProfileRefs, cfgC04, 14, c11RefsAfter)
	})
}
