package props

import (
	"encoding/json"
	"fmt"
	"reflect"
	"sort"
	"strings"
	"testing"

	"github.com/ovn-org/libovsdb/cache"
	"github.com/ovn-org/libovsdb/model"
	"github.com/ovn-org/libovsdb/ovsdb"
	"pgregory.net/rapid"

	"verif/pbt/kit"
	"verif/pbt/refdb"
)

type c08Case struct {
	Schema  json.RawMessage    `json:"schema"`
	Configs []string           `json:"indexConfigs"`
	Rows    kit.Rows           `json:"rows"`
	Earlier map[string]kit.Row `json:"createdAsThenUpdated,omitempty"`
	Where   string             `json:"where"`
}

// c08Table: s0 is unique by construction so that every schema index containing it is valid.
func c08Table(t *rapid.T) kit.Table {
	tb := kit.Table{Name: "T0", IsRoot: true}
	tb.Cols = append(tb.Cols, kit.Col{Name: "s0", Key: kit.Base{T: kit.TStr}, Min: 1, Max: 1})
	for i := 1; i <= 2; i++ {
		at := rapid.SampledFrom([]kit.AT{kit.TStr, kit.TInt, kit.TReal, kit.TBool, kit.TUUID}).Draw(t, "stype")
		tb.Cols = append(tb.Cols, kit.Col{Name: fmt.Sprintf("s%d", i), Key: kit.Base{T: at}, Min: 1, Max: 1})
	}
	tb.Cols = append(tb.Cols, kit.Col{Name: "e", Key: kit.Base{T: kit.TStr, Enum: []kit.Atom{kit.Str("blue"), kit.Str("red")}}, Min: 1, Max: 1})
	tb.Cols = append(tb.Cols, kit.Col{Name: "opt", Key: kit.Base{T: rapid.SampledFrom([]kit.AT{kit.TStr, kit.TInt}).Draw(t, "otype")}, Min: 0, Max: 1})
	tb.Cols = append(tb.Cols, kit.Col{Name: "set", Key: kit.Base{T: rapid.SampledFrom([]kit.AT{kit.TStr, kit.TInt, kit.TUUID}).Draw(t, "settype")}, Min: 0, Max: -1})
	tb.Cols = append(tb.Cols, kit.Col{Name: "m", Key: kit.Base{T: kit.TStr}, Value: &kit.Base{T: kit.TStr}, Min: 0, Max: -1})
	return tb
}

type c08Config struct {
	name   string
	schema [][]string
	client []model.ClientIndex
}

func c08Configs(t *rapid.T) []c08Config {
	ck := func(col string, key interface{}) model.ColumnKey { return model.ColumnKey{Column: col, Key: key} }
	all := []c08Config{
		{name: "none"},
		{name: "schema[s0]", schema: [][]string{{"s0"}}},
		{name: "schema[s0,s1]", schema: [][]string{{"s0", "s1"}}},
		{name: "schema[s0]+[s0,s2]", schema: [][]string{{"s0"}, {"s2", "s0"}}},
		{name: "schema[s1,s0]+[s0]", schema: [][]string{{"s1", "s0"}, {"s0"}}},
		{name: "client[s1]", client: []model.ClientIndex{{Columns: []model.ColumnKey{ck("s1", nil)}}}},
		{name: "client[s1,s2]+[e]", client: []model.ClientIndex{{Columns: []model.ColumnKey{ck("s1", nil), ck("s2", nil)}}, {Columns: []model.ColumnKey{ck("e", nil)}}}},
		{name: "client[opt]", client: []model.ClientIndex{{Columns: []model.ColumnKey{ck("opt", nil)}}}},
		{name: "client[m.k1]", client: []model.ClientIndex{{Columns: []model.ColumnKey{ck("m", "k1")}}}},
		{name: "client[m.k1,s1]", client: []model.ClientIndex{{Columns: []model.ColumnKey{ck("m", "k1"), ck("s1", nil)}}}},
		{name: "client[m.k1,m.k2]", client: []model.ClientIndex{{Columns: []model.ColumnKey{ck("m", "k1"), ck("m", "k2")}}}},
		{name: "client[s1,set]", client: []model.ClientIndex{{Columns: []model.ColumnKey{ck("s1", nil), ck("set", nil)}}}},
		{name: "schema[s0]+client[s2]+[e,opt]", schema: [][]string{{"s0"}}, client: []model.ClientIndex{{Columns: []model.ColumnKey{ck("s2", nil)}}, {Columns: []model.ColumnKey{ck("e", nil), ck("opt", nil)}}}},
	}
	perm := rapid.Permutation(all[1:]).Draw(t, "configs")
	n := rapid.IntRange(2, 4).Draw(t, "nconfigs")
	return append([]c08Config{all[0]}, perm[:n]...)
}

func genC08Cond(t *rapid.T, g *kit.TxnGen, tb kit.Table, rows kit.Rows, pool *kit.Pool) kit.Cond {
	uuids := kit.SortedUUIDs(rows)
	switch rapid.IntRange(0, 9).Draw(t, "ckind") {
	case 0:
		cands := append(append([]string{}, uuids...), kit.MkUUID(700001))
		return kit.Cond{Col: "_uuid", Fn: rapid.SampledFrom([]string{"==", "!=", "includes", "excludes"}).Draw(t, "ufn"), Val: kit.Scalar(kit.UUID(rapid.SampledFrom(cands).Draw(t, "u")))}
	case 1:
		// map includes with exactly the client-index keys
		v := kit.EmptyMap()
		for _, k := range []string{"k1", "k2"} {
			if rapid.Bool().Draw(t, "k?") {
				v = v.WithPair(kit.Str(k), kit.Str(rapid.SampledFrom(c05Strings).Draw(t, "kv")))
			}
		}
		return kit.Cond{Col: "m", Fn: rapid.SampledFrom([]string{"includes", "includes", "excludes", "=="}).Draw(t, "mfn"), Val: v}
	case 2:
		// a set condition built from part of a row's set (plus, sometimes, an element nobody has)
		if c := tb.Col("set"); c != nil && len(uuids) > 0 {
			src := rows[rapid.SampledFrom(uuids).Draw(t, "setsrc")]["set"]
			v := kit.EmptySet()
			for _, a := range src.K {
				if rapid.Bool().Draw(t, "setelem") {
					v = v.With(a)
				}
			}
			if rapid.IntRange(0, 3).Draw(t, "setforeign") == 0 {
				v = v.With(kit.GenAtom(t, c.Key, &kit.Pool{Big: true}))
			}
			return kit.Cond{Col: "set", Fn: rapid.SampledFrom([]string{"includes", "includes", "excludes", "==", "!="}).Draw(t, "setfn"), Val: v}
		}
	}
	return g.GenCond(t, tb, rows, pool)
}

func TestC08(t *testing.T) {
	rapid.Check(t, func(t *rapid.T) {
		tb := c08Table(t)
		configs := c08Configs(t)
		// content
		rows := kit.Rows{}
		n := rapid.IntRange(0, 12).Draw(t, "nrows")
		pool := &kit.Pool{RowUUIDs: map[string][]string{}}
		big := rapid.IntRange(0, 19).Draw(t, "big") == 0
		if big {
			kit.Label("C08", "big-sets")
		}
		for i := 0; i < n; i++ {
			r := genIndexRow(t, tb)
			r["s0"] = kit.Scalar(kit.Str(fmt.Sprintf("n%d", i)))
			if rapid.IntRange(0, 3).Draw(t, "copyrow") == 0 && i > 0 {
				// a near copy of an earlier row: colliding values
				src := rows[kit.MkUUID(rapid.IntRange(1, i).Draw(t, "src"))]
				for _, c := range tb.Cols {
					if c.Name != "s0" && rapid.IntRange(0, 3).Draw(t, "copycol") > 0 {
						r[c.Name] = src[c.Name].Clone()
					}
				}
			}
			// one case in eight: sets of dozens of elements (size thresholds of the evaluation)
			if big && tb.Col("set") != nil && rapid.IntRange(0, 2).Draw(t, "bigset") > 0 {
				v := kit.EmptySet()
				for j, m := 0, rapid.SampledFrom([]int{17, 31, 32, 33, 40, 64, 65, 100}).Draw(t, "bigsetlen"); j < m; j++ {
					v = v.With(kit.GenAtom(t, tb.Col("set").Key, &kit.Pool{Big: true}))
				}
				r["set"] = v
			}
			rows[kit.MkUUID(i+1)] = r
		}
		// some rows reach their contents in two steps: created with other values in one to
		// three columns (s0, when it changes, had a value nobody else has), then updated
		earlier := map[string]kit.Row{}
		for _, u := range kit.SortedUUIDs(rows) {
			if rapid.IntRange(0, 3).Draw(t, "twostep") != 0 {
				continue
			}
			e := rows[u].Clone()
			for i, n := 0, rapid.IntRange(1, 3).Draw(t, "earliercols"); i < n; i++ {
				c := tb.Cols[rapid.IntRange(0, len(tb.Cols)-1).Draw(t, "earliercol")]
				if c.Name == "s0" {
					e[c.Name] = kit.Scalar(kit.Str("old-" + u[len(u)-3:]))
				} else {
					e[c.Name] = kit.GenVal(t, c, pool)
				}
			}
			earlier[u] = e
		}
		base := kit.Schema{Name: "DB", Version: "1.0.0", Tables: []kit.Table{tb}}
		g := kit.NewTxnGen(base, kit.TxnCfg{MayReject: rapid.IntRange(0, 4).Draw(t, "mayreject") == 0})
		// a sequence of queries evaluated one after the other on the same caches and
		// databases: selecting must not change what later selections see
		nq := rapid.IntRange(1, 4).Draw(t, "nqueries")
		type query struct {
			conds     []kit.Cond
			text      string
			mayReject bool
			expected  map[string]bool
			where     []ovsdb.Condition
			dec       []ovsdb.Operation
		}
		var queries []query
		var texts []string
		for qi := 0; qi < nq; qi++ {
			var conds []kit.Cond
			if qi > 0 && rapid.IntRange(0, 2).Draw(t, "requery") == 0 {
				// a sub-list of an earlier query: the same index entries are visited again
				prev := queries[rapid.IntRange(0, qi-1).Draw(t, "prev")].conds
				for _, c := range prev {
					if rapid.Bool().Draw(t, "keepcond") {
						conds = append(conds, c)
					}
				}
			} else {
				nc := rapid.IntRange(0, 4).Draw(t, "nconds")
				for i := 0; i < nc; i++ {
					c := genC08Cond(t, g, tb, rows, pool)
					if hasZero(c.Val) {
						continue
					}
					conds = append(conds, c)
				}
			}
			q := query{conds: conds, expected: map[string]bool{}}
			q.text = string(kit.MustJSON(kit.Op{Op: "select", Table: tb.Name, Where: conds}.Wire(base)))
			model1 := refdb.Exec(base, kit.State{tb.Name: rows}, []kit.Op{{Op: "select", Table: tb.Name, Where: conds}}, nil)
			if model1.FailedAt >= 0 {
				t.Fatalf("harness: generated condition list is not well-typed: %+v", model1.Results)
			}
			q.mayReject = model1.Results[0].MayReject != ""
			for _, r := range model1.Results[0].Rows {
				q.expected[r["_uuid"].K[0].S] = true
			}
			dec, err := kit.DecodeOps(base, []kit.Op{{Op: "select", Table: tb.Name, Where: conds}})
			if err != nil {
				t.Fatalf("harness: %v", err)
			}
			q.dec = dec
			q.where = dec[0].Where
			queries = append(queries, q)
			texts = append(texts, q.text)
		}
		kase := c08Case{Rows: rows, Earlier: earlier, Where: strings.Join(texts, " ; ")}
		for _, c := range configs {
			kase.Configs = append(kase.Configs, c.name)
		}
		type answer struct {
			name string
			q    int
			err  error
			got  map[string]bool
		}
		var answers []answer
		indexable := false
		for _, cfg := range configs {
			s := base
			tcopy := tb
			tcopy.Indexes = cfg.schema
			s.Tables = []kit.Table{tcopy}
			kase.Schema = s.JSON()
			var cidx map[string][]model.ClientIndex
			if len(cfg.client) > 0 {
				cidx = map[string][]model.ClientIndex{tb.Name: cfg.client}
			}
			w, err := kit.BuildWorld(s, cidx)
			if err != nil {
				t.Fatalf("world for %s: %v", cfg.name, err)
			}
			tc, err := cache.NewTableCache(w.DBModel, nil, nil)
			if err != nil {
				t.Fatalf("cache: %v", err)
			}
			rc := tc.Table(tb.Name)
			order := rapid.Permutation(kit.SortedUUIDs(rows)).Draw(t, "createorder")
			for _, u := range order {
				first := rows[u]
				if e, ok := earlier[u]; ok {
					first = e
				}
				if err := rc.Create(u, w.ModelFromRow(tb.Name, u, first), true); err != nil {
					kit.Fail(t, "C08", "cache.apply-error", kase, "config %s: Create(%s): %v", cfg.name, u, err)
				}
			}
			// a checked Create the cache has to refuse (the row repeats the unique s0 of a cached row,
			// its other columns are fresh: with a schema index over several columns listed first,
			// only a later index notices): nothing of it may stay behind
			hasS0Index := false
			for _, idx := range cfg.schema {
				hasS0Index = hasS0Index || (len(idx) == 1 && idx[0] == "s0")
			}
			if hasS0Index && len(order) > 0 && rapid.IntRange(0, 2).Draw(t, "refusedcreate") == 0 {
				victim := rows[order[0]]
				if e, ok := earlier[order[0]]; ok {
					victim = e
				}
				clash := genIndexRow(t, tb)
				clash["s0"] = victim["s0"].Clone()
				if err := rc.Create(kit.MkUUID(990001), w.ModelFromRow(tb.Name, kit.MkUUID(990001), clash), true); err == nil {
					kit.Fail(t, "C08", "cache.apply-error", kase, "config %s: a checked Create of a second row with s0=%s was accepted", cfg.name, victim["s0"].Key())
				}
				kit.Label("C08", "refused-create-before-the-queries")
			}
			updOrder := rapid.Permutation(kit.SortedUUIDs(rows)).Draw(t, "updateorder")
			for _, u := range updOrder {
				if _, ok := earlier[u]; !ok {
					continue
				}
				if _, err := rc.Update(u, w.ModelFromRow(tb.Name, u, rows[u]), true); err != nil {
					kit.Fail(t, "C08", "cache.apply-error", kase, "config %s: Update(%s) from %s: %v", cfg.name, u, earlier[u].Key(), err)
				}
			}
			// the same through the database layer: List with conditions and a select operation
			db, err := kit.NewDB(w)
			if err != nil {
				t.Fatalf("db: %v", err)
			}
			var load []ovsdb.Operation
			for _, u := range order {
				first := rows[u]
				if e, ok := earlier[u]; ok {
					first = e
				}
				ops, _ := kit.DecodeOps(s, []kit.Op{{Op: "insert", Table: tb.Name, UUID: u, Row: first}})
				load = append(load, ops...)
			}
			if len(load) > 0 {
				if out := db.Transact(load); !out.Committed {
					kit.Fail(t, "C08", "harness.load", kase, "config %s: loading the rows failed: %s %v", cfg.name, kit.ResultsJSON(out.Results), out.CommitErr)
				}
			}
			for _, u := range updOrder {
				if _, ok := earlier[u]; !ok {
					continue
				}
				ops, _ := kit.DecodeOps(s, []kit.Op{{Op: "update", Table: tb.Name, Where: []kit.Cond{{Col: "_uuid", Fn: "==", Val: kit.Scalar(kit.UUID(u))}}, Row: rows[u]}})
				if out := db.Transact(ops); !out.Committed {
					kit.Fail(t, "C08", "harness.load", kase, "config %s: updating row %s to its final contents failed: %s %v", cfg.name, u, kit.ResultsJSON(out.Results), out.CommitErr)
				}
			}
			for qi, q := range queries {
				got, err := rc.RowsByCondition(q.where)
				a := answer{name: cfg.name + "/cache", q: qi, err: err, got: map[string]bool{}}
				for u := range got {
					a.got[u] = true
				}
				answers = append(answers, a)
				lst, err := db.DB.List(db.Name, tb.Name, q.where...)
				a = answer{name: cfg.name + "/List", q: qi, err: err, got: map[string]bool{}}
				for u := range lst {
					a.got[u] = true
				}
				answers = append(answers, a)
				db.ViaServer = qi%2 == 1
				out := db.Transact(append([]ovsdb.Operation{}, q.dec...))
				db.ViaServer = false
				a = answer{name: cfg.name + "/select", q: qi, got: map[string]bool{}}
				if len(out.Results) > 0 && out.Results[0] != nil && out.Results[0].Error != "" {
					a.err = fmt.Errorf("%s", out.Results[0].Error)
				} else if len(out.Results) > 0 && out.Results[0] != nil {
					for _, r := range out.Results[0].Rows {
						if uu, ok := r["_uuid"].(ovsdb.UUID); ok {
							a.got[uu.GoUUID] = true
						}
					}
				}
				answers = append(answers, a)
			}
			// the conditions the mapper builds from an object and an explicit list of its fields
			// ("equal to this object on these columns"): one == per listed column, whatever the
			// field holds - also the type's default
			if len(order) > 0 && rapid.IntRange(0, 2).Draw(t, "equalitycond") == 0 {
				probeU := order[rapid.IntRange(0, len(order)-1).Draw(t, "probe")]
				probe := rows[probeU].Clone()
				ncols := rapid.IntRange(1, 3).Draw(t, "eqcols")
				var cols []int
				seenCol := map[int]bool{}
				for i := 0; i < ncols; i++ {
					ci := rapid.IntRange(0, len(tb.Cols)-1).Draw(t, "eqcol")
					if !seenCol[ci] {
						seenCol[ci] = true
						cols = append(cols, ci)
					}
				}
				if rapid.Bool().Draw(t, "eqdefault") {
					c := tb.Cols[cols[0]]
					switch c.Shape() {
					case kit.ShScalar:
						probe[c.Name] = kit.Scalar(kit.ZeroAtom(c.Key.T))
					case kit.ShMap:
						probe[c.Name] = kit.EmptyMap()
					default:
						probe[c.Name] = kit.EmptySet()
					}
				}
				m := w.ModelFromRow(tb.Name, probeU, probe)
				info, err := w.DBModel.NewModelInfo(m)
				if err != nil {
					t.Fatalf("harness: %v", err)
				}
				var ptrs []interface{}
				var want []kit.Cond
				var names []string
				for _, ci := range cols {
					ptrs = append(ptrs, reflect.ValueOf(m).Elem().Field(ci+1).Addr().Interface())
					want = append(want, kit.Cond{Col: tb.Cols[ci].Name, Fn: "==", Val: probe[tb.Cols[ci].Name].Clone()})
					names = append(names, tb.Cols[ci].Name)
				}
				ref := refdb.Exec(base, kit.State{tb.Name: rows}, []kit.Op{{Op: "select", Table: tb.Name, Where: want}}, nil)
				conds, err := w.DBModel.Mapper.NewEqualityCondition(info, ptrs...)
				if err != nil {
					if ref.FailedAt < 0 && ref.Results[0].MayReject == "" {
						kit.Fail(t, "C08", "select.spurious-error", kase, "config %s: NewEqualityCondition over the fields %v of %s: %v", cfg.name, names, probe.Key(), err)
					}
				} else if ref.FailedAt < 0 {
					if len(conds) != len(cols) {
						kit.Fail(t, "C08", "select.wrong-rows", kase, "config %s: NewEqualityCondition over the %d fields %v of %s gives %d conditions: %s", cfg.name, len(cols), names, probe.Key(), len(conds), kit.MustJSON(conds))
					}
					got, err := rc.RowsByCondition(conds)
					if err != nil {
						if ref.Results[0].MayReject == "" {
							kit.Fail(t, "C08", "select.spurious-error", kase, "config %s: the conditions %s built by NewEqualityCondition are rejected: %v", cfg.name, kit.MustJSON(conds), err)
						}
					} else {
						exp := map[string]bool{}
						for _, r := range ref.Results[0].Rows {
							exp[r["_uuid"].K[0].S] = true
						}
						g := map[string]bool{}
						for u := range got {
							g[u] = true
						}
						if fmt.Sprint(g) != fmt.Sprint(exp) {
							kit.Fail(t, "C08", "select.wrong-rows", kase, "config %s: the conditions %s built by NewEqualityCondition over the fields %v of %s select %v, the rows equal to it on these columns are %v", cfg.name, kit.MustJSON(conds), names, probe.Key(), g, exp)
						}
					}
				}
				kit.Label("C08", "equality-condition-over-listed-fields")
			}
			// reading must leave every index in agreement with a scan (C05's oracle)
			icfg := indexCfg{Schema: cfg.schema}
			for _, ci := range cfg.client {
				var cks []c05ColKey
				for _, ck := range ci.Columns {
					k := ""
					if ck.Key != nil {
						k = fmt.Sprint(ck.Key)
					}
					cks = append(cks, c05ColKey{Col: ck.Column, Key: k})
				}
				icfg.Client = append(icfg.Client, cks)
			}
			if m := checkCacheIndexes(w, tcopy, icfg, rc, rows, nil); m != nil {
				kit.Fail(t, "C08", "select.index-damaged", kase, "config %s: after the selections [%s] the cache indexes disagree with a scan: %s", cfg.name, kase.Where, m.Error())
			}
			if len(cfg.schema)+len(cfg.client) > 0 {
				indexable = true
			}
		}
		render := func(m map[string]bool) string {
			var ks []string
			for k := range m {
				ks = append(ks, k[len(k)-3:])
			}
			sort.Strings(ks)
			return strings.Join(ks, ",")
		}
		for _, a := range answers {
			q := queries[a.q]
			if a.err != nil {
				if q.mayReject {
					continue
				}
				kit.Fail(t, "C08", "select.spurious-error", kase, "%s: query %d: well-typed conditions %s rejected: %v", a.name, a.q, q.text, a.err)
			}
			if render(a.got) != render(q.expected) {
				kit.Fail(t, "C08", "select.wrong-rows", kase, "%s: query %d of [%s]: where %s selects rows {%s}, RFC 7047 5.1 selects {%s}", a.name, a.q, kase.Where, q.text, render(a.got), render(q.expected))
			}
		}
		var fns []string
		nontrivial := false
		for _, q := range queries {
			for _, c := range q.conds {
				col := tb.ColOf(c.Col)
				fns = append(fns, fmt.Sprintf("%s:%s:%s", c.Fn, col.Shape(), col.Key.T))
			}
			if len(q.conds) >= 2 && indexable && len(q.expected) > 0 && len(q.expected) < len(rows) {
				nontrivial = true
			}
		}
		kit.LabelN("C08", fmt.Sprintf("queries_per_cache=%d", len(queries)), 1)
		kit.Record("C08", strings.Join(fns, ",")+"|"+strings.Join(kase.Configs, ";"), nontrivial, func() interface{} { return kase }, fns...)
	})
}

func TestFixedC08IndexedConditions(t *testing.T) {
	tb := kit.Table{Name: "T0", IsRoot: true, Cols: []kit.Col{
		{Name: "m", Key: kit.Base{T: kit.TStr}, Value: &kit.Base{T: kit.TStr}, Min: 0, Max: -1},
		{Name: "opt", Key: kit.Base{T: kit.TStr}, Min: 0, Max: 1},
	}}
	s := kit.Schema{Name: "DB", Version: "1.0.0", Tables: []kit.Table{tb}}
	w, err := kit.BuildWorld(s, map[string][]model.ClientIndex{"T0": {
		{Columns: []model.ColumnKey{{Column: "m", Key: "k1"}, {Column: "m", Key: "k2"}}},
		{Columns: []model.ColumnKey{{Column: "opt"}}},
	}})
	if err != nil {
		t.Fatal(err)
	}
	tc, _ := cache.NewTableCache(w.DBModel, nil, nil)
	rc := tc.Table("T0")
	_ = rc.Create(u(1), w.ModelFromRow("T0", u(1), kit.Row{"m": kit.MapOf(kit.Str("k1"), kit.Str("b"), kit.Str("k2"), kit.Str("c")), "opt": kit.Scalar(kit.Str("x"))}), true)
	_ = rc.Create(u(2), w.ModelFromRow("T0", u(2), kit.Row{"m": kit.EmptyMap(), "opt": kit.EmptySet()}), true)
	ops, err := kit.DecodeOps(s, []kit.Op{{Op: "select", Table: "T0", Where: []kit.Cond{
		{Col: "m", Fn: "includes", Val: kit.MapOf(kit.Str("k2"), kit.Str("c"))},
		{Col: "m", Fn: "includes", Val: kit.MapOf(kit.Str("k1"), kit.Str("b"))},
	}}})
	if err != nil {
		t.Fatal(err)
	}
	got, err := rc.RowsByCondition(ops[0].Where)
	if err != nil || len(got) != 1 || got[u(1)] == nil {
		t.Errorf("VERIF-FAIL property=C08 class=select.wrong-rows: two includes conditions on keys of one map select %d rows (%v)", len(got), err)
	}
	ops, _ = kit.DecodeOps(s, []kit.Op{{Op: "select", Table: "T0", Where: []kit.Cond{{Col: "opt", Fn: "includes", Val: kit.EmptySet()}}}})
	got, err = rc.RowsByCondition(ops[0].Where)
	if err == nil && len(got) != 2 {
		t.Errorf("VERIF-FAIL property=C08 class=select.wrong-rows: includes [] on an optional column selects %d of 2 rows", len(got))
	}
}
