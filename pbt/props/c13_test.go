package props

import (
	"encoding/json"
	"fmt"
	"reflect"
	"strings"
	"testing"

	"github.com/ovn-org/libovsdb/cache"
	"github.com/ovn-org/libovsdb/model"
	"github.com/ovn-org/libovsdb/ovsdb"
	"github.com/ovn-org/libovsdb/ovsdb/serverdb"
	"pgregory.net/rapid"

	"verif/pbt/kit"
)

// handRow is a hand-written model (no generated deep-copy: cloned through JSON).
type handRow struct {
	UUID   string            `ovsdb:"_uuid"`
	Name   string            `ovsdb:"name"`
	N      int               `ovsdb:"n"`
	R      float64           `ovsdb:"r"`
	B      bool              `ovsdb:"b"`
	Ignore string            // untagged: not mapped (deliberately not the last field)
	U      string            `ovsdb:"u"`
	OptS   *string           `ovsdb:"opt_s"`
	OptI   *int              `ovsdb:"opt_i"`
	OptB   *bool             `ovsdb:"opt_b"`
	SetS   []string          `ovsdb:"set_s"`
	SetI   []int             `ovsdb:"set_i"`
	SetR   []float64         `ovsdb:"set_r"`
	MapSS  map[string]string `ovsdb:"map_ss"`
	MapSI  map[string]int    `ovsdb:"map_si"`
	MapIS  map[int]string    `ovsdb:"map_is"`
}

const handSchema = `{"name":"Hand","version":"1.0.0","tables":{"Row":{"indexes":[["name"]],"columns":{
 "name":{"type":"string"},"n":{"type":"integer"},"r":{"type":"real"},"b":{"type":"boolean"},"u":{"type":"uuid"},
 "opt_s":{"type":{"key":"string","min":0,"max":1}},"opt_i":{"type":{"key":"integer","min":0,"max":1}},"opt_b":{"type":{"key":"boolean","min":0,"max":1}},
 "set_s":{"type":{"key":"string","min":0,"max":"unlimited"}},"set_i":{"type":{"key":"integer","min":0,"max":"unlimited"}},"set_r":{"type":{"key":"real","min":0,"max":"unlimited"}},
 "map_ss":{"type":{"key":"string","value":"string","min":0,"max":"unlimited"}},"map_si":{"type":{"key":"string","value":"integer","min":0,"max":"unlimited"}},
 "map_is":{"type":{"key":"integer","value":"string","min":0,"max":"unlimited"}}}}}}`

// family is a model type together with its database model.
type family struct {
	name    string
	dbModel model.DatabaseModel
	table   string
	typ     reflect.Type // struct type
	index   []string     // a schema index (column names), may be nil
	// clientIndex names the struct field of a single-column client index ("" if none)
	clientIndex string
}

func handFamily() (family, error) {
	var schema ovsdb.DatabaseSchema
	if err := json.Unmarshal([]byte(handSchema), &schema); err != nil {
		return family{}, err
	}
	cm, err := model.NewClientDBModel("Hand", map[string]model.Model{"Row": &handRow{}})
	if err != nil {
		return family{}, err
	}
	// a client index (non-default option): look-ups resolved through it are read paths too
	cm.SetIndexes(map[string][]model.ClientIndex{"Row": {{Columns: []model.ColumnKey{{Column: "n"}}}}})
	dm, errs := model.NewDatabaseModel(schema, cm)
	if len(errs) > 0 {
		return family{}, fmt.Errorf("%v", errs)
	}
	return family{name: "hand-written", dbModel: dm, table: "Row", typ: reflect.TypeOf(handRow{}), index: []string{"name"}, clientIndex: "N"}, nil
}

func serverdbFamily() (family, error) {
	cm, err := serverdb.FullDatabaseModel()
	if err != nil {
		return family{}, err
	}
	dm, errs := model.NewDatabaseModel(serverdb.Schema(), cm)
	if len(errs) > 0 {
		return family{}, fmt.Errorf("%v", errs)
	}
	return family{name: "generated(serverdb)", dbModel: dm, table: "Database", typ: reflect.TypeOf(serverdb.Database{})}, nil
}

func dynamicFamily(t *rapid.T) (family, error) {
	p := kit.ProfileDB
	p.MaxTables = 1
	p.Refs = 0
	p.Immutable = false
	s := kit.GenSchema(t, p)
	w, err := kit.BuildWorld(s, nil)
	if err != nil {
		return family{}, err
	}
	f := family{name: "run-time", dbModel: w.DBModel, table: s.Tables[0].Name, typ: w.Types[s.Tables[0].Name].Elem()}
	if len(s.Tables[0].Indexes) > 0 {
		f.index = s.Tables[0].Indexes[0]
	}
	return f, nil
}

// mappedFields lists the struct fields carrying an ovsdb tag (except _uuid).
func mappedFields(typ reflect.Type) []reflect.StructField {
	var out []reflect.StructField
	for i := 0; i < typ.NumField(); i++ {
		f := typ.Field(i)
		if tag := f.Tag.Get("ovsdb"); tag != "" && tag != "_uuid" {
			out = append(out, f)
		}
	}
	return out
}

var c13Strings = []string{"", "a", "b", "c", "long string", "é"}

func fillLeaf(t *rapid.T, v reflect.Value) {
	switch v.Kind() {
	case reflect.String:
		v.SetString(rapid.SampledFrom(c13Strings).Draw(t, "s"))
	case reflect.Int:
		v.SetInt(int64(rapid.IntRange(-3, 1000).Draw(t, "i")))
	case reflect.Float64:
		v.SetFloat(rapid.SampledFrom([]float64{0, 0.5, -1.5, 2, 1e10}).Draw(t, "f"))
	case reflect.Bool:
		v.SetBool(rapid.Bool().Draw(t, "b"))
	}
}

func leafKey(v reflect.Value) string { return fmt.Sprint(v.Interface()) }

// fillModel sets every mapped field of a new model to a drawn value.
func fillModel(t *rapid.T, typ reflect.Type, uuid string) interface{} {
	p := reflect.New(typ)
	for i := 0; i < typ.NumField(); i++ {
		f := typ.Field(i)
		tag := f.Tag.Get("ovsdb")
		if tag == "" {
			continue
		}
		fv := p.Elem().Field(i)
		if tag == "_uuid" {
			fv.SetString(uuid)
			continue
		}
		switch f.Type.Kind() {
		case reflect.Ptr:
			if rapid.IntRange(0, 2).Draw(t, "ptrset") > 0 {
				e := reflect.New(f.Type.Elem())
				fillLeaf(t, e.Elem())
				fv.Set(e)
			}
		case reflect.Slice:
			n := rapid.IntRange(0, 3).Draw(t, "slen")
			if n == 0 && rapid.Bool().Draw(t, "nilslice") {
				break
			}
			s := reflect.MakeSlice(f.Type, 0, n)
			seen := map[string]bool{}
			for j := 0; j < n; j++ {
				e := reflect.New(f.Type.Elem()).Elem()
				fillLeaf(t, e)
				if seen[leafKey(e)] {
					continue
				}
				seen[leafKey(e)] = true
				s = reflect.Append(s, e)
			}
			fv.Set(s)
		case reflect.Map:
			n := rapid.IntRange(0, 3).Draw(t, "mlen")
			if n == 0 && rapid.Bool().Draw(t, "nilmap") {
				break
			}
			m := reflect.MakeMap(f.Type)
			for j := 0; j < n; j++ {
				k := reflect.New(f.Type.Key()).Elem()
				e := reflect.New(f.Type.Elem()).Elem()
				fillLeaf(t, k)
				fillLeaf(t, e)
				m.SetMapIndex(k, e)
			}
			fv.Set(m)
		default:
			fillLeaf(t, fv)
		}
	}
	return p.Interface()
}

// mutateModel performs one caller-side mutation on a model; returns a description and
// whether it went through a non-empty slice, map or pointer (shared-memory sensitive).
func mutateModel(t *rapid.T, m interface{}) (string, bool) {
	v := reflect.ValueOf(m).Elem()
	fields := mappedFields(v.Type())
	f := fields[rapid.IntRange(0, len(fields)-1).Draw(t, "mutfield")]
	fv := v.FieldByName(f.Name)
	bump := func(x reflect.Value) {
		switch x.Kind() {
		case reflect.String:
			x.SetString(x.String() + "~mutated")
		case reflect.Int:
			x.SetInt(x.Int() + 7777)
		case reflect.Float64:
			x.SetFloat(x.Float() + 7777.5)
		case reflect.Bool:
			x.SetBool(!x.Bool())
		}
	}
	switch fv.Kind() {
	case reflect.Ptr:
		if fv.IsNil() {
			e := reflect.New(f.Type.Elem())
			bump(e.Elem())
			fv.Set(e)
			return f.Name + ": set nil pointer", false
		}
		if rapid.Bool().Draw(t, "nilout") {
			fv.Set(reflect.Zero(f.Type))
			return f.Name + ": nil the pointer", false
		}
		bump(fv.Elem())
		return f.Name + ": write through pointer", true
	case reflect.Slice:
		switch k := rapid.IntRange(0, 3).Draw(t, "slicemut"); {
		case k == 0 && fv.Len() > 0:
			bump(fv.Index(rapid.IntRange(0, fv.Len()-1).Draw(t, "elem")))
			return f.Name + ": overwrite slice element", true
		case k == 1:
			e := reflect.New(f.Type.Elem()).Elem()
			bump(e)
			shared := fv.Len() > 0 && fv.Cap() > fv.Len()
			fv.Set(reflect.Append(fv, e))
			return f.Name + ": append", shared
		case k == 2 && fv.Len() > 0:
			fv.Set(fv.Slice(0, fv.Len()-1))
			return f.Name + ": truncate slice", false
		default:
			fv.Set(reflect.Zero(f.Type))
			return f.Name + ": nil the slice", false
		}
	case reflect.Map:
		if fv.IsNil() {
			fv.Set(reflect.MakeMap(f.Type))
		}
		keys := fv.MapKeys()
		if len(keys) > 0 && rapid.Bool().Draw(t, "overwrite") {
			k := keys[rapid.IntRange(0, len(keys)-1).Draw(t, "key")]
			e := reflect.New(f.Type.Elem()).Elem()
			e.Set(fv.MapIndex(k))
			bump(e)
			fv.SetMapIndex(k, e)
			return f.Name + ": overwrite map value", true
		}
		if len(keys) > 0 && rapid.IntRange(0, 2).Draw(t, "delkey") == 0 {
			fv.SetMapIndex(keys[0], reflect.Value{})
			return f.Name + ": delete map key", true
		}
		k := reflect.New(f.Type.Key()).Elem()
		e := reflect.New(f.Type.Elem()).Elem()
		bump(k)
		bump(e)
		fv.SetMapIndex(k, e)
		return f.Name + ": insert map key", len(keys) > 0
	default:
		bump(fv)
		return f.Name + ": overwrite scalar", false
	}
}

// sharesMemory reports a slice, map or pointer field of b that aliases the one of a.
func sharesMemory(a, b interface{}) string {
	va, vb := reflect.ValueOf(a).Elem(), reflect.ValueOf(b).Elem()
	for _, f := range mappedFields(va.Type()) {
		x, y := va.FieldByName(f.Name), vb.FieldByName(f.Name)
		switch f.Type.Kind() {
		case reflect.Ptr, reflect.Map:
			if !x.IsNil() && !y.IsNil() && x.Pointer() == y.Pointer() {
				return f.Name
			}
		case reflect.Slice:
			if x.Len() > 0 && y.Len() > 0 && x.Pointer() == y.Pointer() {
				return f.Name
			}
		}
	}
	return ""
}

type c13Case struct {
	Family   string `json:"family"`
	Model    string `json:"model"`
	ReadPath string `json:"readPath"`
	Mutation string `json:"mutation"`
}

// readPaths returns the cached row through every read path of a row cache.
func readPaths(f family, rc *cache.RowCache, uuid string, probe interface{}) map[string]func() (interface{}, error) {
	paths := map[string]func() (interface{}, error){
		"Row":  func() (interface{}, error) { return rc.Row(uuid), nil },
		"Rows": func() (interface{}, error) { return rc.Rows()[uuid], nil },
		"RowByModel(uuid)": func() (interface{}, error) {
			p := reflect.New(f.typ)
			p.Elem().FieldByName("UUID").SetString(uuid)
			_, m, err := rc.RowByModel(p.Interface())
			return m, err
		},
		"RowsByModels(uuid)": func() (interface{}, error) {
			p := reflect.New(f.typ)
			p.Elem().FieldByName("UUID").SetString(uuid)
			ms, err := rc.RowsByModels([]model.Model{p.Interface()})
			return ms[uuid], err
		},
		"RowsByCondition(_uuid)": func() (interface{}, error) {
			ms, err := rc.RowsByCondition([]ovsdb.Condition{ovsdb.NewCondition("_uuid", ovsdb.ConditionEqual, ovsdb.UUID{GoUUID: uuid})})
			return ms[uuid], err
		},
		"RowsByCondition()": func() (interface{}, error) {
			ms, err := rc.RowsByCondition(nil)
			return ms[uuid], err
		},
		// the previous row that Update hands back (here: an update that changes nothing)
		"Update(same contents)": func() (interface{}, error) {
			return rc.Update(uuid, kit.DeepCopy(probe), false)
		},
	}
	if f.clientIndex != "" {
		// a model that carries nothing but the client-indexed value
		paths["RowsByModels(client index)"] = func() (interface{}, error) {
			p := reflect.New(f.typ)
			p.Elem().FieldByName(f.clientIndex).Set(reflect.ValueOf(probe).Elem().FieldByName(f.clientIndex))
			ms, err := rc.RowsByModels([]model.Model{p.Interface()})
			return ms[uuid], err
		}
	}
	if f.index != nil {
		paths["RowByModel(index)"] = func() (interface{}, error) {
			p := kit.DeepCopy(probe)
			reflect.ValueOf(p).Elem().FieldByName("UUID").SetString("")
			_, m, err := rc.RowByModel(p)
			return m, err
		}
	}
	return paths
}

func TestC13(t *testing.T) {
	hand, err := handFamily()
	if err != nil {
		t.Fatal(err)
	}
	sdb, err := serverdbFamily()
	if err != nil {
		t.Fatal(err)
	}
	rapid.Check(t, func(t *rapid.T) {
		var f family
		switch rapid.IntRange(0, 3).Draw(t, "family") {
		case 0:
			f = hand
		case 1:
			f = sdb
		default:
			var err error
			f, err = dynamicFamily(t)
			if err != nil {
				t.Fatalf("world: %v", err)
			}
		}
		const uuid = "00000000-0000-4000-8000-000000000001"
		m := fillModel(t, f.typ, uuid)
		kase := c13Case{Family: f.name, Model: fmt.Sprintf("%+v", reflect.ValueOf(m).Elem().Interface())}
		fail := func(class, format string, args ...interface{}) {
			kit.Fail(t, "C13", class, kase, format, args...)
		}

		// ---- Clone / Equal contracts ----
		pristine := kit.DeepCopy(m)
		c := model.Clone(m)
		if !reflect.DeepEqual(m, pristine) {
			fail("clone.modifies-argument", "Clone modified its argument")
		}
		if reflect.TypeOf(c) != reflect.TypeOf(m) {
			fail("clone.type", "Clone returned %T for %T", c, m)
		}
		if !model.Equal(m, c) || !model.Equal(c, m) {
			fail("clone.not-equal", "Clone is not Equal to its argument:\n arg %+v\nclone %+v", reflect.ValueOf(m).Elem().Interface(), reflect.ValueOf(c).Elem().Interface())
		}
		if !reflect.DeepEqual(canonModel(m), canonModel(c)) {
			fail("clone.not-equal", "Clone differs from its argument field by field:\n arg %+v\nclone %+v", reflect.ValueOf(m).Elem().Interface(), reflect.ValueOf(c).Elem().Interface())
		}
		if fld := sharesMemory(m, c); fld != "" {
			fail("clone.shares-memory", "Clone shares the memory of field %s with its argument", fld)
		}
		if !model.Equal(m, m) {
			fail("equal.reflexive", "Equal(m, m) is false")
		}
		into := reflect.New(f.typ).Interface()
		model.CloneInto(m, into)
		if !model.Equal(m, into) || sharesMemory(m, into) != "" {
			fail("clone.into", "CloneInto result is not an independent equal copy")
		}
		// change any single mapped field of the clone: not equal any more, argument untouched
		desc, _ := mutateModel(t, c)
		kase.Mutation = desc
		if !reflect.DeepEqual(m, pristine) {
			fail("clone.shares-memory", "mutating the clone (%s) changed the original", desc)
		}
		if !reflect.DeepEqual(canonModel(m), canonModel(c)) {
			if model.Equal(m, c) || model.Equal(c, m) {
				fail("equal.misses-difference", "models differ after %q but Equal says they are equal", desc)
			}
		}

		// ---- cache isolation ----
		handed := kit.DeepCopy(pristine)
		how := rapid.SampledFrom([]string{"Create", "Update", "Populate2", "InitialData"}).Draw(t, "writepath")
		var initial cache.Data
		if how == "InitialData" {
			// the model is handed over as the initial contents of the cache
			initial = cache.Data{f.table: {uuid: handed}}
		}
		tc, err := cache.NewTableCache(f.dbModel, initial, nil)
		if err != nil {
			t.Fatalf("cache: %v", err)
		}
		rc := tc.Table(f.table)
		switch how {
		case "InitialData":
		case "Create":
			if err := rc.Create(uuid, handed, true); err != nil {
				fail("cache.apply-error", "Create: %v", err)
			}
		case "Update":
			first := fillModel(t, f.typ, uuid)
			if err := rc.Create(uuid, first, false); err != nil {
				fail("cache.apply-error", "Create: %v", err)
			}
			if _, err := rc.Update(uuid, handed, false); err != nil {
				fail("cache.apply-error", "Update: %v", err)
			}
		default:
			info, _ := f.dbModel.NewModelInfo(handed)
			row, err := f.dbModel.Mapper.NewRow(info)
			if err != nil {
				fail("cache.apply-error", "NewRow: %v", err)
			}
			delete(row, "_uuid")
			if err := tc.Populate2(ovsdb.TableUpdates2{f.table: {uuid: &ovsdb.RowUpdate2{Insert: &row}}}); err != nil {
				fail("cache.apply-error", "Populate2: %v", err)
			}
		}
		// write direction: mutate the model handed to the cache
		nonTrivial := false
		if how != "Populate2" {
			d, shared := mutateModel(t, handed)
			nonTrivial = nonTrivial || shared
			got := rc.Row(uuid)
			if !reflect.DeepEqual(canonModel(got), canonModel(pristine)) {
				kase.Mutation = d
				fail("cache.aliases-input", "modifying the model after %s (%s) changed the cached row:\n want %+v\n  got %+v", how, d, canonModel(pristine), canonModel(got))
			}
		}
		// read direction
		paths := readPaths(f, rc, uuid, pristine)
		names := make([]string, 0, len(paths))
		for n := range paths {
			names = append(names, n)
		}
		sortStrings(names)
		victimPath := names[rapid.IntRange(0, len(names)-1).Draw(t, "readpath")]
		kase.ReadPath = victimPath
		victim, err := paths[victimPath]()
		if err != nil || victim == nil || reflect.ValueOf(victim).IsNil() {
			fail("cache.read", "%s returned %v %v", victimPath, victim, err)
		}
		if !reflect.DeepEqual(canonModel(victim), canonModel(pristine)) {
			fail("cache.read", "%s returned %+v, stored %+v", victimPath, canonModel(victim), canonModel(pristine))
		}
		d, shared := mutateModel(t, victim)
		kase.Mutation = d
		nonTrivial = nonTrivial || shared
		for _, n := range names {
			again, err := paths[n]()
			if err != nil || again == nil || reflect.ValueOf(again).IsNil() {
				fail("cache.read", "%s returned %v %v after a caller modified a model returned by %s", n, again, err, victimPath)
			}
			if !reflect.DeepEqual(canonModel(again), canonModel(pristine)) {
				fail("cache.leaks-reference", "a caller modified (%s) the model returned by %s; %s now returns\n  %+v\ninstead of\n  %+v", d, victimPath, n, canonModel(again), canonModel(pristine))
			}
		}
		kit.Record("C13", f.name+"|"+victimPath+"|"+how+"|"+strings.SplitN(d, ":", 2)[1], nonTrivial, func() interface{} { return kase }, "family:"+f.name, "read:"+victimPath, "write:"+how)
	})
}

// canonModel renders the mapped fields of a model with nil and empty collections identified.
func canonModel(m interface{}) map[string]interface{} {
	out := map[string]interface{}{}
	v := reflect.ValueOf(m)
	if !v.IsValid() || v.IsNil() {
		return nil
	}
	v = v.Elem()
	for i := 0; i < v.NumField(); i++ {
		f := v.Type().Field(i)
		if f.Tag.Get("ovsdb") == "" {
			continue
		}
		fv := v.Field(i)
		switch fv.Kind() {
		case reflect.Slice:
			items := []string{}
			for j := 0; j < fv.Len(); j++ {
				items = append(items, fmt.Sprint(fv.Index(j).Interface()))
			}
			out[f.Name] = fmt.Sprint(items) // order is part of a model's identity for Equal; keep it
		case reflect.Map:
			items := map[string]string{}
			it := fv.MapRange()
			for it.Next() {
				items[fmt.Sprint(it.Key().Interface())] = fmt.Sprint(it.Value().Interface())
			}
			out[f.Name] = fmt.Sprint(items)
		case reflect.Ptr:
			if fv.IsNil() {
				out[f.Name] = "nil"
			} else {
				out[f.Name] = fmt.Sprint("&", fv.Elem().Interface())
			}
		default:
			out[f.Name] = fmt.Sprint(fv.Interface())
		}
	}
	return out
}

type realKeyRow struct {
	UUID string             `ovsdb:"_uuid"`
	M    map[float64]string `ovsdb:"m"`
	Name string             `ovsdb:"name"`
}

func TestFindingC13CloneRealKey(t *testing.T) {
	m := &realKeyRow{UUID: "u", M: map[float64]string{1.5: "x"}, Name: "n"}
	c := model.Clone(m).(*realKeyRow)
	if !model.Equal(m, c) {
		t.Fatalf("VERIF-FAIL property=C13 class=clone-nonjson-map-key: Clone of a hand-written model with a map[float64]string column returns %+v for %+v (the JSON fallback cannot encode such keys and its error is ignored)", *c, *m)
	}
}

// TestC13Large: the isolation of what the cache hands out does not depend on how many rows
// a table holds. Tables of 300, 1027, 2051 and 4100 rows (thresholds of any batching or
// parallel copying are unknown: sizes around powers of two that no small batch size
// divides) are read in full through Rows, RowsByCondition without conditions and row by
// row; every returned model is scribbled over (scalar overwritten, set appended to and
// its first element overwritten); the cache must still hold what was stored.
func TestC13Large(t *testing.T) {
	w := c16World(t)
	for _, n := range []int{300, 1027, 2051, 4100} {
		tc, err := cache.NewTableCache(w.DBModel, nil, nil)
		if err != nil {
			t.Fatal(err)
		}
		rc := tc.Table("T0")
		want := kit.Rows{}
		for i := 0; i < n; i++ {
			u := kit.MkUUID(i + 1)
			r := kit.Row{"marker": kit.Scalar(kit.Str(fmt.Sprintf("m%d", i))), "n": kit.Scalar(kit.Int(int64(i))), "tags": kit.SetOf(kit.Str("a"), kit.Str(fmt.Sprintf("t%d", i)))}
			want[u] = r
			if err := rc.Create(u, w.ModelFromRow("T0", u, r), true); err != nil {
				t.Fatal(err)
			}
		}
		scribble := func(m model.Model) {
			info, err := w.DBModel.NewModelInfo(m)
			if err != nil {
				t.Fatal(err)
			}
			if tags, err := info.FieldByColumn("tags"); err == nil {
				if s, ok := tags.([]string); ok && len(s) > 0 {
					s[0] = "scribbled"
					_ = info.SetField("tags", append(s, "appended"))
				}
			}
			_ = info.SetField("marker", "scribbled")
			_ = info.SetField("n", -1)
		}
		paths := []struct {
			name string
			read func() []model.Model
		}{
			{"Rows", func() []model.Model {
				var out []model.Model
				for _, m := range rc.Rows() {
					out = append(out, m)
				}
				return out
			}},
			{"RowsByCondition(no conditions)", func() []model.Model {
				rows, err := rc.RowsByCondition(nil)
				if err != nil {
					t.Fatal(err)
				}
				var out []model.Model
				for _, m := range rows {
					out = append(out, m)
				}
				return out
			}},
			{"Row by Row", func() []model.Model {
				var out []model.Model
				for u := range want {
					out = append(out, rc.Row(u))
				}
				return out
			}},
		}
		for _, p := range paths {
			models := p.read()
			if len(models) != n {
				t.Fatalf("harness: %s returns %d of %d rows", p.name, len(models), n)
			}
			for _, m := range models {
				scribble(m)
			}
			got, err := w.RowsFromModels("T0", rc.RowsShallow())
			if err != nil {
				t.Fatal(err)
			}
			kase := map[string]interface{}{"rows": n, "readPath": p.name}
			if d := kit.DiffStates(kit.State{"T0": want}, kit.State{"T0": got}); len(d) > 0 {
				if len(d) > 6 {
					d = append(d[:6], fmt.Sprintf("... and %d more", len(d)-6))
				}
				kit.Fail(t, "C13", "isolation.large-table", kase, "table of %d rows: models returned by %s share memory with the cache: after scribbling over them the cache reads\n%s", n, p.name, strings.Join(d, "\n"))
			}
			kit.Record("C13", fmt.Sprintf("large|%d|%s", n, p.name), true, func() interface{} { return kase }, "large-table")
		}
	}
}
