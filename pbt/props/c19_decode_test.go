package props

import (
	"encoding/json"
	"fmt"
	"os"
	"reflect"
	"runtime/debug"
	"strings"
	"testing"

	"github.com/ovn-org/libovsdb/ovsdb"
	"pgregory.net/rapid"

	"verif/pbt/kit"
)

// decodeTargets are the exported wire types arbitrary bytes may be decoded into.
var decodeTargets = []struct {
	name string
	typ  reflect.Type
}{
	{"OvsSet", reflect.TypeOf(ovsdb.OvsSet{})},
	{"OvsMap", reflect.TypeOf(ovsdb.OvsMap{})},
	{"UUID", reflect.TypeOf(ovsdb.UUID{})},
	{"Row", reflect.TypeOf(ovsdb.Row{})},
	{"Condition", reflect.TypeOf(ovsdb.Condition{})},
	{"Mutation", reflect.TypeOf(ovsdb.Mutation{})},
	{"Operation", reflect.TypeOf(ovsdb.Operation{})},
	{"TableUpdates", reflect.TypeOf(ovsdb.TableUpdates{})},
	{"TableUpdates2", reflect.TypeOf(ovsdb.TableUpdates2{})},
	{"MonitorCondSinceReply", reflect.TypeOf(ovsdb.MonitorCondSinceReply{})},
	{"MonitorRequest", reflect.TypeOf(ovsdb.MonitorRequest{})},
	{"OperationResult", reflect.TypeOf(ovsdb.OperationResult{})},
	{"DatabaseSchema", reflect.TypeOf(ovsdb.DatabaseSchema{})},
	{"ColumnSchema", reflect.TypeOf(ovsdb.ColumnSchema{})},
	{"BaseType", reflect.TypeOf(ovsdb.BaseType{})},
	{"ColumnType", reflect.TypeOf(ovsdb.ColumnType{})},
}

// tryDecode decodes data into a fresh value of typ and re-encodes it if that
// worked. It returns the panic value (and stack) if the library panicked.
func tryDecode(typ reflect.Type, data []byte) (decoded bool, stage string, pval interface{}, stack string) {
	stage = "decode"
	defer func() {
		if r := recover(); r != nil {
			pval = r
			stack = string(debug.Stack())
		}
	}()
	p := reflect.New(typ)
	if err := json.Unmarshal(data, p.Interface()); err != nil {
		return false, stage, nil, ""
	}
	decoded = true
	stage = "encode"
	b, err := json.Marshal(p.Elem().Interface())
	if err != nil {
		return decoded, stage, nil, ""
	}
	stage = "redecode"
	q := reflect.New(typ)
	_ = json.Unmarshal(b, q.Interface())
	if s, ok := p.Interface().(*ovsdb.ColumnSchema); ok {
		stage = "string"
		_ = s.String()
	}
	if _, ok := p.Interface().(*ovsdb.DatabaseSchema); ok {
		// the same text as a schema file, the way a server program loads it
		stage = "schema-from-file"
		if f, err := os.CreateTemp("", "c19-schema-*.json"); err == nil {
			defer os.Remove(f.Name())
			defer f.Close()
			if _, err := f.Write(data); err == nil {
				if _, err := f.Seek(0, 0); err == nil {
					_, _ = ovsdb.SchemaFromFile(f)
				}
			}
		}
	}
	return decoded, stage, nil, ""
}

// repoDir is where the library under test lives (/repo unless the driver runs on a scratch copy).
func repoDir() string {
	if d := os.Getenv("VERIF_REPO_DIR"); d != "" {
		return strings.TrimRight(d, "/")
	}
	return "/repo"
}

// panicSite extracts the first /repo frame of a stack for classification.
func panicSite(stack string) string {
	for _, line := range strings.Split(stack, "\n") {
		line = strings.TrimSpace(line)
		if strings.HasPrefix(line, repoDir()+"/") {
			if i := strings.Index(line, " "); i > 0 {
				line = line[:i]
			}
			return strings.TrimPrefix(line, repoDir()+"/")
		}
	}
	return "unknown"
}

func validEncoding(t *rapid.T, name string) []byte {
	switch name {
	case "OvsSet":
		return kit.MustJSON(genWireSet(t, true))
	case "OvsMap":
		return kit.MustJSON(genWireMap(t))
	case "UUID":
		return kit.MustJSON(genWireUUID(t))
	case "Row":
		r, _ := genWireRow(t, 0)
		return kit.MustJSON(r)
	case "Condition":
		c, _ := genWireCondition(t)
		return kit.MustJSON(c)
	case "Mutation":
		m, _ := genWireMutation(t)
		return kit.MustJSON(m)
	case "Operation":
		op, _, _ := genWireOperation(t)
		return kit.MustJSON(op)
	case "TableUpdates":
		tu, _ := genTableUpdates(t)
		return kit.MustJSON(tu)
	case "TableUpdates2":
		tu, _ := genTableUpdates2(t)
		return kit.MustJSON(tu)
	case "MonitorCondSinceReply":
		tu, _ := genTableUpdates2(t)
		return kit.MustJSON(ovsdb.MonitorCondSinceReply{Found: true, LastTransactionID: kit.ZeroUUID, Updates: tu})
	case "MonitorRequest":
		c, _ := genWireCondition(t)
		return kit.MustJSON(ovsdb.MonitorRequest{Columns: []string{"a"}, Where: []ovsdb.Condition{c}, Select: ovsdb.NewDefaultMonitorSelect()})
	case "OperationResult":
		r, _ := genWireRow(t, 0)
		return kit.MustJSON(ovsdb.OperationResult{Count: 1, UUID: genWireUUID(t), Rows: []ovsdb.Row{r}})
	default:
		s := kit.GenSchema(t, kit.ProfileCodec)
		text := s.JSON()
		if name == "DatabaseSchema" {
			return text
		}
		// pick one column / base type / column type out of the schema text
		var tree map[string]interface{}
		_ = json.Unmarshal(text, &tree)
		tb := s.Tables[rapid.IntRange(0, len(s.Tables)-1).Draw(t, "table")]
		c := tb.Cols[rapid.IntRange(0, len(tb.Cols)-1).Draw(t, "column")]
		col := tree["tables"].(map[string]interface{})[tb.Name].(map[string]interface{})["columns"].(map[string]interface{})[c.Name].(map[string]interface{})
		switch name {
		case "ColumnSchema":
			return kit.MustJSON(col)
		case "ColumnType":
			return kit.MustJSON(col["type"])
		default:
			if m, ok := col["type"].(map[string]interface{}); ok {
				return kit.MustJSON(m["key"])
			}
			return kit.MustJSON(col["type"])
		}
	}
}

type c19DecodeCase struct {
	Type        string   `json:"type"`
	Input       string   `json:"input"`
	Corruptions []string `json:"corruptions,omitempty"`
}

func TestC19Decode(t *testing.T) {
	rapid.Check(t, func(t *rapid.T) {
		tg := decodeTargets[rapid.IntRange(0, len(decodeTargets)-1).Draw(t, "target")]
		var data []byte
		var desc []string
		switch rapid.IntRange(0, 9).Draw(t, "source") {
		case 0:
			// a hostile constant on its own, or the valid encoding of another type
			if rapid.Bool().Draw(t, "const") {
				data = []byte(rapid.SampledFrom(kit.HostileNodes()).Draw(t, "hostile"))
				desc = []string{"constant"}
			} else {
				other := decodeTargets[rapid.IntRange(0, len(decodeTargets)-1).Draw(t, "othertype")]
				data = validEncoding(t, other.name)
				desc = []string{"encoding-of:" + other.name}
			}
		default:
			data, desc = kit.CorruptJSON(t, validEncoding(t, tg.name), 3, nil)
		}
		decoded, stage, pval, stack := tryDecode(tg.typ, data)
		kase := c19DecodeCase{Type: tg.name, Input: string(data), Corruptions: desc}
		if pval != nil {
			kit.Fail(t, "C19", "panic."+panicSite(stack), kase, "%s of %s into %s panicked: %v\n%s", stage, data, tg.name, pval, stack)
		}
		lbl := "decode:rejected"
		if decoded {
			lbl = "decode:accepted"
		}
		kit.Record("C19", fmt.Sprintf("%s:%s", tg.name, data), true, func() interface{} { return kase }, lbl, "target:"+tg.name)
	})
}
