package props

import (
	"encoding/json"
	"fmt"
	"strings"
	"testing"

	"github.com/ovn-org/libovsdb/model"
	"github.com/ovn-org/libovsdb/ovsdb"
	"github.com/ovn-org/libovsdb/updates"
	"pgregory.net/rapid"

	"verif/pbt/kit"
	"verif/pbt/refdb"
)

type c11Case struct {
	Schema json.RawMessage `json:"schema"`
	First  kit.Row         `json:"first"`
	Ops    string          `json:"ops"`
	States []string        `json:"states"`
}

func mutSupported(c kit.Col) bool {
	if len(c.Key.Enum) > 0 {
		return false
	}
	switch c.Shape() {
	case kit.ShScalar:
		return c.Key.T == kit.TInt || c.Key.T == kit.TReal
	case kit.ShOpt:
		return false
	}
	return true
}

// TestC11: several changes to one row are accumulated exactly as Transaction.Transact
// does (one ModelUpdates per operation, Merge into the aggregate, the next operation
// sees the model produced by the previous one) and the aggregate is compared with the
// net change computed by the reference rules.
func TestC11(t *testing.T) {
	rapid.Check(t, func(t *rapid.T) {
		s := kit.GenSchema(t, profileC10)
		w, err := kit.BuildWorld(s, nil)
		if err != nil {
			t.Fatalf("world: %v", err)
		}
		tb := s.Tables[0]
		const uuid = "00000000-0000-4000-8000-000000000001"
		pool := &kit.Pool{Big: rapid.IntRange(0, 19).Draw(t, "big") == 0}
		if pool.Big {
			kit.Label("C11", "big-mode-case")
		}
		g := kit.NewTxnGen(s, kit.TxnCfg{})
		var first kit.Row
		if rapid.IntRange(0, 3).Draw(t, "exists") > 0 {
			first = kit.GenRow(t, tb, pool, true)
		}
		n := rapid.IntRange(2, 6).Draw(t, "nops")
		cur := first
		var curModel model.Model
		if first != nil {
			curModel = w.ModelFromRow(tb.Name, uuid, first)
		}
		var agg updates.ModelUpdates
		var ops []kit.Op
		states := []kit.Row{first}
		restored := false
		byUUID := []kit.Cond{{Col: "_uuid", Fn: "==", Val: kit.Scalar(kit.UUID(uuid))}}
		kase := func() c11Case {
			c := c11Case{Schema: s.JSON(), First: first, Ops: string(kit.OpsJSON(s, ops))}
			for _, st := range states {
				if st == nil {
					c.States = append(c.States, "absent")
				} else {
					c.States = append(c.States, st.Key())
				}
			}
			return c
		}
		fail := func(class, format string, args ...interface{}) {
			kit.Fail(t, "C11", class, kase(), format, args...)
		}
		var addBystander func()
		// a bystander: another row of the same table whose single update is merged into the
		// same aggregate at a drawn point; whatever happens to the main row must leave it alone
		const uuidB = "00000000-0000-4000-8000-000000000002"
		bAt := -1
		var bRow1 kit.Row
		if rapid.Bool().Draw(t, "bystander") {
			bRow0 := kit.GenRow(t, tb, pool, true)
			c := tb.Cols[rapid.IntRange(0, len(tb.Cols)-1).Draw(t, "bcol")]
			for tries := 0; tries < 6; tries++ {
				if v := kit.GenVal(t, c, pool); !kit.EqVal(v, bRow0[c.Name]) {
					bRow1 = bRow0.Clone()
					bRow1[c.Name] = v
					break
				}
			}
			if bRow1 != nil {
				bAt = rapid.IntRange(0, n-1).Draw(t, "bat")
				bop := kit.Op{Op: "update", Table: tb.Name, Where: []kit.Cond{{Col: "_uuid", Fn: "==", Val: kit.Scalar(kit.UUID(uuidB))}}, Row: kit.Row{c.Name: bRow1[c.Name]}}
				bdec, err := kit.DecodeOps(s, []kit.Op{bop})
				if err != nil {
					t.Fatalf("harness: %v", err)
				}
				addBystander = func() {
					var ub updates.ModelUpdates
					if err := ub.AddOperation(w.DBModel, tb.Name, uuidB, w.ModelFromRow(tb.Name, uuidB, bRow0), &bdec[0]); err != nil {
						fail("aggregate.error", "AddOperation for the bystander row failed: %v", err)
					}
					if err := agg.Merge(w.DBModel, ub); err != nil {
						fail("aggregate.error", "Merge of the bystander row's update failed: %v", err)
					}
				}
			}
		}
		bystanderIn := false
		deleted := false
		for i := 0; i < n && !deleted; i++ {
			if i == bAt {
				addBystander()
				bystanderIn = true
				kit.Label("C11", "bystander-row-in-aggregate")
			}
			// sometimes an operation the aggregate has to refuse comes in between (a second insert of
			// the row while the aggregate holds changes of it): the error is the whole effect
			if cur != nil && i > 0 && agg.GetModel(tb.Name, uuid) != nil && rapid.IntRange(0, 4).Draw(t, "refusedop") == 0 {
				rop := kit.Op{Op: "insert", Table: tb.Name, UUID: uuid, Row: kit.GenRow(t, tb, pool, false)}
				rdec, err := kit.DecodeOps(s, []kit.Op{rop})
				if err != nil {
					t.Fatalf("harness: %v", err)
				}
				var ur updates.ModelUpdates
				if err := ur.AddOperation(w.DBModel, tb.Name, uuid, nil, &rdec[0]); err != nil {
					t.Fatalf("harness: insert operation on its own: %v", err)
				}
				if err := agg.Merge(w.DBModel, ur); err == nil {
					fail("aggregate.error", "a second insert of the row was merged into an aggregate that holds changes of it (op %d)", i)
				}
				kit.Label("C11", "refused-operation-in-between")
			}
			var op kit.Op
			next := kit.Row(nil)
			switch {
			case cur == nil:
				op = kit.Op{Op: "insert", Table: tb.Name, UUID: uuid, Row: kit.GenRow(t, tb, pool, false)}
				next = tb.FillDefaults(op.Row)
			default:
				kind := rapid.SampledFrom([]string{"update", "update", "mutate", "mutate", "restore", "restore", "delete"}).Draw(t, "kind")
				if kind == "delete" && i < n-1 && rapid.Bool().Draw(t, "notyet") {
					kind = "update"
				}
				if kind == "restore" && first == nil {
					kind = "update"
				}
				next = cur.Clone()
				switch kind {
				case "update":
					op = kit.Op{Op: "update", Table: tb.Name, Where: byUUID, Row: kit.Row{}}
					for j, k := 0, rapid.IntRange(1, 2).Draw(t, "nupd"); j < k; j++ {
						c := tb.Cols[rapid.IntRange(0, len(tb.Cols)-1).Draw(t, "col")]
						v := kit.GenVal(t, c, pool)
						op.Row[c.Name] = v
						next[c.Name] = v
					}
				case "restore":
					op = kit.Op{Op: "update", Table: tb.Name, Where: byUUID, Row: kit.Row{}}
					all := rapid.Bool().Draw(t, "restoreall")
					for _, c := range tb.Cols {
						if all || rapid.Bool().Draw(t, "restorecol") {
							op.Row[c.Name] = first[c.Name].Clone()
							next[c.Name] = first[c.Name].Clone()
						}
					}
					if len(op.Row) == 0 {
						c := tb.Cols[0]
						op.Row[c.Name] = first[c.Name].Clone()
						next[c.Name] = first[c.Name].Clone()
					}
					restored = true
				case "mutate":
					var cands []kit.Col
					for _, c := range tb.Cols {
						if mutSupported(c) {
							cands = append(cands, c)
						}
					}
					if len(cands) == 0 {
						c := tb.Cols[0]
						v := kit.GenVal(t, c, pool)
						op = kit.Op{Op: "update", Table: tb.Name, Where: byUUID, Row: kit.Row{c.Name: v}}
						next[c.Name] = v
						break
					}
					op = kit.Op{Op: "mutate", Table: tb.Name, Where: byUUID}
					for j, k := 0, rapid.IntRange(1, 2).Draw(t, "nmut"); j < k; j++ {
						c := cands[rapid.IntRange(0, len(cands)-1).Draw(t, "mcol")]
						cv := next[c.Name]
						m := g.GenMutation(t, c, &cv, pool)
						nv, class, _ := refdb.ApplyMutation(c, next[c.Name], m)
						if class != "" {
							// e.g. a zero divisor is not generated (cfg), anything else would be a harness bug
							t.Fatalf("harness: mutation %v invalid: %s", m, class)
						}
						for _, a := range nv.K {
							if a.T == kit.TReal && a.R == 0 && (1/a.R) < 0 {
								t.Skip("negative zero")
							}
						}
						op.Mutations = append(op.Mutations, m)
						next[c.Name] = nv
					}
				case "delete":
					op = kit.Op{Op: "delete", Table: tb.Name, Where: byUUID}
					next = nil
					deleted = true
				}
			}
			ops = append(ops, op)
			states = append(states, next)
			dec, err := kit.DecodeOps(s, []kit.Op{op})
			if err != nil {
				t.Fatalf("harness: %v", err)
			}
			var u updates.ModelUpdates
			if err := u.AddOperation(w.DBModel, tb.Name, uuid, curModel, &dec[0]); err != nil {
				fail("aggregate.error", "AddOperation(%s) failed: %v", kit.OpsJSON(s, []kit.Op{op}), err)
			}
			if err := agg.Merge(w.DBModel, u); err != nil {
				fail("aggregate.error", "Merge after %s failed: %v", kit.OpsJSON(s, []kit.Op{op}), err)
			}
			// the model the next operation works on: as the transaction cache would hold it
			switch {
			case next == nil:
				curModel = nil
			default:
				if m := u.GetModel(tb.Name, uuid); m != nil {
					curModel = m
				}
				_, got, err := w.RowFromModel(tb.Name, curModel)
				if err != nil {
					fail("aggregate.model", "model after op %d unreadable: %v", i, err)
				}
				for _, c := range tb.Cols {
					if !kit.EqVal(got[c.Name], next[c.Name]) {
						fail("aggregate.step", "after op %d column %s is %s, the operation prescribes %s", i, c.Name, got[c.Name].Key(), next[c.Name].Key())
					}
				}
			}
			cur = next

			// the bystander's update survives whatever was merged for the main row
			if bystanderIn {
				bm := agg.GetModel(tb.Name, uuidB)
				if bm == nil {
					fail("aggregate.other-row-lost", "after op %d on the main row the aggregate no longer holds the update of another row of the table", i)
				}
				if _, br, err := w.RowFromModel(tb.Name, bm); err != nil || rowStr(br) != rowStr(bRow1) {
					fail("aggregate.other-row-changed", "after op %d on the main row the aggregated update of another row reads %s, want %s (%v)", i, rowStr(br), rowStr(bRow1), err)
				}
				found := false
				_ = agg.ForEachRowUpdate(tb.Name, func(u string, r ovsdb.RowUpdate2) error {
					found = found || (u == uuidB && r.Modify != nil)
					return nil
				})
				if !found {
					fail("aggregate.other-row-lost", "after op %d on the main row the aggregate lists no modify for the other row", i)
				}
			}
			// ---- laws on the aggregate after every step from the second on ----
			if i == 0 {
				continue
			}
			last := cur
			var rus []ovsdb.RowUpdate2
			_ = agg.ForEachRowUpdate(tb.Name, func(u string, r ovsdb.RowUpdate2) error {
				if u == uuid {
					rus = append(rus, r)
				}
				return nil
			})
			var olds, news []model.Model
			_ = agg.ForEachModelUpdate(tb.Name, func(u string, o, nw model.Model) error {
				if u == uuid {
					olds = append(olds, o)
					news = append(news, nw)
				}
				return nil
			})
			same := first != nil && last != nil && first.Key() == last.Key()
			if (first == nil && last == nil) || same {
				if (!bystanderIn && len(agg.GetUpdatedTables()) != 0) || len(rus) != 0 {
					fail("aggregate.not-empty", "the row ends as it began (%v -> %v) but the aggregate still holds an update: %+v", rowStr(first), rowStr(last), rus)
				}
				if agg.GetModel(tb.Name, uuid) != nil && last == nil {
					fail("aggregate.getmodel", "GetModel returns a model for a row that does not exist any more")
				}
				continue
			}
			if len(rus) != 1 || len(olds) != 1 {
				fail("aggregate.count", "want exactly one aggregated update for the row, got %d", len(rus))
			}
			ru := rus[0]
			rowOf := func(m model.Model) kit.Row {
				if m == nil {
					return nil
				}
				_, r, err := w.RowFromModel(tb.Name, m)
				if err != nil {
					fail("aggregate.model", "%v", err)
				}
				return r
			}
			if o := rowOf(olds[0]); rowStr(o) != rowStr(first) {
				fail("aggregate.old", "aggregated old model is %s, the first old value is %s", rowStr(o), rowStr(first))
			}
			if nw := rowOf(news[0]); rowStr(nw) != rowStr(last) {
				fail("aggregate.new", "aggregated new model is %s, the last new value is %s", rowStr(nw), rowStr(last))
			}
			if gm := rowOf(agg.GetModel(tb.Name, uuid)); rowStr(gm) != rowStr(last) {
				fail("aggregate.getmodel", "GetModel returns %s, last state is %s", rowStr(gm), rowStr(last))
			}
			ovsRow := func(p *ovsdb.Row) kit.Row {
				if p == nil {
					return nil
				}
				r, err := w.RowFromOvs(tb.Name, *p)
				if err != nil {
					fail("aggregate.malformed", "%v", err)
				}
				delete(r, "_uuid")
				return tb.FillDefaults(r)
			}
			if gr := agg.GetRow(tb.Name, uuid); rowStr(ovsRow(gr)) != rowStr(last) {
				fail("aggregate.getrow", "GetRow returns %s, last state is %s", rowStr(ovsRow(gr)), rowStr(last))
			}
			switch {
			case first == nil:
				if ru.Insert == nil || ru.Modify != nil || ru.Delete != nil {
					fail("aggregate.kind", "insert followed by changes must be one insert: %+v", ru)
				}
				if got := ovsRow(ru.Insert); rowStr(got) != rowStr(last) {
					fail("aggregate.insert-row", "aggregated insert carries %s, final row is %s", rowStr(got), rowStr(last))
				}
			case last == nil:
				if ru.Delete == nil || ru.Insert != nil || ru.Modify != nil {
					fail("aggregate.kind", "changes followed by delete must be one delete: %+v", ru)
				}
				if got := ovsRow(ru.Old); rowStr(got) != rowStr(first) {
					fail("aggregate.delete-old", "aggregated delete carries old row %s, original row is %s", rowStr(got), rowStr(first))
				}
			default:
				if ru.Modify == nil || ru.Insert != nil || ru.Delete != nil {
					fail("aggregate.kind", "changes of an existing row must be one modify: %+v", ru)
				}
				diff, err := w.RowFromOvs(tb.Name, *ru.Modify)
				if err != nil {
					fail("aggregate.malformed", "%v", err)
				}
				applied, err := tb.ApplyUpdate2(first, diff)
				if err != nil {
					fail("aggregate.malformed", "%v", err)
				}
				if rowStr(applied) != rowStr(last) {
					fail("aggregate.modify", "aggregated modify %s applied to the first old value %s gives %s, last new value is %s", diff.Key(), rowStr(first), rowStr(applied), rowStr(last))
				}
				for name := range diff {
					if kit.EqVal(first[name], last[name]) {
						fail("aggregate.modify-unchanged", "column %s is back to its original value %s but still in the aggregated modify (%s)", name, first[name].Key(), diff[name].Key())
					}
				}
				if got := ovsRow(ru.Old); rowStr(got) != rowStr(first) {
					fail("aggregate.old-row", "aggregated old row %s, first old value %s", rowStr(got), rowStr(first))
				}
				if got := ovsRow(ru.New); rowStr(got) != rowStr(last) {
					fail("aggregate.new-row", "aggregated new row %s, last new value %s", rowStr(got), rowStr(last))
				}
			}
		}
		var kinds []string
		for _, o := range ops {
			kinds = append(kinds, o.Summary())
		}
		kit.Record("C11", tableSig(tb)+"|"+strings.Join(kinds, ";")+fmt.Sprint(first == nil), len(ops) >= 3 || restored, func() interface{} { return kase() },
			fmt.Sprintf("len:%d", len(ops)))
	})
}

func rowStr(r kit.Row) string {
	if r == nil {
		return "absent"
	}
	return r.Key()
}
