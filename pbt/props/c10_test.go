package props

import (
	"encoding/json"
	"fmt"
	"reflect"
	"strings"
	"testing"

	"github.com/ovn-org/libovsdb/model"
	"github.com/ovn-org/libovsdb/ovsdb"
	"github.com/ovn-org/libovsdb/updates"
	"pgregory.net/rapid"

	"verif/pbt/kit"
	"verif/pbt/refdb"
)

type c10Case struct {
	Schema json.RawMessage `json:"schema"`
	A      string          `json:"a"` // native rendering (order matters)
	B      kit.Row         `json:"b"`
	Diff   kit.Row         `json:"diff,omitempty"`
	Modify string          `json:"modify,omitempty"`
	Mutate string          `json:"mutate,omitempty"`
}

// wireRow sends a row through JSON, as a notification would carry it.
func wireRow(r ovsdb.Row) (ovsdb.Row, error) {
	b, err := json.Marshal(r)
	if err != nil {
		return nil, err
	}
	var out ovsdb.Row
	err = json.Unmarshal(b, &out)
	return out, err
}

type failFn func(class string, format string, args ...interface{})

// checkDiffPair is the core of C10 for one model a and one target row b (a subset of columns).
func checkDiffPair(w *kit.World, tb kit.Table, a interface{}, b kit.Row, fail failFn) (changedCols int) {
	return checkDiffOp(w, tb, a, kit.Op{Op: "update", Table: tb.Name, Row: b, Where: []kit.Cond{}}, b, fail)
}

// checkDiffOp: the operation op (an update to the columns of b, or a mutate whose net
// effect on a is b) is turned into a difference by the library; see TestC10.
func checkDiffOp(w *kit.World, tb kit.Table, a interface{}, op kit.Op, b kit.Row, fail failFn) (changedCols int) {
	const uuid = "00000000-0000-4000-8000-000000000001"
	_, aRow, err := w.RowFromModel(tb.Name, a)
	if err != nil {
		fail("harness", "model a unreadable: %v", err)
	}
	pristine := kit.DeepCopy(a)
	ops, err := kit.DecodeOps(w.S, []kit.Op{op})
	if err != nil {
		fail("harness", "op does not decode: %v", err)
	}
	var mu updates.ModelUpdates
	if err := mu.AddOperation(w.DBModel, tb.Name, uuid, a, &ops[0]); err != nil {
		fail("difference.error", "AddOperation(%s) failed: %v", op.Op, err)
	}
	if !reflect.DeepEqual(a, pristine) {
		fail("difference.input-modified", "computing the difference modified the model it was computed from:\nbefore %+v\n after %+v", pristine, a)
	}
	want := aRow.Clone()
	for name, v := range b {
		want[name] = v
	}
	var changed []string
	for name, v := range b {
		if !kit.EqVal(v, aRow[name]) {
			changed = append(changed, name)
		}
	}
	tables := mu.GetUpdatedTables()
	if len(changed) == 0 {
		if len(tables) != 0 {
			fail("difference.not-empty", "a equals b on every updated column but an update was recorded: %v", dumpUpdate(mu, tb.Name))
		}
		return 0
	}
	if len(tables) != 1 {
		fail("difference.empty", "a differs from b on %v but no update was recorded", changed)
	}
	var ru ovsdb.RowUpdate2
	n := 0
	_ = mu.ForEachRowUpdate(tb.Name, func(u string, r ovsdb.RowUpdate2) error { ru = r; n++; return nil })
	if n != 1 || ru.Modify == nil || ru.Insert != nil || ru.Delete != nil {
		fail("difference.shape", "want one modify update, got %d: %+v", n, ru)
	}
	diff, err := w.RowFromOvs(tb.Name, *ru.Modify)
	if err != nil {
		fail("difference.malformed", "modify row: %v", err)
	}
	if len(diff) != len(changed) {
		fail("difference.columns", "modify names columns %v, changed columns are %v", keysOf(diff), changed)
	}
	for _, name := range changed {
		if _, ok := diff[name]; !ok {
			fail("difference.columns", "changed column %s missing from modify %v", name, keysOf(diff))
		}
	}
	applied, err := tb.ApplyUpdate2(aRow, diff)
	if err != nil {
		fail("difference.malformed", "%v", err)
	}
	for _, c := range tb.Cols {
		if !kit.EqVal(applied[c.Name], want[c.Name]) {
			fail("difference.wrong", "column %s: a=%s b=%s, difference %s applied to a by the update2 rules gives %s", c.Name, aRow[c.Name].Key(), want[c.Name].Key(), diff[c.Name].Key(), applied[c.Name].Key())
		}
	}
	// what the library itself says the new model is
	var newModel model.Model
	_ = mu.ForEachModelUpdate(tb.Name, func(u string, old, new model.Model) error { newModel = new; return nil })
	_, nrow, err := w.RowFromModel(tb.Name, newModel)
	if err != nil {
		fail("difference.malformed", "new model: %v", err)
	}
	for _, c := range tb.Cols {
		if !kit.EqVal(nrow[c.Name], want[c.Name]) {
			fail("difference.new-model", "column %s of the updated model is %s, want %s", c.Name, nrow[c.Name].Key(), want[c.Name].Key())
		}
	}
	// apply the difference, as received from the wire, to a copy of a
	modWire, err := wireRow(*ru.Modify)
	if err != nil {
		fail("difference.malformed", "modify does not survive JSON: %v", err)
	}
	cur := kit.DeepCopy(pristine)
	curCopy := kit.DeepCopy(pristine)
	var mu2 updates.ModelUpdates
	if err := mu2.AddRowUpdate2(w.DBModel, tb.Name, uuid, cur, ovsdb.RowUpdate2{Modify: &modWire}); err != nil {
		fail("apply.error", "AddRowUpdate2(modify) failed: %v", err)
	}
	if !reflect.DeepEqual(cur, curCopy) {
		fail("apply.input-modified", "applying a difference modified the model it was applied to")
	}
	var applied2 model.Model
	_ = mu2.ForEachModelUpdate(tb.Name, func(u string, old, new model.Model) error { applied2 = new; return nil })
	if applied2 == nil {
		fail("apply.no-change", "applying the difference %s to a reports no change", diff.Key())
	}
	_, arow2, err := w.RowFromModel(tb.Name, applied2)
	if err != nil {
		fail("apply.malformed", "%v", err)
	}
	for _, c := range tb.Cols {
		if !kit.EqVal(arow2[c.Name], want[c.Name]) {
			fail("apply.wrong", "column %s: applying diff(a,b)=%s to a=%s gives %s, want b=%s", c.Name, diff[c.Name].Key(), aRow[c.Name].Key(), arow2[c.Name].Key(), want[c.Name].Key())
		}
	}
	// a further difference computed from the model the update set now holds (an update
	// that restores a) must leave that model alone as well; done last: it changes mu
	if held := mu.GetModel(tb.Name, uuid); held != nil {
		heldCopy := kit.DeepCopy(held)
		back := kit.Row{}
		for _, name := range changed {
			back[name] = aRow[name]
		}
		ops2, err := kit.DecodeOps(w.S, []kit.Op{{Op: "update", Table: tb.Name, Row: back, Where: []kit.Cond{}}})
		if err != nil {
			fail("harness", "op does not decode: %v", err)
		}
		_ = mu.AddOperation(w.DBModel, tb.Name, uuid, held, &ops2[0])
		if !reflect.DeepEqual(held, heldCopy) {
			fail("difference.input-modified", "computing a second difference from the model held by the update set modified that model:\nbefore %+v\n after %+v", heldCopy, held)
		}
	}
	return len(changed)
}

// checkPeerDiff applies an arbitrary difference d (as a peer would send it) to a and
// compares with the harness' own update2 rules.
func checkPeerDiff(w *kit.World, tb kit.Table, a interface{}, d kit.Row, fail failFn) bool {
	const uuid = "00000000-0000-4000-8000-000000000001"
	_, aRow, _ := w.RowFromModel(tb.Name, a)
	want, err := tb.ApplyUpdate2(aRow, d)
	if err != nil {
		fail("harness", "%v", err)
	}
	ops, err := kit.DecodeOps(w.S, []kit.Op{{Op: "update", Table: tb.Name, Row: d, Where: []kit.Cond{}}})
	if err != nil {
		fail("harness", "diff does not decode: %v", err)
	}
	modify := ops[0].Row
	cur := kit.DeepCopy(a)
	var mu updates.ModelUpdates
	if err := mu.AddRowUpdate2(w.DBModel, tb.Name, uuid, cur, ovsdb.RowUpdate2{Modify: &modify}); err != nil {
		fail("apply.error", "AddRowUpdate2(modify %s) failed: %v", d.Key(), err)
	}
	if !reflect.DeepEqual(cur, a) {
		fail("apply.input-modified", "applying a difference modified the model it was applied to")
	}
	var got model.Model
	_ = mu.ForEachModelUpdate(tb.Name, func(u string, old, new model.Model) error { got = new; return nil })
	same := true
	for _, c := range tb.Cols {
		same = same && kit.EqVal(want[c.Name], aRow[c.Name])
	}
	if got == nil {
		if !same {
			fail("apply.no-change", "difference %s changes a=%s into %s but no change is reported", d.Key(), aRow.Key(), want.Key())
		}
		return !same
	}
	_, grow, err := w.RowFromModel(tb.Name, got)
	if err != nil {
		fail("apply.malformed", "%v", err)
	}
	for _, c := range tb.Cols {
		if !kit.EqVal(grow[c.Name], want[c.Name]) {
			fail("apply.wrong", "column %s (%s): a=%s, peer difference %s: library gives %s, update2 rules give %s", c.Name, c.Shape(), aRow[c.Name].Key(), d[c.Name].Key(), grow[c.Name].Key(), want[c.Name].Key())
		}
	}
	return !same
}

func keysOf(r kit.Row) []string {
	var out []string
	for k := range r {
		out = append(out, k)
	}
	return out
}

func dumpUpdate(mu updates.ModelUpdates, table string) string {
	var sb strings.Builder
	_ = mu.ForEachRowUpdate(table, func(u string, r ovsdb.RowUpdate2) error {
		if r.Modify != nil {
			fmt.Fprintf(&sb, "modify %v ", *r.Modify)
		}
		return nil
	})
	return sb.String()
}

var profileC10 = kit.Profile{MinTables: 1, MaxTables: 1, MinCols: 1, MaxCols: 4, Refs: 0, Enums: true, BoundedSets: true}

func TestC10(t *testing.T) {
	rapid.Check(t, func(t *rapid.T) {
		s := kit.GenSchema(t, profileC10)
		w, err := kit.BuildWorld(s, nil)
		if err != nil {
			t.Fatalf("world: %v", err)
		}
		tb := s.Tables[0]
		pool := &kit.Pool{Big: rapid.IntRange(0, 19).Draw(t, "big") == 0}
		if pool.Big {
			kit.Label("C10", "big-mode-case")
		}
		aRow := kit.GenRow(t, tb, pool, true)
		a := w.ModelFromRow(tb.Name, kit.MkUUID(1), aRow)
		// element order of native slices is arbitrary: draw it
		for i, c := range tb.Cols {
			if c.Shape() == kit.ShSet && len(aRow[c.Name].K) > 1 {
				w.SetSliceOrder(tb.Name, a, i, rapid.Permutation(aRow[c.Name].K).Draw(t, "order"))
			}
		}
		// b: for a drawn subset of columns, either a's value, a perturbation of it, or a fresh value
		b := kit.Row{}
		overlap := false
		for _, c := range tb.Cols {
			switch rapid.IntRange(0, 4).Draw(t, "bkind") {
			case 0:
			case 1:
				b[c.Name] = aRow[c.Name].Clone()
			case 2:
				b[c.Name] = c.Default()
			case 3:
				v := aRow[c.Name].Clone()
				if c.Shape() == kit.ShSet || c.Shape() == kit.ShMap {
					if len(v.K) > 0 && rapid.Bool().Draw(t, "drop") {
						v = v.Without(v.K[rapid.IntRange(0, len(v.K)-1).Draw(t, "which")])
					}
					if rapid.Bool().Draw(t, "add") {
						if c.Shape() == kit.ShSet {
							v = v.With(kit.GenAtom(t, c.Key, pool))
						} else {
							v = v.WithPair(kit.GenAtom(t, c.Key, pool), kit.GenAtom(t, *c.Value, pool))
						}
					}
					if c.Shape() == kit.ShMap && len(v.K) > 0 && rapid.Bool().Draw(t, "chg") {
						v = v.WithPair(v.K[0], kit.GenAtom(t, *c.Value, pool))
					}
					overlap = overlap || len(v.K) > 0
					b[c.Name] = v
				} else {
					b[c.Name] = kit.GenVal(t, c, pool)
				}
			default:
				b[c.Name] = kit.GenVal(t, c, pool)
			}
		}
		kase := c10Case{Schema: s.JSON(), A: fmt.Sprintf("%+v", a), B: b}
		fail := func(class, format string, args ...interface{}) {
			kit.Fail(t, "C10", class, kase, format, args...)
		}
		changed := checkDiffPair(w, tb, a, b, fail)
		// the same for a mutate operation: 1-4 mutations, repeated columns and mutations
		// without effect included; its net effect, computed by the reference interpreter,
		// is the b of the property
		g := kit.NewTxnGen(s, kit.TxnCfg{})
		var muts []kit.Mut
		curRow := aRow.Clone()
		var lastCol *kit.Col
		for i, nm := 0, rapid.IntRange(1, 4).Draw(t, "nmutations"); i < nm; i++ {
			c := tb.Cols[rapid.IntRange(0, len(tb.Cols)-1).Draw(t, "mutcol")]
			if lastCol != nil && rapid.Bool().Draw(t, "samecol") {
				c = *lastCol
			}
			lastCol = &c
			cv := curRow[c.Name]
			m := g.GenMutation(t, c, &cv, pool)
			if nv, errk, _ := refdb.ApplyMutation(c, cv, m); errk == "" {
				curRow[c.Name] = nv
			}
			muts = append(muts, m)
		}
		mop := kit.Op{Op: "mutate", Table: tb.Name, Where: []kit.Cond{}, Mutations: muts}
		mres := refdb.Exec(s, kit.State{tb.Name: kit.Rows{kit.MkUUID(1): aRow}}, []kit.Op{mop}, nil)
		if mres.FailedAt < 0 && mres.CommitErr == "" && mres.Results[0].MayReject == "" && mres.Results[0].Count == 1 {
			post := mres.Post[tb.Name][kit.MkUUID(1)]
			mb := kit.Row{}
			repeated := false
			seenCol := map[string]bool{}
			for _, m := range muts {
				mb[m.Col] = post[m.Col]
				repeated = repeated || seenCol[m.Col]
				seenCol[m.Col] = true
			}
			kase.Mutate = string(kit.MustJSON(mop.Wire(s)))
			mchanged := checkDiffOp(w, tb, a, mop, mb, fail)
			kit.Label("C10", fmt.Sprintf("mutate:changed-columns:%d", mchanged))
			if repeated {
				kit.Label("C10", "mutate:column-mutated-more-than-once")
			}
			kase.Mutate = ""
		} else {
			kit.Label("C10", "mutate:rejected-by-model(skipped)")
		}
		// arbitrary peer difference
		d := kit.Row{}
		for _, c := range tb.Cols {
			if rapid.IntRange(0, 2).Draw(t, "dcol") == 0 {
				v := kit.GenVal(t, c, pool)
				if c.Shape() == kit.ShScalar || len(v.K) > 0 {
					d[c.Name] = v
				}
			}
		}
		kase.Diff = d
		peerChanged := false
		if len(d) > 0 {
			peerChanged = checkPeerDiff(w, tb, a, d, fail)
		}
		bDefault := false
		for name, v := range b {
			if c := tb.Col(name); c.IsDefault(v) && !c.IsDefault(aRow[name]) {
				bDefault = true
			}
		}
		kit.Record("C10", tableSig(tb)+fmt.Sprint(changed, len(b), len(d), overlap, bDefault), (changed > 0 && (overlap || bDefault)) || peerChanged,
			func() interface{} { return kase }, fmt.Sprintf("changed-columns:%d", changed))
	})
}

// TestC10Exhaustive enumerates a small universe completely: for every atomic element
// type, all pairs of ordered lists over three elements (sets), all pairs of maps over two
// keys and two values, optionals {unset,x,y}^2 and scalars {default,v,w}^2.
func TestC10Exhaustive(t *testing.T) {
	universe := map[kit.AT][]kit.Atom{
		kit.TInt:  {kit.Int(0), kit.Int(1), kit.Int(-2)},
		kit.TReal: {kit.Real(0), kit.Real(0.5), kit.Real(-1.5)},
		kit.TBool: {kit.Bool(false), kit.Bool(true)},
		kit.TStr:  {kit.Str(""), kit.Str("a"), kit.Str("b")},
		kit.TUUID: {kit.UUID(kit.MkUUID(1)), kit.UUID(kit.MkUUID(2)), kit.UUID(kit.MkUUID(3))},
	}
	var lists func(u []kit.Atom) [][]kit.Atom
	lists = func(u []kit.Atom) [][]kit.Atom {
		out := [][]kit.Atom{{}}
		var rec func(cur []kit.Atom, used []bool)
		rec = func(cur []kit.Atom, used []bool) {
			for i, a := range u {
				if used[i] {
					continue
				}
				used[i] = true
				next := append(append([]kit.Atom{}, cur...), a)
				out = append(out, next)
				rec(next, used)
				used[i] = false
			}
		}
		rec(nil, make([]bool, len(u)))
		return out
	}
	pairs := 0
	for _, at := range kit.AllAT {
		u := universe[at]
		s := kit.Schema{Name: "DB", Version: "1.0.0", Tables: []kit.Table{{Name: "T0", IsRoot: true, Cols: []kit.Col{
			{Name: "set", Key: kit.Base{T: at}, Min: 0, Max: -1},
			{Name: "opt", Key: kit.Base{T: at}, Min: 0, Max: 1},
			{Name: "atom", Key: kit.Base{T: at}, Min: 1, Max: 1},
			{Name: "mapv", Key: kit.Base{T: kit.TStr}, Value: &kit.Base{T: at}, Min: 0, Max: -1},
			{Name: "mapk", Key: kit.Base{T: at}, Value: &kit.Base{T: kit.TInt}, Min: 0, Max: -1},
		}}}}
		if at == kit.TReal || at == kit.TBool {
			// such map keys cannot be cloned through JSON by run-time models (see C13); use string keys
			s.Tables[0].Cols[4].Key = kit.Base{T: kit.TStr}
			s.Tables[0].Cols[4].Value = &kit.Base{T: at}
		}
		w, err := kit.BuildWorld(s, nil)
		if err != nil {
			t.Fatal(err)
		}
		tb := s.Tables[0]
		run := func(col int, aAtoms []kit.Atom, aVal, bVal kit.Val) {
			row := tb.FillDefaults(nil)
			row[tb.Cols[col].Name] = aVal
			a := w.ModelFromRow(tb.Name, kit.MkUUID(1), row)
			if aAtoms != nil {
				w.SetSliceOrder(tb.Name, a, col, aAtoms)
			}
			b := kit.Row{tb.Cols[col].Name: bVal}
			kase := c10Case{Schema: s.JSON(), A: fmt.Sprintf("%+v", a), B: b}
			fail := func(class, format string, args ...interface{}) {
				kit.Fail(t, "C10", class, kase, format, args...)
			}
			ch := checkDiffPair(w, tb, a, b, fail)
			// the same pair as a peer difference: apply b as a raw difference to a
			if tb.Cols[col].Shape() == kit.ShScalar || len(bVal.K) > 0 {
				kase.Diff = b
				checkPeerDiff(w, tb, a, b, fail)
			}
			pairs++
			kit.Record("C10", fmt.Sprintf("exh:%s:%d:%s:%s", at, col, aVal.Key()+fmt.Sprint(aAtoms), bVal.Key()), ch > 0, nil, "exhaustive-pair")
		}
		ls := lists(u)
		for _, la := range ls {
			for _, lb := range ls {
				run(0, la, kit.SetOf(la...), kit.SetOf(lb...))
			}
		}
		opts := []kit.Val{kit.EmptySet(), kit.Scalar(u[0]), kit.Scalar(u[len(u)-1])}
		for _, x := range opts {
			for _, y := range opts {
				run(1, nil, x, y)
			}
		}
		for _, x := range u {
			for _, y := range u {
				run(2, nil, kit.Scalar(x), kit.Scalar(y))
			}
		}
		// maps over two keys and two values
		vals := []kit.Atom{u[0], u[len(u)-1]}
		var maps []kit.Val
		choices := []int{-1, 0, 1}
		for _, c1 := range choices {
			for _, c2 := range choices {
				m := kit.EmptyMap()
				if c1 >= 0 {
					m = m.WithPair(kit.Str("k1"), vals[c1])
				}
				if c2 >= 0 {
					m = m.WithPair(kit.Str("k2"), vals[c2])
				}
				maps = append(maps, m)
			}
		}
		for _, x := range maps {
			for _, y := range maps {
				run(3, nil, x, y)
			}
		}
	}
	kit.MarkExhaustive("C10", fmt.Sprintf("enumerated %d (type, a, b) pairs completely: per element type all pairs of ordered lists over a 3-element universe, optionals {unset,x,y}^2, atoms^2, maps over 2 keys x 2 values", pairs))
}
