package props

import (
	"encoding/json"
	"fmt"
	"reflect"
	"sort"
	"strings"
	"testing"

	"github.com/ovn-org/libovsdb/ovsdb"
	"pgregory.net/rapid"

	"verif/pbt/kit"
)

// ---- generators of wire values in decoded canonical form ----
// (numbers are float64, one-element sets do not occur in untyped positions since
// RFC 7047 encodes them as the bare atom)

var wireStrings = []string{"", "a", "b", "name", "set", "map", "uuid", "named-uuid", "\"", "\\", "é日本", "a\nb", "<&>", " ", "null", "[]"}

func genWireString(t *rapid.T) string {
	if rapid.IntRange(0, 3).Draw(t, "anystr") == 0 {
		return rapid.String().Draw(t, "str")
	}
	return rapid.SampledFrom(wireStrings).Draw(t, "str")
}

func genWireUUID(t *rapid.T) ovsdb.UUID {
	switch rapid.IntRange(0, 3).Draw(t, "uuidkind") {
	case 0:
		return ovsdb.UUID{GoUUID: rapid.SampledFrom([]string{"row1", "", "my-name", "u_1", "00000000-0000-0000-0000-00000000000", "G0000000-0000-0000-0000-000000000000"}).Draw(t, "name")}
	case 1:
		return ovsdb.UUID{GoUUID: rapid.StringMatching(`[0-9a-f]{8}-[0-9a-f]{4}-[0-9a-f]{4}-[0-9a-f]{4}-[0-9a-f]{12}`).Draw(t, "uuid")}
	default:
		return ovsdb.UUID{GoUUID: kit.MkUUID(rapid.IntRange(0, 5).Draw(t, "n"))}
	}
}

// kind: 0 number, 1 string, 2 bool, 3 uuid
func genWireAtom(t *rapid.T, kind int) interface{} {
	switch kind {
	case 0:
		switch rapid.IntRange(0, 3).Draw(t, "numkind") {
		case 0:
			return float64(rapid.IntRange(-3, 3).Draw(t, "smallint"))
		case 1:
			return float64(rapid.Int64Range(-(1<<53), 1<<53).Draw(t, "int53"))
		case 2:
			f := rapid.Float64().Draw(t, "float")
			return f
		default:
			return rapid.SampledFrom([]float64{0, 0.5, -1.5, 1e300, 5e-324, 4.2e-7}).Draw(t, "float")
		}
	case 1:
		return genWireString(t)
	case 2:
		return rapid.Bool().Draw(t, "bool")
	default:
		return genWireUUID(t)
	}
}

func atomKey(a interface{}) string { return fmt.Sprintf("%T:%v", a, a) }

func genWireSet(t *rapid.T, allowSingle bool) ovsdb.OvsSet {
	kind := rapid.IntRange(0, 3).Draw(t, "setkind")
	n := rapid.SampledFrom([]int{0, 0, 1, 2, 2, 3, 5}).Draw(t, "setlen")
	if n == 1 && !allowSingle {
		n = 2
	}
	set := ovsdb.OvsSet{GoSet: make([]interface{}, 0, n)}
	seen := map[string]bool{}
	for tries := 0; len(set.GoSet) < n && tries < 20; tries++ {
		a := genWireAtom(t, kind)
		if seen[atomKey(a)] {
			continue
		}
		seen[atomKey(a)] = true
		set.GoSet = append(set.GoSet, a)
	}
	if len(set.GoSet) == 1 && !allowSingle {
		set.GoSet = set.GoSet[:0]
	}
	return set
}

func genWireMap(t *rapid.T) ovsdb.OvsMap {
	kk := rapid.IntRange(0, 3).Draw(t, "keykind")
	vk := rapid.IntRange(0, 4).Draw(t, "valkind")
	n := rapid.SampledFrom([]int{0, 1, 1, 2, 3}).Draw(t, "maplen")
	m := ovsdb.OvsMap{GoMap: make(map[interface{}]interface{}, n)}
	for tries := 0; len(m.GoMap) < n && tries < 20; tries++ {
		if vk == 4 {
			// a set of uuids nested inside the map (none, or two and more: one element is
			// written as the bare uuid)
			set := ovsdb.OvsSet{GoSet: []interface{}{}}
			seen := map[string]bool{}
			for want, tries2 := rapid.SampledFrom([]int{0, 2, 2, 3}).Draw(t, "nestedlen"), 0; len(set.GoSet) < want && tries2 < 20; tries2++ {
				u := genWireUUID(t)
				if !seen[u.GoUUID] {
					seen[u.GoUUID] = true
					set.GoSet = append(set.GoSet, u)
				}
			}
			if len(set.GoSet) == 1 {
				set.GoSet = set.GoSet[:0]
			}
			m.GoMap[genWireAtom(t, kk)] = set
			kit.Label("C12", "map:values-are-sets-of-uuids")
			continue
		}
		m.GoMap[genWireAtom(t, kk)] = genWireAtom(t, vk)
	}
	return m
}

// genWireValue draws a <value> as it appears in rows, conditions and mutations.
// Returns the value and a short signature of its shape.
func genWireValue(t *rapid.T) (interface{}, string) {
	switch rapid.IntRange(0, 5).Draw(t, "valshape") {
	case 0, 1:
		k := rapid.IntRange(0, 3).Draw(t, "atomkind")
		return genWireAtom(t, k), fmt.Sprintf("a%d", k)
	case 2, 3:
		s := genWireSet(t, false)
		return s, fmt.Sprintf("s%d", len(s.GoSet))
	default:
		m := genWireMap(t)
		return m, fmt.Sprintf("m%d", len(m.GoMap))
	}
}

var wireColumns = []string{"name", "c0", "c1", "external_ids", "_uuid", "ports", "é", ""}

func genWireRow(t *rapid.T, minCols int) (ovsdb.Row, string) {
	n := rapid.IntRange(minCols, 4).Draw(t, "rowcols")
	r := ovsdb.Row{}
	var sig []string
	for tries := 0; len(r) < n && tries < 20; tries++ {
		c := rapid.SampledFrom(wireColumns).Draw(t, "col")
		if _, ok := r[c]; ok {
			continue
		}
		v, s := genWireValue(t)
		r[c] = v
		sig = append(sig, s)
	}
	sort.Strings(sig)
	return r, strings.Join(sig, "")
}

var condFunctions = []ovsdb.ConditionFunction{"<", "<=", "==", "!=", ">", ">=", "includes", "excludes"}
var mutators = []ovsdb.Mutator{"delete", "insert", "+=", "-=", "*=", "/=", "%="}

func genWireCondition(t *rapid.T) (ovsdb.Condition, string) {
	v, s := genWireValue(t)
	f := rapid.SampledFrom(condFunctions).Draw(t, "fn")
	return ovsdb.Condition{Column: rapid.SampledFrom(wireColumns).Draw(t, "col"), Function: f, Value: v}, string(f) + s
}

func genWireMutation(t *rapid.T) (ovsdb.Mutation, string) {
	v, s := genWireValue(t)
	m := rapid.SampledFrom(mutators).Draw(t, "mutator")
	return ovsdb.Mutation{Column: rapid.SampledFrom(wireColumns).Draw(t, "col"), Mutator: m, Value: v}, string(m) + s
}

var allOps = []string{"insert", "select", "update", "mutate", "delete", "wait", "commit", "abort", "comment", "assert"}

func genWireOperation(t *rapid.T) (ovsdb.Operation, string, bool) {
	op := ovsdb.Operation{Op: rapid.SampledFrom(allOps).Draw(t, "op")}
	sig := []string{op.Op}
	optional := 0
	nested := false
	has := func(lbl string) bool {
		if rapid.Bool().Draw(t, lbl) {
			optional++
			sig = append(sig, lbl)
			return true
		}
		return false
	}
	if has("table") {
		op.Table = rapid.SampledFrom([]string{"T0", "Bridge", "é"}).Draw(t, "tablename")
	}
	if has("row") {
		var s string
		op.Row, s = genWireRow(t, 1)
		sig = append(sig, s)
		nested = nested || strings.ContainsAny(s, "sm")
	}
	if has("rows") {
		n := rapid.IntRange(1, 3).Draw(t, "nrows")
		for i := 0; i < n; i++ {
			r, s := genWireRow(t, 0)
			op.Rows = append(op.Rows, r)
			nested = nested || strings.ContainsAny(s, "sm")
		}
	}
	if has("columns") {
		op.Columns = rapid.SliceOfN(rapid.SampledFrom(wireColumns), 1, 3).Draw(t, "columns")
	}
	if has("mutations") {
		n := rapid.IntRange(1, 3).Draw(t, "nmut")
		for i := 0; i < n; i++ {
			m, s := genWireMutation(t)
			op.Mutations = append(op.Mutations, m)
			sig = append(sig, s)
			nested = nested || strings.ContainsAny(s, "sm")
		}
	}
	if has("timeout") {
		to := rapid.IntRange(0, 1000).Draw(t, "timeoutv")
		op.Timeout = &to
	}
	if has("where") {
		n := rapid.IntRange(1, 3).Draw(t, "nwhere")
		for i := 0; i < n; i++ {
			c, s := genWireCondition(t)
			op.Where = append(op.Where, c)
			sig = append(sig, s)
			nested = nested || strings.ContainsAny(s, "sm")
		}
	} else if op.Op == "select" {
		// the encoder always emits "where" for select, so the decoded form is an empty, non-nil list
		op.Where = []ovsdb.Condition{}
	}
	if has("until") {
		op.Until = rapid.SampledFrom([]string{"==", "!="}).Draw(t, "untilv")
	}
	if has("durable") {
		b := rapid.Bool().Draw(t, "durablev")
		op.Durable = &b
	}
	if has("comment") {
		s := genWireString(t)
		op.Comment = &s
	}
	if has("lock") {
		s := genWireString(t)
		op.Lock = &s
	}
	if has("uuid") {
		op.UUID = kit.MkUUID(rapid.IntRange(0, 9).Draw(t, "uuidn"))
	}
	if has("uuid-name") {
		op.UUIDName = rapid.SampledFrom([]string{"row1", "x", "é"}).Draw(t, "uuidname")
	}
	return op, strings.Join(sig, ","), optional > 0 && nested
}

func genRowPtr(t *rapid.T, lbl string) (*ovsdb.Row, string) {
	if !rapid.Bool().Draw(t, lbl) {
		return nil, ""
	}
	r, s := genWireRow(t, 0)
	return &r, lbl[:1] + s
}

func genTableUpdates(t *rapid.T) (ovsdb.TableUpdates, string) {
	tus := ovsdb.TableUpdates{}
	var sig []string
	nt := rapid.IntRange(0, 2).Draw(t, "ntables")
	for i := 0; i < nt; i++ {
		tu := ovsdb.TableUpdate{}
		nr := rapid.IntRange(0, 3).Draw(t, "nrows")
		for j := 0; j < nr; j++ {
			ru := &ovsdb.RowUpdate{}
			var s1, s2 string
			ru.New, s1 = genRowPtr(t, "new")
			ru.Old, s2 = genRowPtr(t, "old")
			tu[kit.MkUUID(j)] = ru
			sig = append(sig, s1+s2)
		}
		tus[kit.TableName(i)] = tu
	}
	return tus, strings.Join(sig, "|")
}

func genTableUpdates2(t *rapid.T) (ovsdb.TableUpdates2, string) {
	tus := ovsdb.TableUpdates2{}
	var sig []string
	nt := rapid.IntRange(0, 2).Draw(t, "ntables")
	for i := 0; i < nt; i++ {
		tu := ovsdb.TableUpdate2{}
		nr := rapid.IntRange(0, 3).Draw(t, "nrows")
		for j := 0; j < nr; j++ {
			ru := &ovsdb.RowUpdate2{}
			var s string
			switch rapid.IntRange(0, 4).Draw(t, "kind") {
			case 0:
				ru.Initial, s = genRowPtr(t, "initial")
			case 1:
				ru.Insert, s = genRowPtr(t, "insert")
			case 2:
				ru.Modify, s = genRowPtr(t, "modify")
			case 3:
				ru.Delete, s = genRowPtr(t, "delete")
			default:
				var s2 string
				ru.Insert, s = genRowPtr(t, "insert")
				ru.Modify, s2 = genRowPtr(t, "modify")
				s += s2
			}
			tu[kit.MkUUID(j)] = ru
			sig = append(sig, s)
		}
		tus[kit.TableName(i)] = tu
	}
	return tus, strings.Join(sig, "|")
}

// roundTrip encodes x, decodes into a fresh value of the same type and returns it.
func roundTrip(x interface{}) (interface{}, []byte, error) {
	b, err := json.Marshal(x)
	if err != nil {
		return nil, nil, fmt.Errorf("encode: %w", err)
	}
	p := reflect.New(reflect.TypeOf(x))
	if err := json.Unmarshal(b, p.Interface()); err != nil {
		return nil, b, fmt.Errorf("decode of %s: %w", b, err)
	}
	return p.Elem().Interface(), b, nil
}

type c12Case struct {
	Type string      `json:"type"`
	JSON string      `json:"json"`
	Go   string      `json:"go"`
	Sig  string      `json:"sig,omitempty"`
	Aux  interface{} `json:"aux,omitempty"`
}

func checkRoundTrip(t *rapid.T, typ string, x interface{}, sig string, nontrivial bool) {
	// sometimes a structurally corrupted encoding of the value is decoded first (accepted or
	// rejected, it does not matter): what a decoder did before must not show in the next value
	if rapid.IntRange(0, 3).Draw(t, "aftercorrupted") == 0 {
		if enc, err := json.Marshal(x); err == nil {
			bad, _ := kit.CorruptJSON(t, enc, 2, nil)
			p := reflect.New(reflect.TypeOf(x))
			func() {
				defer func() { _ = recover() }() // panics are C19's business
				if json.Unmarshal(bad, p.Interface()) != nil {
					kit.Label("C12", "decoded-after-a-rejected-encoding")
				}
			}()
		}
	}
	y, b, err := roundTrip(x)
	kase := c12Case{Type: typ, JSON: string(b), Go: fmt.Sprintf("%#v", x), Sig: sig}
	if err != nil {
		kit.Fail(t, "C12", "roundtrip."+typ+".error", kase, "%s: %v", typ, err)
	}
	if !reflect.DeepEqual(x, y) {
		kit.Fail(t, "C12", "roundtrip."+typ, kase, "%s does not round-trip:\n in: %#v\nout: %#v\nvia: %s", typ, x, y, b)
	}
	kit.Record("C12", typ+":"+sig, nontrivial, func() interface{} { return kase }, "type:"+typ)
}

func hasNested(sig string) bool { return strings.ContainsAny(sig, "sm") }

func TestC12(t *testing.T) {
	rapid.Check(t, func(t *rapid.T) {
		switch rapid.IntRange(0, 15).Draw(t, "wiretype") {
		case 0:
			u := genWireUUID(t)
			checkRoundTrip(t, "UUID", u, fmt.Sprint(ovsdb.IsValidUUID(u.GoUUID)), false)
		case 1:
			s := genWireSet(t, true)
			checkRoundTrip(t, "OvsSet", s, fmt.Sprintf("%d:%T", len(s.GoSet), first(s.GoSet)), len(s.GoSet) > 1)
		case 2:
			m := genWireMap(t)
			sig := fmt.Sprintf("%d", len(m.GoMap))
			for k, v := range m.GoMap {
				sig += fmt.Sprintf(":%T%T", k, v)
				break
			}
			checkRoundTrip(t, "OvsMap", m, sig, len(m.GoMap) > 0)
		case 3:
			r, sig := genWireRow(t, 0)
			checkRoundTrip(t, "Row", r, sig, hasNested(sig))
		case 4:
			c, sig := genWireCondition(t)
			checkRoundTrip(t, "Condition", c, sig, hasNested(sig))
		case 5:
			m, sig := genWireMutation(t)
			checkRoundTrip(t, "Mutation", m, sig, hasNested(sig))
		case 6, 7, 8:
			op, sig, nt := genWireOperation(t)
			checkRoundTrip(t, "Operation", op, sig, nt)
		case 9:
			tu, sig := genTableUpdates(t)
			checkRoundTrip(t, "TableUpdates", tu, sig, hasNested(sig))
		case 10:
			tu, sig := genTableUpdates2(t)
			checkRoundTrip(t, "TableUpdates2", tu, sig, hasNested(sig))
		case 11:
			tu, sig := genTableUpdates2(t)
			r := ovsdb.MonitorCondSinceReply{
				Found:             rapid.Bool().Draw(t, "found"),
				LastTransactionID: rapid.SampledFrom([]string{"", kit.ZeroUUID, kit.MkUUID(7)}).Draw(t, "txnid"),
				Updates:           tu,
			}
			checkRoundTrip(t, "MonitorCondSinceReply", r, sig, hasNested(sig))
		case 12:
			checkMonitorRequest(t)
		case 13:
			checkOperationResult(t)
		default:
			checkSchemaRoundTrip(t)
		}
	})
}

func first(s []interface{}) interface{} {
	if len(s) == 0 {
		return nil
	}
	return s[0]
}

func checkMonitorRequest(t *rapid.T) {
	// MonitorSelect has only unexported fields: values with absent flags can only be
	// produced by decoding, so start from JSON text.
	flags := map[string]*bool{}
	sel := map[string]interface{}{}
	present := 0
	for _, f := range []string{"initial", "insert", "delete", "modify"} {
		switch rapid.IntRange(0, 2).Draw(t, f) {
		case 0:
			flags[f] = nil
		case 1:
			v := true
			flags[f] = &v
			sel[f] = true
			present++
		default:
			v := false
			flags[f] = &v
			sel[f] = false
			present++
		}
	}
	req := map[string]interface{}{}
	sig := ""
	if rapid.Bool().Draw(t, "select?") {
		req["select"] = sel
		sig += fmt.Sprintf("sel%d", present)
	}
	var cols []string
	if rapid.Bool().Draw(t, "columns?") {
		cols = rapid.SliceOfN(rapid.SampledFrom(wireColumns), 1, 3).Draw(t, "columns")
		req["columns"] = cols
		sig += "cols"
	}
	var where []ovsdb.Condition
	if rapid.Bool().Draw(t, "where?") {
		c, s := genWireCondition(t)
		where = []ovsdb.Condition{c}
		req["where"] = where
		sig += "w" + s
	}
	text := kit.MustJSON(req)
	kase := c12Case{Type: "MonitorRequest", JSON: string(text), Sig: sig}
	var x ovsdb.MonitorRequest
	if err := json.Unmarshal(text, &x); err != nil {
		kit.Fail(t, "C12", "roundtrip.MonitorRequest.error", kase, "decode %s: %v", text, err)
	}
	def := func(p *bool) bool { return p == nil || *p }
	if _, ok := req["select"]; ok {
		if x.Select == nil {
			kit.Fail(t, "C12", "roundtrip.MonitorRequest", kase, "select lost decoding %s", text)
		}
		got := [4]bool{x.Select.Initial(), x.Select.Insert(), x.Select.Delete(), x.Select.Modify()}
		want := [4]bool{def(flags["initial"]), def(flags["insert"]), def(flags["delete"]), def(flags["modify"])}
		if got != want {
			kit.Fail(t, "C12", "roundtrip.MonitorRequest", kase, "select flags of %s decoded as %v, want %v", text, got, want)
		}
	} else if x.Select != nil {
		kit.Fail(t, "C12", "roundtrip.MonitorRequest", kase, "select invented decoding %s", text)
	}
	if !reflect.DeepEqual(x.Columns, cols) || !reflect.DeepEqual(x.Where, where) {
		kit.Fail(t, "C12", "roundtrip.MonitorRequest", kase, "columns/where of %s decoded as %#v", text, x)
	}
	y, b, err := roundTrip(x)
	if err != nil {
		kit.Fail(t, "C12", "roundtrip.MonitorRequest.error", kase, "%v", err)
	}
	if !reflect.DeepEqual(x, y) {
		kit.Fail(t, "C12", "roundtrip.MonitorRequest", kase, "MonitorRequest does not round-trip: %#v vs %#v via %s", x, y, b)
	}
	// a MonitorRequests wrapper too
	ms := ovsdb.MonitorRequests{Requests: map[string]ovsdb.MonitorRequest{"T0": x}}
	y2, b2, err := roundTrip(ms)
	if err != nil || !reflect.DeepEqual(ms, y2) {
		kit.Fail(t, "C12", "roundtrip.MonitorRequests", kase, "MonitorRequests does not round-trip via %s: %v", b2, err)
	}
	if x.Select != nil && present == 4 {
		n := ovsdb.NewMonitorSelect(*flags["initial"], *flags["insert"], *flags["delete"], *flags["modify"])
		if !reflect.DeepEqual(n, x.Select) {
			kit.Fail(t, "C12", "roundtrip.MonitorSelect", kase, "NewMonitorSelect differs from decoded %s", text)
		}
	}
	kit.Record("C12", "MonitorRequest:"+sig, present > 0 && present < 4, func() interface{} { return kase }, "type:MonitorRequest")
}

func checkOperationResult(t *rapid.T) {
	if rapid.Bool().Draw(t, "plain") {
		r := ovsdb.OperationResult{}
		sig := ""
		if rapid.Bool().Draw(t, "count?") {
			r.Count = rapid.IntRange(0, 5).Draw(t, "count")
			sig += "c"
		}
		if rapid.Bool().Draw(t, "uuid?") {
			r.UUID = genWireUUID(t)
			sig += "u"
		}
		if rapid.Bool().Draw(t, "rows?") {
			n := rapid.IntRange(1, 3).Draw(t, "nrows")
			for i := 0; i < n; i++ {
				row, s := genWireRow(t, 0)
				r.Rows = append(r.Rows, row)
				sig += "r" + s
			}
		}
		if rapid.Bool().Draw(t, "error?") {
			r.Error = rapid.SampledFrom([]string{"constraint violation", "timed out", "weird"}).Draw(t, "error")
			r.Details = genWireString(t)
			sig += "e"
		}
		checkRoundTrip(t, "OperationResult", r, sig, hasNested(sig))
		tr := ovsdb.TransactResponse{Result: []ovsdb.OperationResult{r}, Error: r.Error}
		checkRoundTrip(t, "TransactResponse", tr, sig, hasNested(sig))
		return
	}
	// the other direction: an error result as a peer sends it (RFC 7047 error strings) ->
	// Go error -> result must give the result back
	if rapid.Bool().Draw(t, "fromwire") {
		name := rapid.SampledFrom(rfcErrorStrings).Draw(t, "rfcerror")
		r := ovsdb.OperationResult{Error: name, Details: genWireString(t)}
		kase := c12Case{Type: "error-result", Go: fmt.Sprintf("%+v", r)}
		y, b, err := roundTrip(r)
		kase.JSON = string(b)
		if err != nil {
			kit.Fail(t, "C12", "roundtrip.error", kase, "error result does not round-trip: %v", err)
		}
		op := ovsdb.Operation{Op: "insert", Table: "T0"}
		opErrs, terr := ovsdb.CheckOperationResults([]ovsdb.OperationResult{y.(ovsdb.OperationResult)}, []ovsdb.Operation{op})
		if terr == nil || len(opErrs) != 1 {
			kit.Fail(t, "C12", "roundtrip.error", kase, "CheckOperationResults reports %d errors for %s", len(opErrs), b)
		}
		if _, generic := opErrs[0].(*ovsdb.Error); generic {
			kit.Fail(t, "C12", "roundtrip.error", kase, "the RFC 7047 error %q is not recognised (%T)", name, opErrs[0])
		}
		again := ovsdb.ResultFromError(opErrs[0])
		if again.Error != r.Error || again.Details != r.Details {
			kit.Fail(t, "C12", "roundtrip.error", kase, "error result %q/%q became %q/%q after result -> error -> result", r.Error, r.Details, again.Error, again.Details)
		}
		kit.Record("C12", "error-result:"+name, true, func() interface{} { return kase }, "type:error-result")
		return
	}
	// errors: Go error -> result -> wire -> result -> Go error of the same kind
	details := genWireString(t)
	errs := []error{
		ovsdb.NewReferentialIntegrityViolation(details),
		ovsdb.NewConstraintViolation(details),
		&ovsdb.ResourcesExhausted{}, &ovsdb.IOError{}, &ovsdb.DuplicateUUIDName{}, &ovsdb.DomainError{},
		&ovsdb.RangeError{}, &ovsdb.TimedOut{}, &ovsdb.NotSupported{}, &ovsdb.Aborted{}, &ovsdb.NotOwner{},
		fmt.Errorf("some other error %s", details),
	}
	i := rapid.IntRange(0, len(errs)-1).Draw(t, "errkind")
	e := errs[i]
	res := ovsdb.ResultFromError(e)
	kase := c12Case{Type: "error", Go: fmt.Sprintf("%T %v", e, e)}
	y, b, err := roundTrip(res)
	kase.JSON = string(b)
	if err != nil || !reflect.DeepEqual(res, y) {
		kit.Fail(t, "C12", "roundtrip.error", kase, "error result %#v does not round-trip via %s: %v", res, b, err)
	}
	atCommit := rapid.Bool().Draw(t, "atCommit")
	op := ovsdb.Operation{Op: "insert", Table: "T0"}
	var opErrs []ovsdb.OperationError
	var terr error
	if atCommit {
		opErrs, terr = ovsdb.CheckOperationResults([]ovsdb.OperationResult{{}, y.(ovsdb.OperationResult)}, []ovsdb.Operation{op})
	} else {
		opErrs, terr = ovsdb.CheckOperationResults([]ovsdb.OperationResult{y.(ovsdb.OperationResult)}, []ovsdb.Operation{op})
	}
	if terr == nil {
		kit.Fail(t, "C12", "roundtrip.error", kase, "CheckOperationResults reports success for %s", b)
	}
	var back error
	if atCommit {
		back = terr
		if len(opErrs) != 0 {
			kit.Fail(t, "C12", "roundtrip.error", kase, "commit error reported as operation error")
		}
	} else {
		if len(opErrs) != 1 {
			kit.Fail(t, "C12", "roundtrip.error", kase, "want 1 operation error, got %d", len(opErrs))
		}
		back = opErrs[0]
	}
	if i < len(errs)-1 {
		if reflect.TypeOf(back) != reflect.TypeOf(e) {
			kit.Fail(t, "C12", "roundtrip.error", kase, "error %T came back as %T", e, back)
		}
		if i < 2 && !strings.Contains(back.Error(), details) {
			kit.Fail(t, "C12", "roundtrip.error", kase, "details %q lost: %v", details, back)
		}
	} else if _, ok := back.(*ovsdb.Error); !ok {
		kit.Fail(t, "C12", "roundtrip.error", kase, "generic error came back as %T", back)
	}
	kit.Record("C12", fmt.Sprintf("error:%d:%v", i, atCommit), true, func() interface{} { return kase }, "type:error")
}

// rfcErrorStrings are the error strings of RFC 7047 (4.1.3, 5.1, 5.2) that libovsdb spells
// the same way ("duplicate uuid-name" is spelt "duplicate uuid name" by libovsdb and is
// left out: observation in DESIGN.md, not part of this property).
var rfcErrorStrings = []string{"referential integrity violation", "constraint violation", "resources exhausted", "I/O error",
	"domain error", "range error", "timed out", "not supported", "aborted", "not owner"}

// ---- schemas ----

func canonJSON(b []byte) string {
	var x interface{}
	if err := json.Unmarshal(b, &x); err != nil {
		return "invalid json: " + err.Error()
	}
	return string(kit.MustJSON(x))
}

// compareSchema checks a decoded libovsdb schema against the harness description
// through the exported accessors only.
func compareSchema(s kit.Schema, ds ovsdb.DatabaseSchema) []string {
	var diffs []string
	add := func(format string, args ...interface{}) { diffs = append(diffs, fmt.Sprintf(format, args...)) }
	if ds.Name != s.Name || ds.Version != s.Version {
		add("name/version %q/%q", ds.Name, ds.Version)
	}
	if len(ds.Tables) != len(s.Tables) {
		add("%d tables, want %d", len(ds.Tables), len(s.Tables))
	}
	for _, tb := range s.Tables {
		dt := ds.Table(tb.Name)
		if dt == nil {
			add("table %s missing", tb.Name)
			continue
		}
		if dt.IsRoot != tb.IsRoot {
			add("table %s isRoot %v", tb.Name, dt.IsRoot)
		}
		root, err := ds.IsRoot(tb.Name)
		if err != nil || root != s.IsRoot(tb.Name) {
			add("table %s IsRoot() %v %v, want %v", tb.Name, root, err, s.IsRoot(tb.Name))
		}
		if !(len(dt.Indexes) == 0 && len(tb.Indexes) == 0) && !reflect.DeepEqual(dt.Indexes, tb.Indexes) {
			add("table %s indexes %v, want %v", tb.Name, dt.Indexes, tb.Indexes)
		}
		if len(dt.Columns) != len(tb.Cols) {
			add("table %s: %d columns, want %d", tb.Name, len(dt.Columns), len(tb.Cols))
		}
		for _, c := range tb.Cols {
			dc := dt.Column(c.Name)
			if dc == nil || dc.TypeObj == nil || dc.TypeObj.Key == nil {
				add("%s.%s missing or untyped", tb.Name, c.Name)
				continue
			}
			where := tb.Name + "." + c.Name
			wantType := c.Key.T.String()
			switch {
			case c.Shape() == kit.ShMap:
				wantType = ovsdb.TypeMap
			case c.Shape() != kit.ShScalar:
				wantType = ovsdb.TypeSet
			case len(c.Key.Enum) > 0:
				wantType = ovsdb.TypeEnum
			}
			if dc.Type != wantType {
				add("%s: extended type %s, want %s", where, dc.Type, wantType)
			}
			if dc.TypeObj.Min() != c.Min {
				add("%s: min %d, want %d", where, dc.TypeObj.Min(), c.Min)
			}
			wantMax := c.Max
			if wantMax < 0 {
				wantMax = ovsdb.Unlimited
			}
			if dc.TypeObj.Max() != wantMax {
				add("%s: max %d, want %d", where, dc.TypeObj.Max(), wantMax)
			}
			if dc.Mutable() != !c.Immutable {
				add("%s: mutable %v", where, dc.Mutable())
			}
			if dc.Ephemeral() != c.Ephemeral {
				add("%s: ephemeral %v", where, dc.Ephemeral())
			}
			if ovsdb.NativeType(dc) != c.GoType() {
				add("%s: native type %s, want %s", where, ovsdb.NativeType(dc), c.GoType())
			}
			diffs = append(diffs, compareBase(where+".key", c.Key, dc.TypeObj.Key)...)
			if (c.Value != nil) != (dc.TypeObj.Value != nil) {
				add("%s: value base presence differs", where)
			} else if c.Value != nil {
				diffs = append(diffs, compareBase(where+".value", *c.Value, dc.TypeObj.Value)...)
			}
		}
	}
	return diffs
}

func compareBase(where string, b kit.Base, db *ovsdb.BaseType) []string {
	var diffs []string
	add := func(format string, args ...interface{}) {
		diffs = append(diffs, where+": "+fmt.Sprintf(format, args...))
	}
	if db.Type != b.T.String() {
		add("type %s, want %s", db.Type, b.T)
	}
	if len(db.Enum) != len(b.Enum) {
		add("enum %v, want %v", db.Enum, b.Enum)
	} else {
		for i, e := range b.Enum {
			var want interface{}
			switch e.T {
			case kit.TInt:
				want = float64(e.I)
			case kit.TReal:
				want = e.R
			case kit.TBool:
				want = e.B
			default:
				want = e.S
			}
			if db.Enum[i] != want {
				add("enum[%d] %#v, want %#v", i, db.Enum[i], want)
			}
		}
	}
	switch b.T {
	case kit.TInt:
		if v, err := db.MinInteger(); b.MinInteger != nil && (err != nil || int64(v) != *b.MinInteger) {
			add("minInteger %d %v, want %d", v, err, *b.MinInteger)
		} else if b.MinInteger == nil && (err != nil || v != -1<<63) {
			add("default minInteger %d %v", v, err)
		}
		if v, err := db.MaxInteger(); b.MaxInteger != nil && (err != nil || int64(v) != *b.MaxInteger) {
			add("maxInteger %d %v, want %d", v, err, *b.MaxInteger)
		} else if b.MaxInteger == nil && (err != nil || v != 1<<63-1) {
			add("default maxInteger %d %v", v, err)
		}
	case kit.TReal:
		if v, err := db.MinReal(); b.MinReal != nil && (err != nil || v != *b.MinReal) {
			add("minReal %v %v, want %v", v, err, *b.MinReal)
		}
		if v, err := db.MaxReal(); b.MaxReal != nil && (err != nil || v != *b.MaxReal) {
			add("maxReal %v %v, want %v", v, err, *b.MaxReal)
		}
	case kit.TStr:
		if v, err := db.MinLength(); b.MinLength != nil && (err != nil || int64(v) != *b.MinLength) {
			add("minLength %d %v, want %d", v, err, *b.MinLength)
		} else if b.MinLength == nil && (err != nil || v != 0) {
			add("default minLength %d %v, want 0", v, err)
		}
		if v, err := db.MaxLength(); b.MaxLength != nil && (err != nil || int64(v) != *b.MaxLength) {
			add("maxLength %d %v, want %d", v, err, *b.MaxLength)
		} else if b.MaxLength == nil && (err != nil || v != 1<<63-1) {
			add("default maxLength %d %v", v, err)
		}
	case kit.TUUID:
		wantTable, wantType := "", ovsdb.Strong
		if b.Ref != nil {
			wantTable = b.Ref.Table
			if b.Ref.Weak {
				wantType = ovsdb.Weak
			}
		}
		if v, err := db.RefTable(); err != nil || v != wantTable {
			add("refTable %q %v, want %q", v, err, wantTable)
		}
		if v, err := db.RefType(); err != nil || v != wantType {
			add("refType %q %v, want %q", v, err, wantType)
		}
	}
	return diffs
}

func schemaNonTrivial(s kit.Schema) bool {
	for _, tb := range s.Tables {
		for _, c := range tb.Cols {
			for _, b := range []*kit.Base{&c.Key, c.Value} {
				if b == nil {
					continue
				}
				if b.MinInteger != nil || b.MaxInteger != nil || b.MinReal != nil || b.MaxReal != nil || b.MinLength != nil || b.MaxLength != nil {
					return true
				}
			}
		}
	}
	return false
}

func schemaSig(s kit.Schema) string {
	var parts []string
	for _, tb := range s.Tables {
		for _, c := range tb.Cols {
			p := fmt.Sprintf("%s%d.%d%s", c.Shape(), c.Min, c.Max, c.Key.T)
			if c.Value != nil {
				p += c.Value.T.String()
			}
			if len(c.Key.Enum) > 0 {
				p += "E"
			}
			if c.Key.Ref != nil {
				p += "R"
			}
			for _, b := range []*kit.Base{&c.Key, c.Value} {
				if b != nil {
					p += fmt.Sprint(b.MinInteger != nil, b.MaxInteger != nil, b.MinReal != nil, b.MaxReal != nil, b.MinLength != nil, b.MaxLength != nil)
				}
			}
			parts = append(parts, p)
		}
		parts = append(parts, fmt.Sprint(tb.IsRoot, len(tb.Indexes)))
	}
	return strings.Join(parts, ";")
}

func checkSchemaRoundTrip(t *rapid.T) {
	p := kit.ProfileCodec
	p.FancyNames = rapid.Bool().Draw(t, "fancy")
	p.WideBounds, p.MapEnums = true, true
	s := kit.GenSchema(t, p)
	for i := range s.Tables {
		for j := range s.Tables[i].Cols {
			s.Tables[i].Cols[j].Verbose = rapid.IntRange(0, 3).Draw(t, "verbose") == 0
		}
	}
	text := s.JSON()
	kase := map[string]interface{}{"type": "DatabaseSchema", "schema": json.RawMessage(text)}
	var ds1 ovsdb.DatabaseSchema
	if err := json.Unmarshal(text, &ds1); err != nil {
		kit.Fail(t, "C12", "schema.decode", kase, "schema does not decode: %v\n%s", err, text)
	}
	if d := compareSchema(s, ds1); len(d) > 0 {
		kit.Fail(t, "C12", "schema.decode", kase, "decoded schema differs from its text:\n%s\n%s", strings.Join(d, "\n"), text)
	}
	text2, err := json.Marshal(ds1)
	if err != nil {
		kit.Fail(t, "C12", "schema.encode", kase, "schema does not encode: %v", err)
	}
	var ds2 ovsdb.DatabaseSchema
	if err := json.Unmarshal(text2, &ds2); err != nil {
		kit.Fail(t, "C12", "schema.reencode", kase, "re-encoded schema does not decode: %v\n%s", err, text2)
	}
	if d := compareSchema(s, ds2); len(d) > 0 {
		kit.Fail(t, "C12", "schema.reencode", kase, "schema changed through encode/decode:\n%s\nfirst: %s\nsecond: %s", strings.Join(d, "\n"), text, text2)
	}
	text3, err := json.Marshal(ds2)
	if err != nil || canonJSON(text2) != canonJSON(text3) {
		kit.Fail(t, "C12", "schema.reencode", kase, "encoding is not stable: %v\n%s\n%s", err, text2, text3)
	}
	kit.Record("C12", "schema:"+schemaSig(s), schemaNonTrivial(s), func() interface{} { return kase }, "type:DatabaseSchema")
}
