package props

import (
	"context"
	"encoding/json"
	"fmt"
	"os"
	"runtime"
	"strconv"
	"strings"
	"sync"
	"sync/atomic"
	"testing"
	"time"

	"github.com/cenkalti/backoff/v4"
	"github.com/ovn-org/libovsdb/client"
	"github.com/ovn-org/libovsdb/model"
	"github.com/ovn-org/libovsdb/ovsdb"
	"github.com/ovn-org/libovsdb/ovsdb/serverdb"
	"pgregory.net/rapid"

	"verif/pbt/kit"
)

const c16Schema = `{"name":"DB","version":"1.0.0","tables":{
 "T0":{"isRoot":true,"columns":{"marker":{"type":"string"},"n":{"type":"integer"},"tags":{"type":{"key":"string","min":0,"max":"unlimited"}}}},
 "T1":{"isRoot":true,"columns":{"name":{"type":"string"},"peer":{"type":{"key":{"type":"uuid","refTable":"T0","refType":"weak"},"min":0,"max":1}},"kv":{"type":{"key":"string","value":"string","min":0,"max":"unlimited"}}}},
 "T2":{"isRoot":true,"columns":{"v":{"type":"real"}}}}}`

// c16Scenario is a session script; one action at a time, so the fault-free message
// sequence is the same in every run up to the cut.
type c16Scenario struct {
	Monitors   []monSpec `json:"monitors"`
	Steps      []string  `json:"steps"` // monitor:<i> own foreign-insert foreign-delete foreign-update echo
	Inactivity bool      `json:"inactivityProbe,omitempty"`
	// the client is given WithInactivityCheck and then WithReconnect (same timeout and
	// back-off): both say "reconnect", the second one says nothing about the probe
	ThenReconnectOption bool `json:"thenReconnectOption,omitempty"`
	// the options reach the client through SetOption before the first Connect instead of
	// through the constructor
	ViaSetOption bool `json:"viaSetOption,omitempty"`
}

type c16Outcome struct {
	Counts      [2]int
	Established []bool
	OwnOK       []string // markers of own transactions that returned results
	OwnErr      []string // markers of own transactions that returned an error
	Problems    []string
	Class       string
	Reconnects  int
}

func fixedC16Scenario() c16Scenario {
	return c16Scenario{
		Monitors: []monSpec{
			{Method: ovsdb.ConditionalMonitorSinceRPC, Tables: map[string][]string{"T0": nil}},
			{Method: ovsdb.ConditionalMonitorRPC, Tables: map[string][]string{"T1": nil, "T2": nil}},
		},
		Steps: []string{"foreign-insert", "monitor:0", "own-invalid", "own", "monitor:1", "foreign-insert", "cancel-failed", "own", "foreign-delete", "echo", "foreign-update", "own", "foreign-insert"},
	}
}

func genC16Scenario(t *rapid.T) c16Scenario {
	sc := c16Scenario{}
	methods := []string{ovsdb.MonitorRPC, ovsdb.ConditionalMonitorRPC, ovsdb.ConditionalMonitorSinceRPC}
	switch rapid.IntRange(0, 2).Draw(t, "monlayout") {
	case 0:
		sc.Monitors = []monSpec{{Method: rapid.SampledFrom(methods).Draw(t, "m0"), Tables: map[string][]string{"T0": nil, "T1": nil, "T2": nil}}}
	case 1:
		sc.Monitors = []monSpec{{Method: rapid.SampledFrom(methods).Draw(t, "m0"), Tables: map[string][]string{"T0": nil}},
			{Method: rapid.SampledFrom(methods).Draw(t, "m1"), Tables: map[string][]string{"T1": nil, "T2": nil}}}
	default:
		sc.Monitors = []monSpec{{Method: rapid.SampledFrom(methods).Draw(t, "m0"), Tables: map[string][]string{"T1": nil}},
			{Method: rapid.SampledFrom(methods).Draw(t, "m1"), Tables: map[string][]string{"T0": nil}},
			{Method: rapid.SampledFrom(methods).Draw(t, "m2"), Tables: map[string][]string{"T2": nil}}}
	}
	n := rapid.IntRange(4, 10).Draw(t, "nsteps")
	pendingMon := len(sc.Monitors)
	next := 0
	for i := 0; i < n || next < pendingMon; i++ {
		if next < pendingMon && (i >= n || rapid.IntRange(0, 2).Draw(t, "monnow") == 0) {
			sc.Steps = append(sc.Steps, fmt.Sprintf("monitor:%d", next))
			next++
			continue
		}
		sc.Steps = append(sc.Steps, rapid.SampledFrom([]string{"own", "own", "own-invalid", "foreign-insert", "foreign-insert", "foreign-delete", "foreign-update", "echo", "cancel-failed"}).Draw(t, "step"))
	}
	return sc
}

// runC16 runs a scenario under a fault plan and evaluates the oracle. A scenario takes a
// second or two (at most about a minute when the client needs the whole allowance to come
// back). If it has not finished after 200 s and goroutines are parked on locks or channels
// inside libovsdb/client, the client is wedged: it will never re-establish anything, which is
// reported as such (with the parked goroutines) instead of being left to the driver's
// watchdog.
func runC16(w *kit.World, sc c16Scenario, faults []kit.Fault) c16Outcome {
	done := make(chan c16Outcome, 1)
	go func() { done <- runC16Unguarded(w, sc, faults) }()
	for {
		select {
		case out := <-done:
			return out
		case <-time.After(200 * time.Second):
			buf := make([]byte, 1<<20)
			buf = buf[:runtime.Stack(buf, true)]
			blocked := wedgedInClient(string(buf))
			if blocked == "" {
				// slow, not wedged: go on waiting (the driver's watchdog bounds this)
				continue
			}
			out := c16Outcome{Established: make([]bool, len(sc.Monitors))}
			out.Class = "reconnect.wedged"
			out.Problems = []string{"200 s after the scenario started it has not finished: calls on the client do not return, goroutines are parked inside the client:\n" + blocked}
			return out
		}
	}
}

// wedgedInClient returns the goroutines of a stack dump that have been waiting for a mutex
// for minutes inside libovsdb/client (no lock of the client is legitimately held that long:
// the longest holder is one connection attempt, bounded by the client's timeout of seconds).
func wedgedInClient(stacks string) string {
	var out []string
	for _, g := range strings.Split(stacks, "\n\n") {
		head := g
		if i := strings.Index(g, "\n"); i >= 0 {
			head = g[:i]
		}
		if !strings.Contains(head, "minutes]") || !(strings.Contains(head, "Mutex") || strings.Contains(head, "semacquire")) {
			continue
		}
		if !strings.Contains(g, "libovsdb/client.") {
			continue
		}
		lines := strings.Split(g, "\n")
		if len(lines) > 12 {
			lines = lines[:12]
		}
		out = append(out, strings.Join(lines, "\n"))
	}
	if len(out) > 4 {
		out = out[:4]
	}
	return strings.Join(out, "\n\n")
}

func runC16Unguarded(w *kit.World, sc c16Scenario, faults []kit.Fault) c16Outcome {
	out := c16Outcome{Established: make([]bool, len(sc.Monitors))}
	problem := func(class, format string, args ...interface{}) {
		if out.Class == "" {
			out.Class = class
		}
		out.Problems = append(out.Problems, fmt.Sprintf(format, args...))
	}
	srv, err := kit.StartServer(w)
	if err != nil {
		problem("harness", "server: %v", err)
		return out
	}
	defer srv.Close()
	px, err := kit.StartProxy(srv.Sock)
	if err != nil {
		problem("harness", "proxy: %v", err)
		return out
	}
	defer px.Close()
	px.SetFaults(faults...)
	direct, err := kit.NewClient(w, srv.Endpoint())
	if err != nil {
		problem("harness", "%v", err)
		return out
	}
	bg := context.Background()
	if err := direct.Connect(bg); err != nil {
		problem("harness", "direct connect: %v", err)
		return out
	}
	defer direct.Close()
	opts := []client.Option{client.WithReconnect(2*time.Second, backoff.NewConstantBackOff(3*time.Millisecond))}
	if sc.Inactivity {
		opts = []client.Option{client.WithInactivityCheck(60*time.Millisecond, 2*time.Second, backoff.NewConstantBackOff(3*time.Millisecond))}
		if sc.ThenReconnectOption {
			opts = append(opts, client.WithReconnect(2*time.Second, backoff.NewConstantBackOff(3*time.Millisecond)))
		}
	}
	ctorOpts := opts
	if sc.ViaSetOption {
		ctorOpts = nil
	}
	c, err := kit.NewClient(w, px.Endpoint(), ctorOpts...)
	if err != nil {
		problem("harness", "%v", err)
		return out
	}
	defer c.Close()
	if sc.ViaSetOption {
		for _, opt := range opts {
			if err := c.SetOption(opt); err != nil {
				problem("reconnect.setoption", "SetOption on a client that never connected: %v", err)
				return out
			}
		}
	}
	// with a stalled (silent) connection calls end when their context does: keep those short
	callTimeout := 15 * time.Second
	if sc.Inactivity {
		callTimeout = 1200 * time.Millisecond
	}
	connect := func() bool {
		for tries := 0; tries < 20; tries++ {
			ctx, cancel := context.WithTimeout(bg, callTimeout)
			err := c.Connect(ctx)
			cancel()
			if err == nil {
				return true
			}
			time.Sleep(2 * time.Millisecond)
		}
		return false
	}
	if !connect() {
		problem("reconnect.never", "the client could not connect through a proxy whose fault plan is exhausted")
		return out
	}
	foreignRows := []string{}
	fresh := 0
	ownN := 0
	directTxn := func(ops ...kit.Op) bool {
		ctx, cancel := context.WithTimeout(bg, 15*time.Second)
		defer cancel()
		res, err := kit.TransactOps(ctx, w, direct, ops)
		if err != nil {
			problem("harness.direct", "direct transaction failed: %v", err)
			return false
		}
		for _, r := range res {
			if r.Error != "" {
				problem("harness.direct", "direct transaction failed: %s %s", r.Error, r.Details)
				return false
			}
		}
		return true
	}
	cookies := make([]client.MonitorCookie, len(sc.Monitors))
	for _, step := range sc.Steps {
		switch {
		case strings.HasPrefix(step, "monitor:"):
			i, _ := strconv.Atoi(strings.TrimPrefix(step, "monitor:"))
			if !c.Connected() {
				// a user would wait for the connection before setting up a monitor
				waitConnected(c, 20*time.Second)
			}
			mon := buildMonitor(w, c, sc.Monitors[i])
			ctx, cancel := context.WithTimeout(bg, callTimeout)
			cookie, err := c.Monitor(ctx, mon)
			cancel()
			out.Established[i] = err == nil
			cookies[i] = cookie
		case step == "cancel-failed":
			// the cancellation of a monitor that does not succeed (this server does not implement
			// it, or the connection is lost meanwhile): the monitor is still one of the client's
			for i := range sc.Monitors {
				if !out.Established[i] {
					continue
				}
				ctx, cancel := context.WithTimeout(bg, callTimeout)
				err := c.MonitorCancel(ctx, cookies[i])
				cancel()
				if err == nil {
					out.Established[i] = false
				}
				break
			}
		case step == "own":
			ownN++
			marker := fmt.Sprintf("own-%d", ownN)
			ctx, cancel := context.WithTimeout(bg, callTimeout)
			res, err := kit.TransactOps(ctx, w, c, []kit.Op{{Op: "insert", Table: "T0", Row: kit.Row{"marker": kit.Scalar(kit.Str(marker)), "n": kit.Scalar(kit.Int(int64(ownN)))}}})
			cancel()
			ok := err == nil
			for _, r := range res {
				if r.Error != "" {
					ok = false
				}
			}
			if ok {
				out.OwnOK = append(out.OwnOK, marker)
			} else {
				out.OwnErr = append(out.OwnErr, marker)
			}
		case step == "own-invalid":
			// a transaction the client refuses itself (unknown column): nothing is sent, and nothing
			// of it may matter later
			ctx, cancel := context.WithTimeout(bg, callTimeout)
			_, err := c.Transact(ctx, ovsdb.Operation{Op: "insert", Table: "T0", Row: ovsdb.Row{"nosuchcolumn": 1}})
			cancel()
			if err == nil {
				problem("harness", "a transaction on an unknown column was accepted by the client")
			}
		case step == "foreign-insert":
			fresh++
			u := kit.MkUUID(5000 + fresh)
			if directTxn(kit.Op{Op: "insert", Table: "T0", UUID: u, Row: kit.Row{"marker": kit.Scalar(kit.Str(fmt.Sprintf("foreign-%d", fresh))), "tags": kit.SetOf(kit.Str("a"), kit.Str("b"))}},
				kit.Op{Op: "insert", Table: "T1", Row: kit.Row{"name": kit.Scalar(kit.Str(fmt.Sprintf("n%d", fresh))), "peer": kit.Scalar(kit.UUID(u)), "kv": kit.MapOf(kit.Str("k"), kit.Str("v"))}},
				kit.Op{Op: "insert", Table: "T2", Row: kit.Row{"v": kit.Scalar(kit.Real(float64(fresh) + 0.5))}}) {
				foreignRows = append(foreignRows, u)
			}
		case step == "foreign-delete":
			if len(foreignRows) > 0 {
				u := foreignRows[0]
				foreignRows = foreignRows[1:]
				directTxn(kit.Op{Op: "delete", Table: "T0", Where: []kit.Cond{{Col: "_uuid", Fn: "==", Val: kit.Scalar(kit.UUID(u))}}},
					kit.Op{Op: "delete", Table: "T2", Where: []kit.Cond{}})
			}
		case step == "foreign-update":
			directTxn(kit.Op{Op: "mutate", Table: "T0", Where: []kit.Cond{}, Mutations: []kit.Mut{{Col: "n", Mutator: "+=", Val: kit.Scalar(kit.Int(1))}, {Col: "tags", Mutator: "insert", Val: kit.SetOf(kit.Str("c"))}}},
				kit.Op{Op: "update", Table: "T1", Where: []kit.Cond{}, Row: kit.Row{"kv": kit.MapOf(kit.Str("k"), kit.Str("w"))}})
		case step == "echo":
			ctx, cancel := context.WithTimeout(bg, callTimeout)
			_ = c.Echo(ctx)
			cancel()
		}
	}
	out.Counts = px.Counts(0)
	out.Reconnects = px.Connections() - 1
	px.ReleaseStalls()
	// ---- oracle ----
	if !waitConnected(c, 60*time.Second) {
		problem("reconnect.never", "60 s after the last fault the client still does not report Connected()")
		return out
	}
	// barrier: a transaction by the direct client returns once every monitor has acknowledged its notification
	fresh++
	if !directTxn(kit.Op{Op: "insert", Table: "T2", Row: kit.Row{"v": kit.Scalar(kit.Real(-1))}},
		kit.Op{Op: "mutate", Table: "T0", Where: []kit.Cond{}, Mutations: []kit.Mut{{Col: "n", Mutator: "+=", Val: kit.Scalar(kit.Int(0))}}},
		kit.Op{Op: "insert", Table: "T0", Row: kit.Row{"marker": kit.Scalar(kit.Str("barrier"))}},
		kit.Op{Op: "insert", Table: "T1", Row: kit.Row{"name": kit.Scalar(kit.Str("barrier"))}}) {
		return out
	}
	// the client may have been reconnecting while the barrier ran: wait for it once more, then compare
	deadline := time.Now().Add(30 * time.Second)
	var diffs []string
	for {
		diffs = nil
		db, err := srv.Snapshot()
		if err != nil {
			problem("harness", "%v", err)
			return out
		}
		if c.Connected() && c.Cache() != nil {
			for i, ms := range sc.Monitors {
				if !out.Established[i] {
					continue
				}
				for _, d := range compareMonitor(w, c, db, ms) {
					diffs = append(diffs, fmt.Sprintf("monitor %d (%s): %s", i, ms.Method, d))
				}
			}
			if len(diffs) == 0 {
				break
			}
		} else {
			diffs = []string{"client not connected"}
		}
		if time.Now().After(deadline) {
			break
		}
		// not converged yet: a second barrier (a reconnect may still have been in progress)
		time.Sleep(20 * time.Millisecond)
		fresh++
		directTxn(kit.Op{Op: "insert", Table: "T2", Row: kit.Row{"v": kit.Scalar(kit.Real(-float64(fresh)))}})
	}
	if len(diffs) > 0 {
		problem("resync.cache-differs", "after reconnecting, the cache does not converge to the database:\n%s", strings.Join(diffs, "\n"))
	} else if db, err := srv.Snapshot(); err == nil {
		var established []monSpec
		for i, ms := range sc.Monitors {
			if out.Established[i] {
				established = append(established, ms)
			}
		}
		if ip := c16IndexProblems(w, c, db, established); len(ip) > 0 {
			// the rows converged: retry once after a barrier in case a notification was in flight
			directTxn(kit.Op{Op: "insert", Table: "T2", Row: kit.Row{"v": kit.Scalar(kit.Real(-2))}})
			if db2, err := srv.Snapshot(); err == nil {
				if ip = c16IndexProblems(w, c, db2, established); len(ip) > 0 && len(compareAll(w, c, db2, established)) == 0 {
					problem("resync.index-stale", "after reconnecting the rows converged but the cache indexes disagree with them:\n%s", strings.Join(ip, "\n"))
				}
			}
		}
	}
	// markers
	db, _ := srv.Snapshot()
	count := map[string]int{}
	for _, r := range db["T0"] {
		count[r["marker"].K[0].S]++
	}
	for _, m := range out.OwnOK {
		if count[m] != 1 {
			problem("transact.not-exactly-once", "Transact returned results for %s but %d such rows are stored", m, count[m])
		}
	}
	for _, m := range out.OwnErr {
		if count[m] > 1 {
			problem("transact.more-than-once", "Transact returned an error for %s but %d such rows are stored", m, count[m])
		}
	}
	return out
}

func waitConnected(c client.Client, d time.Duration) bool {
	deadline := time.Now().Add(d)
	for !c.Connected() {
		if time.Now().After(deadline) {
			return false
		}
		time.Sleep(time.Millisecond)
	}
	return true
}

type c16Case struct {
	Scenario c16Scenario `json:"scenario"`
	Faults   []kit.Fault `json:"faults"`
	Problems []string    `json:"problems,omitempty"`
}

// c16ClientIndexes: client indexes on T0.marker and T1.name, so that a resynchronised
// cache can also be checked for stale index entries.
var c16ClientIndexes = map[string][]model.ClientIndex{
	"T0": {{Columns: []model.ColumnKey{{Column: "marker"}}}},
	"T1": {{Columns: []model.ColumnKey{{Column: "name"}}}},
}

// c16IndexProblems compares the client indexes of the monitored tables with a scan, after
// the cache contents were found equal to db.
func c16IndexProblems(w *kit.World, c client.Client, db kit.State, monitors []monSpec) []string {
	var out []string
	for _, ms := range monitors {
		for tn := range ms.Tables {
			cis, ok := c16ClientIndexes[tn]
			if !ok || c.Cache() == nil || c.Cache().Table(tn) == nil {
				continue
			}
			cfg := indexCfg{}
			for _, ci := range cis {
				var cks []c05ColKey
				for _, ck := range ci.Columns {
					cks = append(cks, c05ColKey{Col: ck.Column})
				}
				cfg.Client = append(cfg.Client, cks)
			}
			// the contents were compared already (with the allowances compareMonitor makes for
			// plain 'monitor' monitors): the indexes are compared with the rows the cache holds
			cached, err := w.RowsFromModels(tn, c.Cache().Table(tn).Rows())
			if err != nil {
				out = append(out, fmt.Sprintf("table %s: %v", tn, err))
				continue
			}
			if m := checkCacheIndexes(w, *w.S.Table(tn), cfg, c.Cache().Table(tn), cached, nil); m != nil {
				out = append(out, fmt.Sprintf("table %s: %s", tn, m.Error()))
			}
		}
	}
	return out
}

func compareAll(w *kit.World, c client.Client, db kit.State, monitors []monSpec) []string {
	var out []string
	for _, ms := range monitors {
		out = append(out, compareMonitor(w, c, db, ms)...)
	}
	return out
}

func c16World(tb testing.TB) *kit.World {
	s, err := parseSchemaJSON([]byte(c16Schema))
	if err != nil {
		tb.Fatalf("schema: %v", err)
	}
	w, err := kit.BuildWorld(s, c16ClientIndexes)
	if err != nil {
		tb.Fatalf("world: %v", err)
	}
	return w
}

// enumerateC16 runs a scenario fault-free, then once per message boundary, direction and
// cut mode. It returns the number of faulted runs and how many of them cut after monitor
// set-up had begun with foreign transactions still to come.
func enumerateC16(w *kit.World, sc c16Scenario, fail func(class string, kase c16Case, format string, args ...interface{}), shard, shards int) (runs, nontrivial int) {
	base := runC16(w, sc, nil)
	if len(base.Problems) > 0 {
		fail(base.Class, c16Case{Scenario: sc, Problems: base.Problems}, "fault-free run of the scenario: %s", strings.Join(base.Problems, "; "))
	}
	idx := 0
	for dir := 0; dir < 2; dir++ {
		for k := 1; k <= base.Counts[dir]; k++ {
			for _, mode := range []string{"after", "inside", "before"} {
				idx++
				if shards > 1 && idx%shards != shard {
					continue
				}
				f := []kit.Fault{{Dir: dir, K: k, Mode: mode}}
				o := runC16(w, sc, f)
				runs++
				kase := c16Case{Scenario: sc, Faults: f, Problems: o.Problems}
				if len(o.Problems) > 0 {
					fail(o.Class, kase, "cut %s message %d (%s): %s", []string{"client->server", "server->client"}[dir], k, mode, strings.Join(o.Problems, "; "))
				}
				nt := k > 6
				if nt {
					nontrivial++
				}
				kit.Record("C16", fmt.Sprintf("%s|%d|%d|%s", kit.MustJSON(sc), dir, k, mode), nt, func() interface{} { return kase }, "mode:"+mode, fmt.Sprintf("reconnects:%d", o.Reconnects))
			}
		}
	}
	return runs, nontrivial
}

// TestC16Fixed enumerates every message boundary of one fixed two-monitor scenario.
func TestC16Fixed(t *testing.T) {
	w := c16World(t)
	shard, _ := strconv.Atoi(os.Getenv("VERIF_SHARD_INDEX"))
	shards, _ := strconv.Atoi(os.Getenv("VERIF_SHARDS"))
	sc := fixedC16Scenario()
	runs, _ := enumerateC16(w, sc, func(class string, kase c16Case, format string, args ...interface{}) {
		kit.Fail(t, "C16", class, kase, format, args...)
	}, shard, shards)
	kit.MarkExhaustive("C16", fmt.Sprintf("fixed scenario: every message boundary x direction x {after, inside, before} enumerated (%d faulted runs in this shard)", runs))
}

// TestC16 draws scenarios; quick tier: one sampled first cut plus optionally a second cut on the
// re-established connection; thorough tier (VERIF_TIER=thorough): every boundary of the drawn scenario.
func TestC16(t *testing.T) {
	w := c16World(t)
	thorough := os.Getenv("VERIF_TIER") == "thorough"
	rapid.Check(t, func(t *rapid.T) {
		sc := genC16Scenario(t)
		if thorough && rapid.IntRange(0, 1).Draw(t, "enumerate") == 0 {
			enumerateC16(w, sc, func(class string, kase c16Case, format string, args ...interface{}) {
				kit.Fail(t, "C16", class, kase, format, args...)
			}, 0, 1)
			return
		}
		// sampled: first cut anywhere in a generous range, optional second cut / stall
		var faults []kit.Fault
		modes := []string{"after", "inside", "before"}
		faults = append(faults, kit.Fault{Dir: rapid.IntRange(0, 1).Draw(t, "dir"), K: rapid.IntRange(1, 30).Draw(t, "k"), Mode: rapid.SampledFrom(modes).Draw(t, "mode")})
		switch rapid.IntRange(0, 9).Draw(t, "extra") {
		case 0, 2, 3:
			faults = append(faults, kit.Fault{OnConn: 1, Dir: rapid.IntRange(0, 1).Draw(t, "dir2"), K: rapid.IntRange(1, 12).Draw(t, "k2"), Mode: rapid.SampledFrom(modes).Draw(t, "mode2")})
		case 1:
			sc.Inactivity = true
			sc.ThenReconnectOption = rapid.Bool().Draw(t, "thenreconnectoption")
			faults[0].Mode = "stall"
		}
		sc.ViaSetOption = rapid.IntRange(0, 3).Draw(t, "viasetoption") == 0
		t0 := time.Now()
		o := runC16(w, sc, faults)
		kase := c16Case{Scenario: sc, Faults: faults, Problems: o.Problems}
		if d := time.Since(t0); d > 700*time.Millisecond && os.Getenv("VERIF_C16_SLOW") != "" {
			fmt.Printf("SLOW %v %s\n", d, kit.MustJSON(kase))
		}
		if len(o.Problems) > 0 {
			kit.Fail(t, "C16", o.Class, kase, "%s", strings.Join(o.Problems, "; "))
		}
		kit.Record("C16", string(kit.MustJSON(kase)), o.Reconnects > 0 && faults[0].K > 6, func() interface{} { return kase }, "sampled", fmt.Sprintf("reconnects:%d", o.Reconnects), "mode:"+faults[0].Mode, fmt.Sprintf("options-via-setoption:%v", sc.ViaSetOption))
	})
}

var _ = json.Marshal

type c16WindowCase struct {
	Monitors []monSpec `json:"monitors"`
	Before   []string  `json:"foreignBeforeCut"`
	ParkAt   int       `json:"parkAtRestartedMonitor"` // 1-based; 0 = no parking
	Inside   []string  `json:"foreignInsideWindow"`
	After    []string  `json:"foreignAfterRelease"`
}

// TestC16ReconnectWindow: the connection is cut, and while the reconnecting client sits
// between the reply of one of its restarted monitors and the application of that reply
// (pause point monitor:reply), other clients commit transactions. Their notifications
// arrive on the new connection and must not be lost: after the release the cache
// converges to the database.
func TestC16ReconnectWindow(t *testing.T) {
	w := c16World(t)
	rapid.Check(t, func(t *rapid.T) {
		sc := genC16Scenario(t)
		kase := c16WindowCase{Monitors: sc.Monitors}
		fail := func(class, format string, args ...interface{}) {
			client.SetVerifHook(nil)
			kit.Fail(t, "C16", class, kase, format, args...)
		}
		srv, err := kit.StartServer(w)
		if err != nil {
			t.Fatalf("server: %v", err)
		}
		defer srv.Close()
		px, err := kit.StartProxy(srv.Sock)
		if err != nil {
			t.Fatalf("proxy: %v", err)
		}
		defer px.Close()
		bg := context.Background()
		direct, err := kit.NewClient(w, srv.Endpoint())
		if err != nil {
			t.Fatalf("client: %v", err)
		}
		if err := direct.Connect(bg); err != nil {
			t.Fatalf("connect: %v", err)
		}
		defer direct.Close()
		c, err := kit.NewClient(w, px.Endpoint(), client.WithReconnect(2*time.Second, backoff.NewConstantBackOff(3*time.Millisecond)))
		if err != nil {
			t.Fatalf("client: %v", err)
		}
		if err := c.Connect(bg); err != nil {
			t.Fatalf("connect: %v", err)
		}
		defer c.Close()
		defer client.SetVerifHook(nil)
		for _, ms := range sc.Monitors {
			ctx, cancel := context.WithTimeout(bg, 20*time.Second)
			_, err := c.Monitor(ctx, buildMonitor(w, c, ms))
			cancel()
			if err != nil {
				fail("monitor.error", "Monitor: %v", err)
			}
		}
		fresh := 0
		var rows []string
		foreign := func(label string) string {
			kind := rapid.SampledFrom([]string{"insert", "insert", "delete", "update"}).Draw(t, label)
			var ops []kit.Op
			switch {
			case kind == "delete" && len(rows) > 0:
				u := rows[0]
				rows = rows[1:]
				ops = []kit.Op{{Op: "delete", Table: "T0", Where: []kit.Cond{{Col: "_uuid", Fn: "==", Val: kit.Scalar(kit.UUID(u))}}}, {Op: "delete", Table: "T2", Where: []kit.Cond{}}}
			case kind == "update" && len(rows) > 0:
				ops = []kit.Op{{Op: "mutate", Table: "T0", Where: []kit.Cond{}, Mutations: []kit.Mut{{Col: "n", Mutator: "+=", Val: kit.Scalar(kit.Int(1))}, {Col: "tags", Mutator: "insert", Val: kit.SetOf(kit.Str(fmt.Sprintf("t%d", fresh)))}}},
					{Op: "update", Table: "T1", Where: []kit.Cond{}, Row: kit.Row{"kv": kit.MapOf(kit.Str("k"), kit.Str(fmt.Sprintf("w%d", fresh)))}}}
				fresh++
			default:
				kind = "insert"
				fresh++
				u := kit.MkUUID(5000 + fresh)
				rows = append(rows, u)
				ops = []kit.Op{{Op: "insert", Table: "T0", UUID: u, Row: kit.Row{"marker": kit.Scalar(kit.Str(fmt.Sprintf("foreign-%d", fresh))), "tags": kit.SetOf(kit.Str("a"))}},
					{Op: "insert", Table: "T1", Row: kit.Row{"name": kit.Scalar(kit.Str(fmt.Sprintf("n%d", fresh))), "peer": kit.Scalar(kit.UUID(u))}},
					{Op: "insert", Table: "T2", Row: kit.Row{"v": kit.Scalar(kit.Real(float64(fresh) + 0.5))}}}
			}
			ctx, cancel := context.WithTimeout(bg, 20*time.Second)
			defer cancel()
			res, err := kit.TransactOps(ctx, w, direct, ops)
			if err != nil {
				fail("harness.direct", "foreign transaction failed: %v", err)
			}
			for _, r := range res {
				if r.Error != "" {
					fail("harness.direct", "foreign transaction failed: %s %s", r.Error, r.Details)
				}
			}
			return kind
		}
		for i, n := 0, rapid.IntRange(0, 3).Draw(t, "nbefore"); i < n; i++ {
			kase.Before = append(kase.Before, foreign("before"))
		}
		kase.ParkAt = rapid.IntRange(0, len(sc.Monitors)).Draw(t, "parkat")
		parked := make(chan struct{})
		release := make(chan struct{})
		var relOnce sync.Once
		doRelease := func() { relOnce.Do(func() { close(release) }) }
		// also when the case is abandoned while the client is parked (rapid unwinds a case it
		// cannot replay while shrinking): the parked goroutine holds the client's locks
		defer doRelease()
		var seen int32
		client.SetVerifHook(func(cl client.Client, point string) {
			if cl != c || point != "monitor:reply" {
				return
			}
			if n := atomic.AddInt32(&seen, 1); int(n) == kase.ParkAt {
				close(parked)
				<-release
			}
		})
		px.CutAll()
		if kase.ParkAt > 0 {
			select {
			case <-parked:
			case <-time.After(30 * time.Second):
				doRelease()
				fail("reconnect.never", "30 s after the cut the client has not restarted monitor %d", kase.ParkAt)
			}
			for i, n := 0, rapid.IntRange(1, 3).Draw(t, "ninside"); i < n; i++ {
				kase.Inside = append(kase.Inside, foreign("inside"))
			}
			doRelease()
		}
		for i, n := 0, rapid.IntRange(0, 2).Draw(t, "nafter"); i < n; i++ {
			kase.After = append(kase.After, foreign("after"))
		}
		if !waitConnected(c, 30*time.Second) {
			fail("reconnect.never", "30 s after the cut the client does not report Connected()")
		}
		// convergence: barriers by the direct client until the cache equals the database
		deadline := time.Now().Add(20 * time.Second)
		var diffs []string
		for {
			diffs = nil
			ctx, cancel := context.WithTimeout(bg, 20*time.Second)
			_, err := kit.TransactOps(ctx, w, direct, []kit.Op{{Op: "insert", Table: "T2", Row: kit.Row{"v": kit.Scalar(kit.Real(-1))}}})
			cancel()
			if err != nil {
				fail("harness.direct", "barrier: %v", err)
			}
			db, err := srv.Snapshot()
			if err != nil {
				t.Fatalf("snapshot: %v", err)
			}
			if c.Connected() && c.Cache() != nil {
				for i, ms := range sc.Monitors {
					for _, d := range compareMonitor(w, c, db, ms) {
						diffs = append(diffs, fmt.Sprintf("monitor %d (%s): %s", i, ms.Method, d))
					}
				}
			} else {
				diffs = []string{"client not connected"}
			}
			if len(diffs) == 0 || time.Now().After(deadline) {
				break
			}
			time.Sleep(10 * time.Millisecond)
		}
		if len(diffs) > 0 {
			fail("resync.cache-differs", "transactions committed while restarted monitor %d of %d was between reply and application are missing from the cache 20 s later:\n%s", kase.ParkAt, len(sc.Monitors), strings.Join(diffs, "\n"))
		}
		if db, err := srv.Snapshot(); err == nil {
			if ip := c16IndexProblems(w, c, db, sc.Monitors); len(ip) > 0 && len(compareAll(w, c, db, sc.Monitors)) == 0 {
				fail("resync.index-stale", "the rows converged but the cache indexes disagree with them:\n%s", strings.Join(ip, "\n"))
			}
		}
		kit.Record("C16", "window|"+string(kit.MustJSON(kase)), kase.ParkAt > 0, func() interface{} { return kase },
			"reconnect-window", fmt.Sprintf("window:monitors:%d:parkat:%d", len(sc.Monitors), kase.ParkAt))
	})
}

type c16LeaderCase struct {
	Servers   int      `json:"servers"`
	Endpoints []int    `json:"endpointOrder"`
	Leaders   []int    `json:"leaderAfterEachStep"` // index of the leading server, -1 = none
	Orders    []string `json:"orderOfTheTwoUpdates"`
	Step      int      `json:"failedStep"`
	// the client starts with the leader's endpoint alone and is told the others through UpdateEndpoints
	LateEndpoints bool `json:"endpointsLearntAfterConnecting,omitempty"`
}

// leaderServer is one cluster member: its own copy of the database plus the _Server
// database in which it reports whether it leads.
type leaderServer struct {
	srv  *kit.Server
	peer *kit.RawPeer
	sid  string
}

func (l *leaderServer) setLeader(leader bool) error {
	reply, err := l.peer.Transact("_Server", []json.RawMessage{json.RawMessage(fmt.Sprintf(`{"op":"update","table":"Database","where":[["name","==","DB"]],"row":{"leader":%v}}`, leader))})
	if err != nil {
		return err
	}
	if !strings.Contains(string(reply), `"count":1`) {
		return fmt.Errorf("reply %s", reply)
	}
	return nil
}

// TestC16Leader: leader-only mode against 2-3 servers that each export _Server. The
// client must attach to the server that reports leadership of the database, leave it when
// it stops reporting it, follow the leadership wherever it goes (re-establishing its
// monitor: the cache must converge to the contents of the new leader's database), and stay
// detached while nobody leads.
func TestC16Leader(t *testing.T) {
	w := c16World(t)
	cm, err := serverdb.FullDatabaseModel()
	if err != nil {
		t.Fatal(err)
	}
	sdm, errs := model.NewDatabaseModel(serverdb.Schema(), cm)
	if len(errs) > 0 {
		t.Fatal(errs)
	}
	rapid.Check(t, func(t *rapid.T) {
		n := rapid.IntRange(2, 3).Draw(t, "nservers")
		kase := c16LeaderCase{Servers: n}
		fail := func(class, format string, args ...interface{}) {
			kit.Fail(t, "C16", class, kase, format, args...)
		}
		var servers []*leaderServer
		leader := rapid.IntRange(0, n-1).Draw(t, "leader0")
		kase.Leaders = append(kase.Leaders, leader)
		for i := 0; i < n; i++ {
			srv, err := kit.StartServer(w, sdm)
			if err != nil {
				t.Fatalf("server: %v", err)
			}
			defer srv.Close()
			p, err := kit.DialRaw(srv.Sock)
			if err != nil {
				t.Fatalf("dial: %v", err)
			}
			defer p.Close()
			ls := &leaderServer{srv: srv, peer: p, sid: kit.MkUUID(7000 + i)}
			own := fmt.Sprintf(`{"op":"insert","table":"Database","row":{"name":"DB","model":"clustered","connected":true,"leader":%v,"sid":["uuid","%s"],"cid":["uuid","%s"]}}`, i == leader, ls.sid, kit.MkUUID(7100))
			other := `{"op":"insert","table":"Database","row":{"name":"_Server","model":"standalone","connected":true,"leader":true}}`
			rows := []json.RawMessage{json.RawMessage(own), json.RawMessage(other)}
			if rapid.Bool().Draw(t, "serverrowfirst") {
				rows[0], rows[1] = rows[1], rows[0]
			}
			if reply, err := p.Transact("_Server", rows); err != nil || strings.Contains(string(reply), "error") {
				t.Fatalf("harness: _Server rows: %s %v", reply, err)
			}
			// every member holds different contents, so the cache tells which one is monitored
			if _, err := p.Transact("DB", []json.RawMessage{json.RawMessage(fmt.Sprintf(`{"op":"insert","table":"T0","row":{"marker":"member-%d","n":%d}}`, i, i))}); err != nil {
				t.Fatalf("harness: %v", err)
			}
			servers = append(servers, ls)
		}
		order := rapid.Permutation([]int{0, 1, 2}[:n]).Draw(t, "endpoints")
		kase.Endpoints = order
		var opts []client.Option
		// half of the clients that start at the leader learn about the other members only once
		// they are attached (UpdateEndpoints with the endpoint in use first and the others after it)
		late := order[0] == leader && rapid.Bool().Draw(t, "lateendpoints")
		kase.LateEndpoints = late
		for _, i := range order[1:] {
			if !late {
				opts = append(opts, client.WithEndpoint(servers[i].srv.Endpoint()))
			}
		}
		opts = append(opts, client.WithLeaderOnly(true), client.WithReconnect(2*time.Second, backoff.NewConstantBackOff(3*time.Millisecond)))
		c, err := kit.NewClient(w, servers[order[0]].srv.Endpoint(), opts...)
		if err != nil {
			t.Fatalf("client: %v", err)
		}
		defer c.Close()
		ctx, cancel := context.WithTimeout(context.Background(), 20*time.Second)
		defer cancel()
		if err := c.Connect(ctx); err != nil {
			fail("leader.connect", "Connect with server %d leading: %v", leader, err)
		}
		if _, err := c.Monitor(ctx, c.NewMonitor(client.WithTable(w.NewModel("T0")))); err != nil {
			fail("monitor.error", "Monitor: %v", err)
		}
		// attachedTo reports the server the client is attached to (-1: none, -2: changing)
		attachedTo := func() int {
			e1 := c.CurrentEndpoint()
			conn := c.Connected()
			e2 := c.CurrentEndpoint()
			if e1 != e2 {
				return -2
			}
			if !conn || e1 == "" {
				return -1
			}
			for i, s := range servers {
				if s.srv.Endpoint() == e1 {
					return i
				}
			}
			return -2
		}
		settle := func(step int, want int) {
			kase.Step = step
			deadline := time.Now().Add(20 * time.Second)
			var last int
			var diffs []string
			for {
				last = attachedTo()
				diffs = nil
				if last == want {
					if want < 0 {
						break
					}
					db, err := servers[want].srv.Snapshot()
					if err != nil {
						t.Fatalf("snapshot: %v", err)
					}
					rows, err := kit.CacheRows(w, c, "T0")
					if err == nil {
						diffs = kit.DiffStates(kit.State{"T0": db["T0"]}, kit.State{"T0": rows})
					} else {
						diffs = []string{err.Error()}
					}
					if len(diffs) == 0 {
						break
					}
				}
				if time.Now().After(deadline) {
					if want >= 0 && last == want {
						fail("resync.cache-differs", "step %d: attached to the leader (server %d) but the cache does not converge to its database:\n%s", step, want, strings.Join(diffs, "\n"))
					}
					fail("leader.wrong-endpoint", "step %d: 20 s after the change the client is attached to server %d (-1 = none), the database is led by server %d (-1 = nobody)", step, last, want)
				}
				time.Sleep(2 * time.Millisecond)
			}
			// and it stays there
			for i := 0; i < 25; i++ {
				if a := attachedTo(); a != want && a != -2 && !(want >= 0 && a == -1) {
					fail("leader.wrong-endpoint", "step %d: the client settled on server %d and then attached to server %d, which does not lead", step, want, a)
				}
				time.Sleep(2 * time.Millisecond)
			}
		}
		settle(0, leader)
		if late {
			var eps []string
			for _, i := range order {
				eps = append(eps, servers[i].srv.Endpoint())
			}
			c.UpdateEndpoints(eps)
			kit.Label("C16", "leader:endpoints-learnt-after-connecting")
			settle(0, leader)
		}
		for step, steps := 1, rapid.IntRange(1, 3).Draw(t, "steps"); step <= steps; step++ {
			cands := []int{-1}
			for i := 0; i < n; i++ {
				if i != leader {
					cands = append(cands, i)
				}
			}
			next := rapid.SampledFrom(cands).Draw(t, "nextleader")
			if leader < 0 && next < 0 {
				next = 0
			}
			kase.Leaders = append(kase.Leaders, next)
			newFirst := rapid.Bool().Draw(t, "newleaderfirst")
			kase.Orders = append(kase.Orders, map[bool]string{true: "new leader announces first", false: "old leader resigns first"}[newFirst])
			resign := func() {
				if leader >= 0 {
					if err := servers[leader].setLeader(false); err != nil {
						t.Fatalf("harness: %v", err)
					}
				}
			}
			announce := func() {
				if next >= 0 {
					if err := servers[next].setLeader(true); err != nil {
						t.Fatalf("harness: %v", err)
					}
				}
			}
			if newFirst {
				announce()
				resign()
			} else {
				resign()
				announce()
			}
			if next >= 0 {
				// something changes at the new leader while the client moves over
				if _, err := servers[next].peer.Transact("DB", []json.RawMessage{json.RawMessage(fmt.Sprintf(`{"op":"insert","table":"T0","row":{"marker":"step-%d","n":%d}}`, step, step))}); err != nil {
					t.Fatalf("harness: %v", err)
				}
			}
			leader = next
			settle(step, leader)
		}
		kit.Record("C16", "leader|"+string(kit.MustJSON(kase)), len(kase.Leaders) > 2, func() interface{} { return kase }, "leader-only", fmt.Sprintf("leader:servers:%d", n))
	})
}

type c16InconsistentCase struct {
	Monitors []monSpec `json:"monitors"`
	Steps    []string  `json:"steps"`
}

// insertOnlyNotification reports an update/update2/update3 notification that carries
// nothing but inserted rows: received twice it cannot be applied (the rows exist), which
// the client must notice and answer by reconnecting and rebuilding its cache.
func insertOnlyNotification(raw json.RawMessage) bool {
	var msg struct {
		Method string            `json:"method"`
		Params []json.RawMessage `json:"params"`
	}
	if json.Unmarshal(raw, &msg) != nil || len(msg.Params) == 0 {
		return false
	}
	if msg.Method != "update" && msg.Method != "update2" && msg.Method != "update3" {
		return false
	}
	var tables map[string]map[string]map[string]json.RawMessage
	if json.Unmarshal(msg.Params[len(msg.Params)-1], &tables) != nil || len(tables) == 0 {
		return false
	}
	for _, rows := range tables {
		for _, ru := range rows {
			for k := range ru {
				if (msg.Method == "update" && k != "new") || (msg.Method != "update" && k != "insert") {
					return false
				}
			}
		}
	}
	return true
}

// TestC16Inconsistent: the client receives notifications it cannot apply (an insert-only
// notification delivered 2-4 times in a row by the proxy). It has to drop the connection,
// reconnect, re-establish its monitors, and its cache must converge to the database.
func TestC16Inconsistent(t *testing.T) {
	w := c16World(t)
	rapid.Check(t, func(t *rapid.T) {
		sc := genC16Scenario(t)
		kase := c16InconsistentCase{Monitors: sc.Monitors}
		fail := func(class, format string, args ...interface{}) {
			kit.Fail(t, "C16", class, kase, format, args...)
		}
		srv, err := kit.StartServer(w)
		if err != nil {
			t.Fatalf("server: %v", err)
		}
		defer srv.Close()
		px, err := kit.StartProxy(srv.Sock)
		if err != nil {
			t.Fatalf("proxy: %v", err)
		}
		defer px.Close()
		bg := context.Background()
		direct, err := kit.NewClient(w, srv.Endpoint())
		if err != nil {
			t.Fatalf("client: %v", err)
		}
		if err := direct.Connect(bg); err != nil {
			t.Fatalf("connect: %v", err)
		}
		defer direct.Close()
		c, err := kit.NewClient(w, px.Endpoint(), client.WithReconnect(2*time.Second, backoff.NewConstantBackOff(3*time.Millisecond)))
		if err != nil {
			t.Fatalf("client: %v", err)
		}
		if err := c.Connect(bg); err != nil {
			t.Fatalf("connect: %v", err)
		}
		defer c.Close()
		for _, ms := range sc.Monitors {
			ctx, cancel := context.WithTimeout(bg, 20*time.Second)
			_, err := c.Monitor(ctx, buildMonitor(w, c, ms))
			cancel()
			if err != nil {
				fail("monitor.error", "Monitor: %v", err)
			}
		}
		var copies int32
		var tampered int32
		px.SetTamper(func(dir int, raw json.RawMessage) []json.RawMessage {
			n := atomic.LoadInt32(&copies)
			if dir != kit.S2C || n == 0 || !insertOnlyNotification(raw) {
				return nil
			}
			atomic.AddInt32(&tampered, 1)
			out := []json.RawMessage{raw}
			for i := int32(0); i < n; i++ {
				out = append(out, raw)
			}
			return out
		})
		fresh := 0
		insert := func() {
			fresh++
			ctx, cancel := context.WithTimeout(bg, 20*time.Second)
			defer cancel()
			_, err := kit.TransactOps(ctx, w, direct, []kit.Op{
				{Op: "insert", Table: "T0", Row: kit.Row{"marker": kit.Scalar(kit.Str(fmt.Sprintf("f%d", fresh))), "tags": kit.SetOf(kit.Str("a"))}},
				{Op: "insert", Table: "T1", Row: kit.Row{"name": kit.Scalar(kit.Str(fmt.Sprintf("n%d", fresh)))}},
				{Op: "insert", Table: "T2", Row: kit.Row{"v": kit.Scalar(kit.Real(float64(fresh)))}}})
			if err != nil {
				fail("harness.direct", "foreign transaction failed: %v", err)
			}
		}
		for i, n := 0, rapid.IntRange(1, 4).Draw(t, "nsteps"); i < n; i++ {
			k := rapid.SampledFrom([]int{0, 1, 1, 2, 3}).Draw(t, "extracopies")
			atomic.StoreInt32(&copies, int32(k))
			kase.Steps = append(kase.Steps, fmt.Sprintf("insert rows, notification delivered %d times", k+1))
			insert()
			atomic.StoreInt32(&copies, 0)
			if rapid.Bool().Draw(t, "plainbetween") {
				kase.Steps = append(kase.Steps, "insert rows")
				insert()
			}
		}
		// convergence (barriers by the direct client; the notifications are no longer tampered with)
		deadline := time.Now().Add(20 * time.Second)
		var diffs []string
		for {
			diffs = nil
			ctx, cancel := context.WithTimeout(bg, 20*time.Second)
			_, err := kit.TransactOps(ctx, w, direct, []kit.Op{{Op: "insert", Table: "T2", Row: kit.Row{"v": kit.Scalar(kit.Real(-1))}}})
			cancel()
			if err != nil {
				fail("harness.direct", "barrier: %v", err)
			}
			db, err := srv.Snapshot()
			if err != nil {
				t.Fatalf("snapshot: %v", err)
			}
			if c.Connected() && c.Cache() != nil {
				for i, ms := range sc.Monitors {
					for _, d := range compareMonitor(w, c, db, ms) {
						diffs = append(diffs, fmt.Sprintf("monitor %d (%s): %s", i, ms.Method, d))
					}
				}
			} else {
				diffs = []string{"client not connected"}
			}
			if len(diffs) == 0 || time.Now().After(deadline) {
				break
			}
			time.Sleep(10 * time.Millisecond)
		}
		if len(diffs) > 0 {
			fail("resync.cache-differs", "20 s after receiving notifications it could not apply (%d tampered) the client has not resynchronised:\n%s", atomic.LoadInt32(&tampered), strings.Join(diffs, "\n"))
		}
		if db, err := srv.Snapshot(); err == nil {
			if ip := c16IndexProblems(w, c, db, sc.Monitors); len(ip) > 0 && len(compareAll(w, c, db, sc.Monitors)) == 0 {
				fail("resync.index-stale", "the rows converged but the cache indexes disagree with them:\n%s", strings.Join(ip, "\n"))
			}
		}
		kit.Record("C16", "inconsistent|"+string(kit.MustJSON(kase)), atomic.LoadInt32(&tampered) > 0, func() interface{} { return kase },
			"inconsistent-notifications", fmt.Sprintf("inconsistent:tampered:%d", atomic.LoadInt32(&tampered)))
	})
}

type c16OutageCase struct {
	Monitors  []monSpec `json:"monitors"`
	TimeoutMs int       `json:"reconnectTimeoutMs"`
	OutageMs  int       `json:"outageMs"`
	During    []string  `json:"foreignDuringOutage"`
}

// TestC16Outage: the endpoint stays unreachable for longer than the time the client allows
// one reconnection attempt (several times longer), other clients change the database
// meanwhile, then the endpoint comes back: the client reconnects and converges.
func TestC16Outage(t *testing.T) {
	w := c16World(t)
	rapid.Check(t, func(t *rapid.T) {
		sc := genC16Scenario(t)
		kase := c16OutageCase{Monitors: sc.Monitors, TimeoutMs: rapid.SampledFrom([]int{60, 120}).Draw(t, "timeoutms")}
		kase.OutageMs = kase.TimeoutMs * rapid.IntRange(2, 4).Draw(t, "outagefactor")
		fail := func(class, format string, args ...interface{}) {
			kit.Fail(t, "C16", class, kase, format, args...)
		}
		srv, err := kit.StartServer(w)
		if err != nil {
			t.Fatalf("server: %v", err)
		}
		defer srv.Close()
		px, err := kit.StartProxy(srv.Sock)
		if err != nil {
			t.Fatalf("proxy: %v", err)
		}
		defer px.Close()
		bg := context.Background()
		direct, err := kit.NewClient(w, srv.Endpoint())
		if err != nil {
			t.Fatalf("client: %v", err)
		}
		if err := direct.Connect(bg); err != nil {
			t.Fatalf("connect: %v", err)
		}
		defer direct.Close()
		c, err := kit.NewClient(w, px.Endpoint(), client.WithReconnect(time.Duration(kase.TimeoutMs)*time.Millisecond, backoff.NewConstantBackOff(5*time.Millisecond)))
		if err != nil {
			t.Fatalf("client: %v", err)
		}
		if err := c.Connect(bg); err != nil {
			t.Fatalf("connect: %v", err)
		}
		defer c.Close()
		for _, ms := range sc.Monitors {
			ctx, cancel := context.WithTimeout(bg, 20*time.Second)
			_, err := c.Monitor(ctx, buildMonitor(w, c, ms))
			cancel()
			if err != nil {
				fail("monitor.error", "Monitor: %v", err)
			}
		}
		fresh := 0
		var rows []string
		foreign := func() string {
			fresh++
			kind := "insert"
			var ops []kit.Op
			if len(rows) > 0 && fresh%3 == 0 {
				kind = "delete"
				u := rows[0]
				rows = rows[1:]
				ops = []kit.Op{{Op: "delete", Table: "T0", Where: []kit.Cond{{Col: "_uuid", Fn: "==", Val: kit.Scalar(kit.UUID(u))}}}}
			} else {
				u := kit.MkUUID(5000 + fresh)
				rows = append(rows, u)
				ops = []kit.Op{{Op: "insert", Table: "T0", UUID: u, Row: kit.Row{"marker": kit.Scalar(kit.Str(fmt.Sprintf("f%d", fresh)))}},
					{Op: "insert", Table: "T1", Row: kit.Row{"name": kit.Scalar(kit.Str(fmt.Sprintf("n%d", fresh))), "peer": kit.Scalar(kit.UUID(u))}},
					{Op: "insert", Table: "T2", Row: kit.Row{"v": kit.Scalar(kit.Real(float64(fresh)))}}}
			}
			ctx, cancel := context.WithTimeout(bg, 20*time.Second)
			defer cancel()
			if _, err := kit.TransactOps(ctx, w, direct, ops); err != nil {
				fail("harness.direct", "foreign transaction failed: %v", err)
			}
			return kind
		}
		foreign()
		foreign()
		px.SetDown(true)
		t0 := time.Now()
		for i, n := 0, rapid.IntRange(1, 4).Draw(t, "nduring"); i < n; i++ {
			kase.During = append(kase.During, foreign())
		}
		if rest := time.Duration(kase.OutageMs)*time.Millisecond - time.Since(t0); rest > 0 {
			time.Sleep(rest)
		}
		px.SetDown(false)
		deadline := time.Now().Add(20 * time.Second)
		var diffs []string
		for {
			diffs = nil
			ctx, cancel := context.WithTimeout(bg, 20*time.Second)
			_, err := kit.TransactOps(ctx, w, direct, []kit.Op{{Op: "insert", Table: "T2", Row: kit.Row{"v": kit.Scalar(kit.Real(-1))}}})
			cancel()
			if err != nil {
				fail("harness.direct", "barrier: %v", err)
			}
			db, err := srv.Snapshot()
			if err != nil {
				t.Fatalf("snapshot: %v", err)
			}
			if c.Connected() && c.Cache() != nil {
				diffs = compareAll(w, c, db, sc.Monitors)
			} else {
				diffs = []string{"client not connected"}
			}
			if len(diffs) == 0 || time.Now().After(deadline) {
				break
			}
			time.Sleep(10 * time.Millisecond)
		}
		if len(diffs) > 0 {
			fail("resync.cache-differs", "20 s after an outage of %d ms (reconnect timeout %d ms) the client has not caught up:\n%s", kase.OutageMs, kase.TimeoutMs, strings.Join(diffs, "\n"))
		}
		kit.Record("C16", "outage|"+string(kit.MustJSON(kase)), true, func() interface{} { return kase }, "outage-longer-than-reconnect-timeout")
	})
}

type c16SilentCase struct {
	Monitors    []monSpec `json:"monitors"`
	StallAtK    int       `json:"connectionGoesSilentAfterServerMessage"`
	AppDeadline string    `json:"applicationTransactDeadline"`
}

// TestC16Silent: the peer goes silent (the connection stays open, nothing comes back) while
// the application keeps issuing transactions with deadlines shorter than the inactivity
// timeout. The inactivity probe must still notice the silence: the client opens a new
// connection, re-establishes its monitors and converges.
func TestC16Silent(t *testing.T) {
	w := c16World(t)
	rapid.Check(t, func(t *rapid.T) {
		sc := genC16Scenario(t)
		kase := c16SilentCase{Monitors: sc.Monitors}
		fail := func(class, format string, args ...interface{}) {
			kit.Fail(t, "C16", class, kase, format, args...)
		}
		srv, err := kit.StartServer(w)
		if err != nil {
			t.Fatalf("server: %v", err)
		}
		defer srv.Close()
		px, err := kit.StartProxy(srv.Sock)
		if err != nil {
			t.Fatalf("proxy: %v", err)
		}
		defer px.Close()
		px.AckWhileStalled = true
		bg := context.Background()
		direct, err := kit.NewClient(w, srv.Endpoint())
		if err != nil {
			t.Fatalf("client: %v", err)
		}
		if err := direct.Connect(bg); err != nil {
			t.Fatalf("connect: %v", err)
		}
		defer direct.Close()
		const inactivity = 150 * time.Millisecond
		c, err := kit.NewClient(w, px.Endpoint(), client.WithInactivityCheck(inactivity, 2*time.Second, backoff.NewConstantBackOff(3*time.Millisecond)))
		if err != nil {
			t.Fatalf("client: %v", err)
		}
		if err := c.Connect(bg); err != nil {
			t.Fatalf("connect: %v", err)
		}
		defer c.Close()
		for _, ms := range sc.Monitors {
			ctx, cancel := context.WithTimeout(bg, 20*time.Second)
			_, err := c.Monitor(ctx, buildMonitor(w, c, ms))
			cancel()
			if err != nil {
				fail("monitor.error", "Monitor: %v", err)
			}
		}
		insert := func(i int) {
			ctx, cancel := context.WithTimeout(bg, 20*time.Second)
			defer cancel()
			if _, err := kit.TransactOps(ctx, w, direct, []kit.Op{{Op: "insert", Table: "T0", Row: kit.Row{"marker": kit.Scalar(kit.Str(fmt.Sprintf("f%d", i)))}},
				{Op: "insert", Table: "T2", Row: kit.Row{"v": kit.Scalar(kit.Real(float64(i)))}}}); err != nil {
				fail("harness.direct", "foreign transaction failed: %v", err)
			}
		}
		insert(1)
		// the connection goes silent with the next message from the server
		kase.StallAtK = px.Counts(0)[kit.S2C] + 1
		px.AddFault(kit.Fault{Dir: kit.S2C, K: 0, Mode: "stall", OnConn: 0})
		appDeadline := time.Duration(rapid.SampledFrom([]int{20, 40, 60}).Draw(t, "appdeadlinems")) * time.Millisecond
		kase.AppDeadline = appDeadline.String()
		stopApp := make(chan struct{})
		appDone := make(chan struct{})
		go func() {
			defer close(appDone)
			for i := 0; ; i++ {
				select {
				case <-stopApp:
					return
				default:
				}
				ctx, cancel := context.WithTimeout(bg, appDeadline)
				_, _ = c.Transact(ctx, ovsdb.Operation{Op: "select", Table: "T2", Where: []ovsdb.Condition{}})
				cancel()
			}
		}()
		insert(2) // its notification is the message that turns the connection silent
		insert(3)
		// a second connection must appear although the application never stops transacting
		deadline := time.Now().Add(15 * time.Second)
		for px.Connections() < 2 {
			if time.Now().After(deadline) {
				close(stopApp)
				<-appDone
				fail("reconnect.never", "15 s after the peer went silent (inactivity timeout %v, the application keeps calling Transact with %v deadlines) the client has not opened a new connection", inactivity, appDeadline)
			}
			time.Sleep(2 * time.Millisecond)
		}
		close(stopApp)
		<-appDone
		deadline = time.Now().Add(20 * time.Second)
		var diffs []string
		for {
			diffs = nil
			insert(100)
			db, err := srv.Snapshot()
			if err != nil {
				t.Fatalf("snapshot: %v", err)
			}
			if c.Connected() && c.Cache() != nil {
				diffs = compareAll(w, c, db, sc.Monitors)
			} else {
				diffs = []string{"client not connected"}
			}
			if len(diffs) == 0 || time.Now().After(deadline) {
				break
			}
			time.Sleep(10 * time.Millisecond)
		}
		if len(diffs) > 0 {
			fail("resync.cache-differs", "after the silent connection was replaced the cache does not converge:\n%s", strings.Join(diffs, "\n"))
		}
		kit.Record("C16", "silent|"+string(kit.MustJSON(kase)), true, func() interface{} { return kase }, "silent-peer-with-busy-application")
	})
}

// TestC16Large: resynchronisation does not depend on how much there is to resynchronise.
// The monitored tables hold more rows (66000 and 1200) than any bounded buffer of the client
// holds entries (the cache's event buffer has 65536, and nothing drains it while the
// monitors are restarted); the connection is cut, rows are deleted and inserted meanwhile,
// and the cache must converge as for a small database.
func TestC16Large(t *testing.T) { largeResync(t, "C16") }

// largeResync is shared with C18 (TestC18Large): there the point is that every read of the
// client's state returns while and after the large cache is rebuilt.
func largeResync(t *testing.T, prop string) {
	w := c16World(t)
	srv, err := kit.StartServer(w)
	if err != nil {
		t.Fatalf("server: %v", err)
	}
	defer srv.Close()
	px, err := kit.StartProxy(srv.Sock)
	if err != nil {
		t.Fatalf("proxy: %v", err)
	}
	defer px.Close()
	writer, err := kit.DialRaw(srv.Sock)
	if err != nil {
		t.Fatal(err)
	}
	defer writer.Close()
	const big, small = 66000, 1200
	kase := map[string]interface{}{"rowsT2": big, "rowsT0": small}
	fail := func(class, format string, args ...interface{}) {
		kit.Fail(t, prop, class, kase, format, args...)
	}
	send := func(ops []json.RawMessage) {
		if reply, err := writer.Transact("DB", ops); err != nil || strings.Contains(string(reply), `"error"`) {
			t.Fatalf("harness: %.300s %v", reply, err)
		}
	}
	for i := 0; i < big; i += 3000 {
		var ops []json.RawMessage
		for j := i; j < i+3000 && j < big; j++ {
			ops = append(ops, json.RawMessage(fmt.Sprintf(`{"op":"insert","table":"T2","uuid":"%s","row":{"v":%d.5}}`, kit.MkUUID(100000+j), j)))
		}
		send(ops)
	}
	var ops []json.RawMessage
	for j := 0; j < small; j++ {
		ops = append(ops, json.RawMessage(fmt.Sprintf(`{"op":"insert","table":"T0","uuid":"%s","row":{"marker":"m%d","n":%d}}`, kit.MkUUID(1+j), j, j)))
	}
	send(ops)
	bg := context.Background()
	c, err := kit.NewClient(w, px.Endpoint(), client.WithReconnect(10*time.Second, backoff.NewConstantBackOff(5*time.Millisecond)))
	if err != nil {
		t.Fatal(err)
	}
	if err := c.Connect(bg); err != nil {
		t.Fatal(err)
	}
	defer func() { go c.Close() }()
	mons := []monSpec{{Method: ovsdb.ConditionalMonitorSinceRPC, Tables: map[string][]string{"T2": nil}}, {Method: ovsdb.MonitorRPC, Tables: map[string][]string{"T0": nil}}}
	for _, ms := range mons {
		ctx, cancel := context.WithTimeout(bg, 60*time.Second)
		_, err := c.Monitor(ctx, buildMonitor(w, c, ms))
		cancel()
		if err != nil {
			fail("monitor.error", "Monitor of a large table: %v", err)
		}
	}
	for round := 1; round <= 2; round++ {
		px.CutAll()
		send([]json.RawMessage{
			json.RawMessage(fmt.Sprintf(`{"op":"delete","table":"T2","where":[["_uuid","==",["uuid","%s"]]]}`, kit.MkUUID(100000+round))),
			json.RawMessage(fmt.Sprintf(`{"op":"insert","table":"T2","row":{"v":-%d.25}}`, round)),
			json.RawMessage(fmt.Sprintf(`{"op":"delete","table":"T0","where":[["_uuid","==",["uuid","%s"]]]}`, kit.MkUUID(round))),
			json.RawMessage(fmt.Sprintf(`{"op":"insert","table":"T0","row":{"marker":"while-away-%d"}}`, round)),
		})
		kase["round"] = round
		var diffs []string
		ok, stacks := watchdog(120*time.Second, func() {
			deadline := time.Now().Add(60 * time.Second)
			for {
				diffs = nil
				if c.Connected() && c.Cache() != nil {
					db, err := srv.Snapshot()
					if err != nil {
						t.Fatalf("snapshot: %v", err)
					}
					diffs = compareAll(w, c, db, mons)
				} else {
					diffs = []string{"client not connected"}
				}
				if len(diffs) == 0 || time.Now().After(deadline) {
					return
				}
				time.Sleep(50 * time.Millisecond)
			}
		})
		if !ok {
			fmt.Printf("VERIF-HANG reading the client's state after a cut with %d rows cached\n", big+small)
			fail(map[bool]string{true: "liveness.hang", false: "resync.hang"}[prop == "C18"], "reading the client's state 120 s after the cut does not return\n%s", firstBlocked(stacks))
		}
		if len(diffs) > 0 {
			if len(diffs) > 8 {
				diffs = append(diffs[:8], fmt.Sprintf("... and %d more", len(diffs)-8))
			}
			fail("resync.cache-differs", "round %d: 60 s after the cut the client has not converged to the database (%d + %d rows monitored):\n%s", round, big, small, strings.Join(diffs, "\n"))
		}
	}
	kit.Record(prop, "large|66000+1200", true, func() interface{} { return kase }, "large-database")
}
