package props

import (
	"fmt"
	"sort"
	"strings"

	"github.com/ovn-org/libovsdb/ovsdb"

	"verif/pbt/kit"
	"verif/pbt/refdb"
)

// mismatch describes a disagreement between the implementation and the model.
type mismatch struct {
	Class string
	Msg   string
}

func (m *mismatch) Error() string { return m.Class + ": " + m.Msg }

func mm(class, format string, args ...interface{}) *mismatch {
	return &mismatch{Class: class, Msg: fmt.Sprintf(format, args...)}
}

// l1 is a database under test together with its reference state.
type l1 struct {
	W   *kit.World
	DB  *kit.DB
	Ref kit.State
	// AllowThreeWay disables the exclusion of the known finding index-three-way.
	AllowThreeWay bool
	// steps counts executed transactions: every second one goes through the server's
	// transact handler instead of the harness' transcription of it.
	steps int
}

func newL1(w *kit.World) (*l1, error) {
	db, err := kit.NewDB(w)
	if err != nil {
		return nil, err
	}
	st := kit.State{}
	for _, t := range w.S.Tables {
		st[t.Name] = kit.Rows{}
	}
	return &l1{W: w, DB: db, Ref: st}, nil
}

// stepInfo reports what happened in a step, for labels and non-triviality rules.
type stepInfo struct {
	Model     refdb.TxnResult
	Impl      kit.TxnOutcome
	Ops       []kit.Op
	Pre       kit.State
	Tolerated string // non-empty: the implementation rejected a may-reject form
	Excluded  string // non-empty: not executed, shape of a known finding
}

var rfcErrors = map[string]bool{refdb.ErrConstraint: true, refdb.ErrRefIntegity: true, refdb.ErrTimedOut: true}

func firstError(rs []*ovsdb.OperationResult) int {
	for i, r := range rs {
		if r != nil && r.Error != "" {
			return i
		}
	}
	return -1
}

// step runs one transaction on the implementation and on the model and compares
// results, accept/reject decision and the complete resulting state.
func (l *l1) step(ops []kit.Op) (*stepInfo, *mismatch) {
	info := &stepInfo{Ops: ops, Pre: l.Ref}
	decoded, err := kit.DecodeOps(l.W.S, ops)
	if err != nil {
		return info, mm("harness.decode", "operations do not decode: %v\n%s", err, kit.OpsJSON(l.W.S, ops))
	}
	// known finding (index-three-way): the transaction-level duplicate check loses track
	// when three or more rows hold one index tuple at the same time inside a transaction
	// (its outcome then depends on Go's map order). Such transactions are excluded.
	if !l.AllowThreeWay {
		pre := refdb.Exec(l.W.S, l.Ref, ops, nil)
		if pre.MaxIndexMult >= 3 {
			info.Excluded = "index-overwrite:three-way-duplicate"
			info.Model = pre
			return info, nil
		}
		if pre.NegativeZero {
			info.Excluded = "domain:negative-zero"
			info.Model = pre
			return info, nil
		}
		if pre.LookupAfterDup {
			info.Excluded = "index-overwrite:lookup-after-transient-duplicate"
			info.Model = pre
			return info, nil
		}
		if pre.CrossTableDangling {
			info.Excluded = "cross-table-uuid:dangling-reference-to-a-uuid-of-another-table"
			info.Model = pre
			return info, nil
		}
	}
	l.steps++
	l.DB.ViaServer = l.steps%2 == 0
	out := l.DB.Transact(decoded)
	l.DB.ViaServer = false
	info.Impl = out
	assigned := func(i int) string {
		if i < len(out.Results) && out.Results[i] != nil {
			return out.Results[i].UUID.GoUUID
		}
		return ""
	}
	model := refdb.Exec(l.W.S, l.Ref, ops, assigned)
	info.Model = model

	post, err := l.DB.Snapshot()
	if err != nil {
		return info, mm("state.unreadable", "snapshot after transaction: %v", err)
	}
	implErr := firstError(out.Results)

	// --- shape of the reply ---
	if implErr >= 0 {
		// one result per operation up to and including the failing one (trailing nulls allowed),
		// or all results plus one extra error element
		for i := implErr + 1; i < len(out.Results); i++ {
			if out.Results[i] != nil {
				return info, mm("reply.shape", "result %d present after failing result %d: %s", i, implErr, kit.ResultsJSON(out.Results))
			}
		}
		if implErr > len(ops) || (implErr < len(ops) && len(out.Results) > len(ops)) {
			return info, mm("reply.shape", "%d results for %d operations: %s", len(out.Results), len(ops), kit.ResultsJSON(out.Results))
		}
	} else if len(out.Results) != len(ops) {
		return info, mm("reply.shape", "%d results for %d operations without error: %s", len(out.Results), len(ops), kit.ResultsJSON(out.Results))
	}
	if out.CommitErr != nil {
		return info, mm("commit.error-after-notify", "Database.Commit failed after Transact reported success (monitors were already notified): %v", out.CommitErr)
	}

	// --- the implementation rejected ---
	if implErr >= 0 {
		if d := kit.DiffStates(l.Ref, post); len(d) > 0 {
			return info, mm("atomicity.state-changed", "transaction failed (%s) but the database changed:\n%s", kit.ResultsJSON(out.Results), strings.Join(d, "\n"))
		}
		got := out.Results[implErr].Error
		switch {
		case implErr < len(ops) && implErr < len(model.Results) && model.Results[implErr].MayReject != "" && model.Results[implErr].Err == "":
			info.Tolerated = model.Results[implErr].MayReject
			return info, nil
		case model.FailedAt >= 0 && model.PreValidation:
			return info, nil
		case model.FailedAt >= 0:
			if implErr != model.FailedAt {
				return info, mm("result.error-position", "operation %d failed (%q), model expects operation %d to fail (%s %s)", implErr, got, model.FailedAt, model.Results[model.FailedAt].Err, model.Results[model.FailedAt].Detail)
			}
			want := model.Results[model.FailedAt].Err
			// at operation level only the outcome of wait is an RFC-defined verdict the
			// properties speak about; other failures are compared as "rejected"
			if want == refdb.ErrTimedOut && got != want {
				return info, mm("result.error-kind", "operation %d failed with %q, RFC 7047 prescribes %q (%s)", implErr, got, want, model.Results[model.FailedAt].Detail)
			}
			return info, nil
		case model.CommitErr != "":
			if implErr != len(ops) {
				return info, mm("result.error-position", "operation %d failed (%q: %s), model expects a commit-time %s (%s)", implErr, got, out.Results[implErr].Details, model.CommitErr, model.Detail)
			}
			okKind := false
			for _, c := range model.CommitCauses {
				okKind = okKind || c == got
			}
			if !okKind {
				return info, mm("result.error-kind", "commit rejected with %q, RFC 7047 prescribes %v (%s)", got, model.CommitCauses, model.Detail)
			}
			return info, nil
		default:
			if implErr == len(ops) && model.CommitMayReject != "" {
				info.Tolerated = model.CommitMayReject
				return info, nil
			}
			return info, mm("result.spurious-error", "result %d is error %q (%s) but RFC 7047 accepts the transaction", implErr, got, out.Results[implErr].Details)
		}
	}

	// --- the implementation accepted ---
	if model.FailedAt >= 0 {
		r := model.Results[model.FailedAt]
		return info, mm("result.missing-error", "transaction accepted but operation %d must fail: %s %s", model.FailedAt, r.Err, r.Detail)
	}
	if model.CommitErr != "" {
		return info, mm("commit.missing-error", "transaction committed but RFC 7047 rejects it: %s (%s)", model.CommitErr, model.Detail)
	}
	for i, op := range ops {
		r, mr := out.Results[i], model.Results[i]
		if r == nil {
			return info, mm("reply.shape", "result %d is null in a successful reply", i)
		}
		switch op.Op {
		case "insert":
			if r.UUID.GoUUID != mr.UUID {
				return info, mm("result.insert-uuid", "insert %d reported uuid %q, want %q", i, r.UUID.GoUUID, mr.UUID)
			}
		case "update", "mutate", "delete":
			if r.Count != mr.Count {
				return info, mm("result.count", "%s %d reported count %d, RFC 7047 gives %d (where %v)", op.Op, i, r.Count, mr.Count, op.Where)
			}
		case "select":
			if m := compareSelect(l.W, op, r.Rows, mr.Rows); m != nil {
				m.Msg = fmt.Sprintf("select %d: %s", i, m.Msg)
				return info, m
			}
		}
	}
	if d := kit.DiffStates(model.Post, post); len(d) > 0 {
		return info, mm("state.differs", "database after commit differs from RFC 7047 model:\n%s", strings.Join(d, "\n"))
	}
	if !out.ViaServer {
		if m := l.checkUpdate(info, post); m != nil {
			return info, m
		}
	}
	if m := l.checkIndexLookups(post); m != nil {
		return info, m
	}
	l.Ref = model.Post
	return info, nil
}

// checkIndexLookups: after every transaction (committed or not, reading or writing) each
// stored row is found by the values of each schema index of its table: executing
// operations must leave the database's indexes in agreement with its contents.
func (l *l1) checkIndexLookups(post kit.State) *mismatch {
	for _, tb := range l.W.S.Tables {
		for _, idx := range tb.Indexes {
			for _, u := range kit.SortedUUIDs(post[tb.Name]) {
				row := post[tb.Name][u]
				var conds []kit.Cond
				skip := false
				for _, c := range idx {
					// the all-zero uuid is never named in a condition (representation, DESIGN 2.4)
					skip = skip || hasZero(row[c])
					conds = append(conds, kit.Cond{Col: c, Fn: "==", Val: row[c]})
				}
				if skip {
					continue
				}
				dec, err := kit.DecodeOps(l.W.S, []kit.Op{{Op: "select", Table: tb.Name, Where: conds}})
				if err != nil {
					continue // a value the harness cannot name in a condition
				}
				got, err := l.DB.DB.List(l.DB.Name, tb.Name, dec[0].Where...)
				if err != nil {
					return mm("index.lookup-error", "List(%s where index %v of row %s): %v", tb.Name, idx, u, err)
				}
				if _, ok := got[u]; !ok || len(got) != 1 {
					return mm("index.lookup", "table %s: selecting by the values of index %v of stored row %s returns %d rows (found=%v)", tb.Name, idx, u, len(got), ok)
				}
			}
		}
	}
	return nil
}

// checkUpdate verifies the database.Update produced for a committed transaction (what
// monitors are notified with): applied to the state before the transaction with the
// harness' own update2 rules it must give the state after it, and it must mention
// nothing that did not change.
func (l *l1) checkUpdate(info *stepInfo, post kit.State) *mismatch {
	got := l.Ref.Clone()
	up := info.Impl.Update
	seen := map[string]bool{}
	for _, table := range up.GetUpdatedTables() {
		t := l.W.S.Table(table)
		if t == nil {
			return mm("update.unknown-table", "update mentions table %s", table)
		}
		if got[table] == nil {
			got[table] = kit.Rows{}
		}
		var firstErr *mismatch
		_ = up.ForEachRowUpdate(table, func(uuid string, ru ovsdb.RowUpdate2) error {
			if firstErr != nil {
				return nil
			}
			if seen[table+"/"+uuid] {
				firstErr = mm("update.duplicate-row", "row %s of %s reported twice", uuid, table)
				return nil
			}
			seen[table+"/"+uuid] = true
			old, exists := l.Ref[table][uuid]
			kinds := 0
			for _, p := range []*ovsdb.Row{ru.Insert, ru.Modify, ru.Delete} {
				if p != nil {
					kinds++
				}
			}
			if ru.Initial != nil || kinds != 1 {
				firstErr = mm("update.malformed", "row %s of %s: exactly one of insert/modify/delete expected: %+v", uuid, table, ru)
				return nil
			}
			switch {
			case ru.Insert != nil:
				if exists {
					firstErr = mm("update.insert-of-existing", "row %s of %s reported as insert but existed before", uuid, table)
					return nil
				}
				row, err := l.W.RowFromOvs(table, *ru.Insert)
				if err != nil {
					firstErr = mm("update.malformed", "%v", err)
					return nil
				}
				delete(row, "_uuid")
				got[table][uuid] = t.FillDefaults(row)
			case ru.Delete != nil:
				if !exists {
					firstErr = mm("update.delete-of-missing", "row %s of %s reported as delete but did not exist", uuid, table)
					return nil
				}
				delete(got[table], uuid)
			default:
				if !exists {
					firstErr = mm("update.modify-of-missing", "row %s of %s reported as modify but did not exist", uuid, table)
					return nil
				}
				diff, err := l.W.RowFromOvs(table, *ru.Modify)
				if err != nil {
					firstErr = mm("update.malformed", "%v", err)
					return nil
				}
				if len(diff) == 0 {
					firstErr = mm("update.empty-modify", "row %s of %s reported with an empty modification", uuid, table)
					return nil
				}
				nr, err := t.ApplyUpdate2(old, diff)
				if err != nil {
					firstErr = mm("update.malformed", "%v", err)
					return nil
				}
				for name := range diff {
					if name != "_uuid" && kit.EqVal(nr[name], old[name]) {
						firstErr = mm("update.unchanged-column", "row %s of %s: column %s reported as modified but did not change (%s)", uuid, table, name, old[name].Key())
						return nil
					}
				}
				got[table][uuid] = nr
			}
			return nil
		})
		if firstErr != nil {
			return firstErr
		}
	}
	if d := kit.DiffStates(post, got); len(d) > 0 {
		return mm("update.not-the-difference", "state before the transaction + reported update differs from the state after it:\n%s", strings.Join(d, "\n"))
	}
	return nil
}

func compareSelect(w *kit.World, op kit.Op, got []ovsdb.Row, want []kit.Row) *mismatch {
	t := w.S.Table(op.Table)
	gotRows := map[string]kit.Row{}
	for _, r := range got {
		row, err := w.RowFromOvs(op.Table, r)
		if err != nil {
			return mm("result.select-malformed", "%v", err)
		}
		u := ""
		if v, ok := row["_uuid"]; ok && len(v.K) == 1 {
			u = v.K[0].S
		}
		if u == "" {
			if op.HasColumns || len(op.Columns) > 0 {
				u = row.Key()
			} else {
				return mm("result.select-malformed", "row without _uuid: %v", r)
			}
		}
		gotRows[u] = row
	}
	projected := op.HasColumns || len(op.Columns) > 0
	wantRows := map[string]kit.Row{}
	for _, r := range want {
		u := ""
		if v, ok := r["_uuid"]; ok && len(v.K) == 1 {
			u = v.K[0].S
		} else {
			u = r.Key()
		}
		wantRows[u] = r
	}
	if len(got) != len(gotRows) && !projected {
		return mm("result.select-rows", "duplicate rows in result")
	}
	var keys []string
	for u := range wantRows {
		keys = append(keys, u)
	}
	for u := range gotRows {
		if _, ok := wantRows[u]; !ok {
			keys = append(keys, u)
		}
	}
	sort.Strings(keys)
	for _, u := range keys {
		g, gok := gotRows[u]
		wnt, wok := wantRows[u]
		if !gok {
			return mm("result.select-rows", "row %s missing from result (where %v)", u, op.Where)
		}
		if !wok {
			return mm("result.select-rows", "row %s returned but does not match (where %v)", u, op.Where)
		}
		for name, wv := range wnt {
			if name == "_uuid" {
				continue
			}
			gv, ok := g[name]
			if !ok {
				gv = t.Col(name).Default() // absent = default (libovsdb omits default-valued columns)
			}
			if !kit.EqVal(gv, wv) {
				return mm("result.select-value", "row %s column %s: got %s want %s", u, name, gv.Key(), wv.Key())
			}
		}
		if projected {
			for name := range g {
				if _, ok := wnt[name]; !ok {
					return mm("result.select-projection", "row %s carries column %s which was not selected", u, name)
				}
			}
		}
	}
	return nil
}

// opKinds renders the operation kinds of a transaction.
func opKinds(ops []kit.Op) string {
	var ks []string
	for _, o := range ops {
		ks = append(ks, o.Summary())
	}
	return strings.Join(ks, ";")
}
