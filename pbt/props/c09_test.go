package props

import (
	"encoding/json"
	"fmt"
	"reflect"
	"strings"
	"testing"

	"github.com/ovn-org/libovsdb/mapper"
	"github.com/ovn-org/libovsdb/model"
	"github.com/ovn-org/libovsdb/ovsdb"
	"pgregory.net/rapid"

	"verif/pbt/kit"
)

// fieldPtrs returns pointers to every mapped field of a run-time model.
func fieldPtrs(tb kit.Table, m interface{}) []interface{} {
	v := reflect.ValueOf(m).Elem()
	var out []interface{}
	for i := range tb.Cols {
		out = append(out, v.FieldByName(kit.FieldName(i)).Addr().Interface())
	}
	return out
}

// narrowInts keeps integers inside +-2^53 (known finding int53: JSON numbers are decoded
// as float64 before conversion to int).
func narrowInts(v kit.Val) (kit.Val, bool) {
	changed := false
	fix := func(as []kit.Atom) {
		for i, a := range as {
			if a.T == kit.TInt && (a.I > 1<<53 || a.I < -(1<<53)) {
				as[i] = kit.Int(a.I >> 11)
				changed = true
			}
		}
	}
	out := v.Clone()
	fix(out.K)
	fix(out.V)
	if out.M {
		out = kit.MapOf(interleaveAtoms(out.K, out.V)...)
	} else {
		out = kit.SetOf(out.K...)
	}
	return out, changed
}

func interleaveAtoms(k, v []kit.Atom) []kit.Atom {
	out := make([]kit.Atom, 0, 2*len(k))
	for i := range k {
		out = append(out, k[i], v[i])
	}
	return out
}

type c09Case struct {
	Schema json.RawMessage `json:"schema"`
	Table  string          `json:"table"`
	Row    kit.Row         `json:"row"`
	Wire   string          `json:"wire,omitempty"`
}

func TestC09(t *testing.T) {
	rapid.Check(t, func(t *rapid.T) {
		p := kit.ProfileCodec
		p.MaxTables = 1
		p.Constraints = false
		s := kit.GenSchema(t, p)
		w, err := kit.BuildWorld(s, nil)
		if err != nil {
			kit.Fail(t, "C09", "harness.world", map[string]interface{}{"schema": json.RawMessage(s.JSON())}, "the mapper rejects run-time models derived from the schema: %v", err)
		}
		tb := s.Tables[0]
		pool := &kit.Pool{RowUUIDs: map[string][]string{tb.Name: {kit.MkUUID(1), kit.MkUUID(2)}}, Dangling: []string{kit.MkUUID(3)}, Wide: true}
		row := kit.Row{}
		nontrivial := false
		excluded := 0
		for _, c := range tb.Cols {
			v := kit.GenVal(t, c, pool)
			if nv, ch := narrowInts(v); ch {
				v = nv
				excluded++
			}
			row[c.Name] = v
			if c.Shape() != kit.ShScalar && !c.IsDefault(v) {
				nontrivial = true
			}
		}
		if excluded > 0 {
			kit.LabelN("C09", "excluded_known:int53", excluded)
		}
		kase := c09Case{Schema: s.JSON(), Table: tb.Name, Row: row}
		uuid := kit.MkUUID(7)
		m := w.ModelFromRow(tb.Name, uuid, row)
		info, err := w.DBModel.NewModelInfo(m)
		if err != nil {
			kit.Fail(t, "C09", "mapper.info", kase, "NewModelInfo: %v", err)
		}
		mp := w.DBModel.Mapper

		// full row: every field requested explicitly
		full, err := mp.NewRow(info, fieldPtrs(tb, m)...)
		if err != nil {
			kit.Fail(t, "C09", "mapper.newrow", kase, "NewRow(all fields): %v", err)
		}
		if len(full) != len(tb.Cols) {
			kit.Fail(t, "C09", "mapper.newrow", kase, "NewRow(all fields) produced %d columns, want %d: %v", len(full), len(tb.Cols), full)
		}
		text, err := json.Marshal(full)
		if err != nil {
			kit.Fail(t, "C09", "mapper.encode", kase, "row does not encode: %v", err)
		}
		kase.Wire = string(text)
		var back ovsdb.Row
		if err := json.Unmarshal(text, &back); err != nil {
			kit.Fail(t, "C09", "mapper.decode", kase, "row %s does not decode: %v", text, err)
		}
		// into a model pre-filled with sentinels
		sentinel := kit.Row{}
		for _, c := range tb.Cols {
			sv, _ := narrowInts(kit.GenVal(t, c, pool))
			sentinel[c.Name] = sv
		}
		target := w.ModelFromRow(tb.Name, "sentinel-uuid", sentinel)
		tinfo, _ := w.DBModel.NewModelInfo(target)
		if err := mp.GetRowData(&back, tinfo); err != nil {
			kit.Fail(t, "C09", "mapper.getrowdata", kase, "GetRowData of %s: %v", text, err)
		}
		_, got, err := w.RowFromModel(tb.Name, target)
		if err != nil {
			kit.Fail(t, "C09", "mapper.roundtrip", kase, "model unreadable after GetRowData: %v", err)
		}
		for _, c := range tb.Cols {
			if !kit.EqVal(got[c.Name], row[c.Name]) {
				kit.Fail(t, "C09", "mapper.roundtrip", kase, "column %s (%s %s): sent %s, got back %s via %s", c.Name, c.Shape(), c.Key.T, row[c.Name].Key(), got[c.Name].Key(), text)
			}
		}
		// CreateModel path
		cm, err := model.CreateModel(w.DBModel, tb.Name, &back, uuid)
		if err != nil {
			kit.Fail(t, "C09", "mapper.createmodel", kase, "CreateModel: %v", err)
		}
		cu, crow, err := w.RowFromModel(tb.Name, cm)
		if err != nil || cu != uuid {
			kit.Fail(t, "C09", "mapper.createmodel", kase, "CreateModel result unreadable: %v uuid %q", err, cu)
		}
		for _, c := range tb.Cols {
			if !kit.EqVal(crow[c.Name], row[c.Name]) {
				kit.Fail(t, "C09", "mapper.roundtrip", kase, "CreateModel: column %s: sent %s, got %s", c.Name, row[c.Name].Key(), crow[c.Name].Key())
			}
		}

		// two models decoded from one row own their values: writing through every pointer, slice
		// and map of the first one changes neither the second one nor what the row decodes to next
		scribbleThrough(target)
		_, crow2, _ := w.RowFromModel(tb.Name, cm)
		third := w.ModelFromRow(tb.Name, "sentinel-uuid", sentinel)
		thinfo, _ := w.DBModel.NewModelInfo(third)
		if err := mp.GetRowData(&back, thinfo); err != nil {
			kit.Fail(t, "C09", "mapper.getrowdata", kase, "GetRowData of %s a second time: %v", text, err)
		}
		_, trow, _ := w.RowFromModel(tb.Name, third)
		for _, c := range tb.Cols {
			if !kit.EqVal(crow2[c.Name], row[c.Name]) {
				kit.Fail(t, "C09", "mapper.shared-value", kase, "column %s: after writing through the fields of another model decoded from the same row, the model made by CreateModel holds %s, it held %s", c.Name, crow2[c.Name].Key(), row[c.Name].Key())
			}
			if !kit.EqVal(trow[c.Name], row[c.Name]) {
				kit.Fail(t, "C09", "mapper.shared-value", kase, "column %s: after writing through the fields of an earlier decoded model, the row decodes to %s, want %s", c.Name, trow[c.Name].Key(), row[c.Name].Key())
			}
		}

		// CreateModel from rows that list only some columns, or none at all (the update2 insert of
		// a row whose columns all hold defaults): the uuid passed separately is the model's
		// uuid, listed columns arrive, the others hold their defaults
		for _, keep := range []int{0, rapid.IntRange(0, len(tb.Cols)).Draw(t, "createmodelcols")} {
			sparse := ovsdb.Row{}
			n := 0
			for _, c := range tb.Cols {
				if n < keep {
					if v, ok := back[c.Name]; ok {
						sparse[c.Name] = v
					}
					n++
				}
			}
			sm, err := model.CreateModel(w.DBModel, tb.Name, &sparse, uuid)
			if err != nil {
				kit.Fail(t, "C09", "mapper.createmodel", kase, "CreateModel from a row with %d of %d columns: %v", len(sparse), len(tb.Cols), err)
			}
			su, srow, err := w.RowFromModel(tb.Name, sm)
			if err != nil || su != uuid {
				kit.Fail(t, "C09", "mapper.createmodel", kase, "CreateModel from a row with %d columns: model uuid %q, want %q (%v)", len(sparse), su, uuid, err)
			}
			for _, c := range tb.Cols {
				want := c.Default()
				if _, ok := sparse[c.Name]; ok {
					want = row[c.Name]
				}
				if !kit.EqVal(srow[c.Name], want) && !(c.Key.T == kit.TUUID && c.Shape() == kit.ShScalar && c.IsDefault(want)) {
					kit.Fail(t, "C09", "mapper.roundtrip", kase, "CreateModel from a sparse row: column %s is %s, want %s", c.Name, srow[c.Name].Key(), want.Key())
				}
			}
		}

		// default row: default-valued columns are skipped and must leave the sentinels untouched;
		// the others must arrive
		part, err := mp.NewRow(info)
		if err != nil {
			kit.Fail(t, "C09", "mapper.newrow", kase, "NewRow: %v", err)
		}
		ptext, _ := json.Marshal(part)
		var pback ovsdb.Row
		if err := json.Unmarshal(ptext, &pback); err != nil {
			kit.Fail(t, "C09", "mapper.decode", kase, "row %s does not decode: %v", ptext, err)
		}
		// drop a drawn subset of columns as well: absent columns leave fields untouched
		for _, c := range tb.Cols {
			if rapid.IntRange(0, 3).Draw(t, "dropcol") == 0 {
				delete(pback, c.Name)
			}
		}
		// sometimes a row of the same table is rejected first (one column of the full row gets a
		// value of the wrong kind): what that conversion had got through must not show up in the
		// sparse row converted next
		if len(tb.Cols) > 1 && rapid.Bool().Draw(t, "afterrejected") {
			bad := ovsdb.Row{}
			for k, v := range back {
				bad[k] = v
			}
			bc := tb.Cols[rapid.IntRange(0, len(tb.Cols)-1).Draw(t, "rejectedcol")]
			bad[bc.Name] = map[string]interface{}{"not": "a value"}
			scratch := w.ModelFromRow(tb.Name, "scratch-uuid", sentinel)
			sinfo, _ := w.DBModel.NewModelInfo(scratch)
			if err := mp.GetRowData(&bad, sinfo); err == nil {
				kit.Fail(t, "C09", "mapper.wrongtype-accepted", kase, "GetRowData accepted a JSON object as the value of column %s", bc.Name)
			}
			_, _ = model.CreateModel(w.DBModel, tb.Name, &bad, uuid)
			kit.Label("C09", "sparse-row-after-a-rejected-row")
		}
		target2 := w.ModelFromRow(tb.Name, "sentinel-uuid", sentinel)
		t2info, _ := w.DBModel.NewModelInfo(target2)
		if err := mp.GetRowData(&pback, t2info); err != nil {
			kit.Fail(t, "C09", "mapper.getrowdata", kase, "GetRowData of %s: %v", ptext, err)
		}
		su, got2, _ := w.RowFromModel(tb.Name, target2)
		if su != "sentinel-uuid" {
			kit.Fail(t, "C09", "mapper.untouched", kase, "_uuid field overwritten by a row without _uuid handling: %q", su)
		}
		for _, c := range tb.Cols {
			_, present := pback[c.Name]
			want := sentinel[c.Name]
			if present {
				want = row[c.Name]
			} else if _, sent := part[c.Name]; !sent && !c.IsDefault(row[c.Name]) && !(c.Key.T == kit.TUUID && c.Shape() == kit.ShScalar) {
				kit.Fail(t, "C09", "mapper.newrow", kase, "NewRow skipped column %s although its value %s is not the default", c.Name, row[c.Name].Key())
			}
			if !kit.EqVal(got2[c.Name], want) {
				kit.Fail(t, "C09", "mapper.untouched", kase, "column %s (present in row: %v): field is %s, want %s", c.Name, present, got2[c.Name].Key(), want.Key())
			}
		}

		// wrong Go type or wrong wire kind => error, never a conversion
		c := tb.Cols[rapid.IntRange(0, len(tb.Cols)-1).Draw(t, "negcol")]
		cs := w.DBSchema.Table(tb.Name).Column(c.Name)
		wrongNative := []interface{}{int(1), float64(1.5), true, "x", []int{1}, []string{"x"}, []float64{1}, []bool{true}, map[string]string{"a": "b"}, map[int]int{1: 1}, new(int), new(string), new(float64), new(bool), int64(1), uint(1), float32(1)}
		wn := wrongNative[rapid.IntRange(0, len(wrongNative)-1).Draw(t, "wrongnative")]
		if reflect.TypeOf(wn) != c.GoType() {
			if v, err := ovsdb.NativeToOvs(cs, wn); err == nil {
				kit.Fail(t, "C09", "mapper.wrongtype-accepted", kase, "NativeToOvs(%s %s, %T) = %v, want an error", c.Name, c.GoType(), wn, v)
			}
			holder := w.ModelFromRow(tb.Name, uuid, row)
			hinfo, _ := w.DBModel.NewModelInfo(holder)
			if err := hinfo.SetField(c.Name, wn); err == nil {
				kit.Fail(t, "C09", "mapper.wrongtype-accepted", kase, "SetField(%s %s, %T) accepted", c.Name, c.GoType(), wn)
			}
		}
		// a model whose field for the column has another type - also one that the column's
		// native value could be assigned to (interface{}, a defined type over the same
		// underlying type) - is refused by the schema-driven type check
		base := w.Types[tb.Name].Elem()
		var nearMiss []reflect.Type
		nearMiss = append(nearMiss, reflect.TypeOf((*interface{})(nil)).Elem())
		for _, d := range definedTypes {
			if d.Kind() == c.GoType().Kind() && d.ConvertibleTo(c.GoType()) && d != c.GoType() && sameUnderlying(d, c.GoType()) {
				nearMiss = append(nearMiss, d)
			}
		}
		nearMiss = append(nearMiss, reflect.TypeOf(struct{}{}))
		for _, wrongT := range nearMiss {
			fields := make([]reflect.StructField, 0, base.NumField())
			for i := 0; i < base.NumField(); i++ {
				f := base.Field(i)
				if f.Tag.Get("ovsdb") == c.Name {
					f.Type = wrongT
				}
				fields = append(fields, f)
			}
			obj := reflect.New(reflect.StructOf(fields)).Interface()
			if _, err := mapper.NewInfo(tb.Name, w.DBSchema.Table(tb.Name), obj); err == nil {
				kit.Fail(t, "C09", "mapper.wrongfieldtype-accepted", kase, "a model whose field for column %s (%s) has type %s passes the schema-driven type check", c.Name, c.GoType(), wrongT)
			}
		}
		for _, ww := range wrongWire(c) {
			if v, err := ovsdb.OvsToNative(cs, ww); err == nil {
				kit.Fail(t, "C09", "mapper.wrongkind-accepted", kase, "OvsToNative(%s: %s of %s, %#v) = %#v, want an error", c.Name, c.Shape(), c.Key.T, ww, v)
			}
		}
		kit.Record("C09", tableSig(tb), nontrivial, func() interface{} { return kase })
	})
}

func tableSig(tb kit.Table) string {
	var parts []string
	for _, c := range tb.Cols {
		p := fmt.Sprintf("%s:%d:%d:%s", c.Shape(), c.Min, c.Max, c.Key.T)
		if c.Value != nil {
			p += ":" + c.Value.T.String()
		}
		if len(c.Key.Enum) > 0 {
			p += ":enum"
		}
		parts = append(parts, p)
	}
	return strings.Join(parts, ",")
}

// defined types over the native types of columns.
type (
	dInt   int
	dReal  float64
	dBool  bool
	dStr   string
	dInts  []int
	dStrs  []string
	dReals []float64
	dPtrI  *int
	dPtrS  *string
	dMapSS map[string]string
	dMapSI map[string]int
	dMapIS map[int]string
	dMapII map[int]int
	dMapSR map[string]float64
	dMapSB map[string]bool
	dBools []bool
	dPtrR  *float64
	dPtrB  *bool
)

var definedTypes = []reflect.Type{reflect.TypeOf(dInt(0)), reflect.TypeOf(dReal(0)), reflect.TypeOf(dBool(false)), reflect.TypeOf(dStr("")),
	reflect.TypeOf(dInts(nil)), reflect.TypeOf(dStrs(nil)), reflect.TypeOf(dReals(nil)), reflect.TypeOf(dPtrI(nil)), reflect.TypeOf(dPtrS(nil)),
	reflect.TypeOf(dMapSS(nil)), reflect.TypeOf(dMapSI(nil)), reflect.TypeOf(dMapIS(nil)), reflect.TypeOf(dMapII(nil)), reflect.TypeOf(dMapSR(nil)),
	reflect.TypeOf(dMapSB(nil)), reflect.TypeOf(dBools(nil)), reflect.TypeOf(dPtrR(nil)), reflect.TypeOf(dPtrB(nil))}

// sameUnderlying: d is a defined type whose underlying type is the (unnamed or predeclared) type t.
func sameUnderlying(d, t reflect.Type) bool {
	if d.Kind() != t.Kind() {
		return false
	}
	switch d.Kind() {
	case reflect.Slice, reflect.Ptr:
		return d.Elem() == t.Elem()
	case reflect.Map:
		return d.Key() == t.Key() && d.Elem() == t.Elem()
	default:
		return true
	}
}

// wrongWire lists decoded wire values of a kind that does not fit the column.
func wrongWire(c kit.Col) []interface{} {
	otherAtoms := func(t kit.AT) []interface{} {
		var out []interface{}
		if t != kit.TInt && t != kit.TReal {
			out = append(out, float64(1))
		}
		if t != kit.TStr {
			out = append(out, "x")
		}
		if t != kit.TBool {
			out = append(out, true)
		}
		if t != kit.TUUID {
			out = append(out, ovsdb.UUID{GoUUID: kit.MkUUID(1)})
		}
		return out
	}
	var out []interface{}
	switch c.Shape() {
	case kit.ShMap:
		out = append(out, ovsdb.OvsSet{GoSet: []interface{}{}}, "x", float64(1), true)
		for _, a := range otherAtoms(c.Key.T) {
			out = append(out, ovsdb.OvsMap{GoMap: map[interface{}]interface{}{a: goodAtom(c.Value.T)}})
		}
		for _, a := range otherAtoms(c.Value.T) {
			out = append(out, ovsdb.OvsMap{GoMap: map[interface{}]interface{}{goodAtom(c.Key.T): a}})
		}
	case kit.ShScalar:
		out = append(out, ovsdb.OvsMap{GoMap: map[interface{}]interface{}{}}, ovsdb.OvsSet{GoSet: []interface{}{}}, ovsdb.OvsSet{GoSet: []interface{}{goodAtom(c.Key.T), goodAtom(c.Key.T)}})
		out = append(out, otherAtoms(c.Key.T)...)
	case kit.ShOpt:
		out = append(out, ovsdb.OvsMap{GoMap: map[interface{}]interface{}{}}, ovsdb.OvsSet{GoSet: []interface{}{goodAtom(c.Key.T), goodAtom(c.Key.T)}})
		out = append(out, otherAtoms(c.Key.T)...)
		for _, a := range otherAtoms(c.Key.T) {
			out = append(out, ovsdb.OvsSet{GoSet: []interface{}{a}})
		}
	default:
		out = append(out, ovsdb.OvsMap{GoMap: map[interface{}]interface{}{}})
		out = append(out, otherAtoms(c.Key.T)...)
		for _, a := range otherAtoms(c.Key.T) {
			out = append(out, ovsdb.OvsSet{GoSet: []interface{}{goodAtom(c.Key.T), a}})
		}
	}
	return out
}

func goodAtom(t kit.AT) interface{} {
	switch t {
	case kit.TInt, kit.TReal:
		return float64(1)
	case kit.TStr:
		return "x"
	case kit.TBool:
		return true
	default:
		return ovsdb.UUID{GoUUID: kit.MkUUID(1)}
	}
}

// scribbleThrough writes through every pointer, slice element and map entry reachable from
// the fields of a model (without replacing the pointers, slices and maps themselves).
func scribbleThrough(m interface{}) {
	v := reflect.ValueOf(m)
	if v.Kind() == reflect.Ptr {
		v = v.Elem()
	}
	var scribble func(x reflect.Value)
	scribble = func(x reflect.Value) {
		switch x.Kind() {
		case reflect.Bool:
			x.SetBool(!x.Bool())
		case reflect.Int, reflect.Int64:
			x.SetInt(x.Int() + 7)
		case reflect.Float64:
			x.SetFloat(x.Float() + 0.75)
		case reflect.String:
			x.SetString(x.String() + "~scribbled")
		}
	}
	for i := 0; i < v.NumField(); i++ {
		f := v.Field(i)
		if !f.CanSet() {
			continue
		}
		switch f.Kind() {
		case reflect.Ptr:
			if !f.IsNil() {
				scribble(f.Elem())
			}
		case reflect.Slice:
			for j := 0; j < f.Len(); j++ {
				scribble(f.Index(j))
			}
		case reflect.Map:
			for _, k := range f.MapKeys() {
				nv := reflect.New(f.Type().Elem()).Elem()
				nv.Set(f.MapIndex(k))
				scribble(nv)
				f.SetMapIndex(k, nv)
			}
		}
	}
}
