package props

import "reflect"

func reflectElem(m interface{}) reflect.Value { return reflect.ValueOf(m).Elem() }

// scribbleValue overwrites a field in place (through shared slices, maps and pointers if any).
func scribbleValue(fv reflect.Value) {
	switch fv.Kind() {
	case reflect.String:
		fv.SetString("scribbled")
	case reflect.Int:
		fv.SetInt(424242)
	case reflect.Float64:
		fv.SetFloat(4242.42)
	case reflect.Bool:
		fv.SetBool(!fv.Bool())
	case reflect.Ptr:
		if !fv.IsNil() {
			scribbleValue(fv.Elem())
		}
	case reflect.Slice:
		for i := 0; i < fv.Len(); i++ {
			scribbleValue(fv.Index(i))
		}
	case reflect.Map:
		for _, k := range fv.MapKeys() {
			e := reflect.New(fv.Type().Elem()).Elem()
			scribbleValue(e)
			fv.SetMapIndex(k, e)
		}
	}
}
