package props

import "reflect"

func reflectElem(m interface{}) reflect.Value { return reflect.ValueOf(m).Elem() }

// scribbleValue overwrites a field in place (through shared slices, maps and pointers if any).
func scribbleValue(fv reflect.Value) {
	switch fv.Kind() {
	case reflect.String:
		fv.SetString("scribbled")
	case reflect.Int:
		fv.SetInt(424242)
	case reflect.Float64:
		fv.SetFloat(4242.42)
	case reflect.Bool:
		fv.SetBool(!fv.Bool())
	case reflect.Ptr:
		if !fv.IsNil() {
			scribbleValue(fv.Elem())
		}
	case reflect.Slice:
		for i := 0; i < fv.Len(); i++ {
			scribbleValue(fv.Index(i))
		}
	case reflect.Map:
		for _, k := range fv.MapKeys() {
			e := reflect.New(fv.Type().Elem()).Elem()
			scribbleValue(e)
			fv.SetMapIndex(k, e)
		}
	}
}

// newSlicePtr returns a pointer to a nil slice of the given model pointer type (for List).
func newSlicePtr(ptrType reflect.Type) interface{} {
	return reflect.New(reflect.SliceOf(ptrType)).Interface()
}

// forEachElem calls f for every element of the slice behind p.
func forEachElem(p interface{}, f func(interface{})) {
	s := reflect.ValueOf(p).Elem()
	for i := 0; i < s.Len(); i++ {
		f(s.Index(i).Interface())
	}
}

// makePredicate builds a func(*T) bool for a run-time model type.
func makePredicate(ptrType reflect.Type, f func(interface{}) bool) interface{} {
	ft := reflect.FuncOf([]reflect.Type{ptrType}, []reflect.Type{reflect.TypeOf(true)}, false)
	return reflect.MakeFunc(ft, func(args []reflect.Value) []reflect.Value {
		return []reflect.Value{reflect.ValueOf(f(args[0].Interface()))}
	}).Interface()
}
