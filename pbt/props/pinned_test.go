package props

// Pinned inputs for repaired defects (TestFixed*: must pass) and for open known
// findings (TestFinding*: fail with their class while the defect is present).

import (
	"encoding/json"
	"fmt"
	"runtime"
	"strings"
	"testing"

	"github.com/ovn-org/libovsdb/ovsdb"

	"verif/pbt/kit"
)

type pinnedDB struct {
	t  *testing.T
	s  kit.Schema
	db *kit.DB
}

func newPinned(t *testing.T, schema string) *pinnedDB {
	t.Helper()
	kit.PinUUIDs(1)
	s, err := parseSchemaJSON([]byte(schema))
	if err != nil {
		t.Fatalf("schema: %v", err)
	}
	w, err := kit.BuildWorld(s, nil)
	if err != nil {
		t.Fatalf("world: %v", err)
	}
	db, err := kit.NewDB(w)
	if err != nil {
		t.Fatalf("db: %v", err)
	}
	return &pinnedDB{t: t, s: s, db: db}
}

// txn runs a transaction given as JSON text and returns the results as JSON plus the error flag.
func (p *pinnedDB) txn(text string) (string, bool, []*ovsdb.OperationResult) {
	p.t.Helper()
	var raw []json.RawMessage
	if err := json.Unmarshal([]byte(text), &raw); err != nil {
		p.t.Fatalf("bad pinned transaction %s: %v", text, err)
	}
	ops, err := kit.DecodeRawOps(raw)
	if err != nil {
		p.t.Fatalf("pinned transaction does not decode: %v", err)
	}
	out, pval, stack := transactSafely(p.db, ops)
	if pval != nil {
		p.t.Fatalf("VERIF-FAIL property=C19 class=panic.%s: %s panicked: %v", panicSite(stack), text, pval)
	}
	failed := firstError(out.Results) >= 0 || out.CommitErr != nil
	js := kit.ResultsJSON(out.Results)
	if out.CommitErr != nil {
		js += " commit error: " + out.CommitErr.Error()
	}
	return js, failed, out.Results
}

func (p *pinnedDB) mustOK(text string) []*ovsdb.OperationResult {
	p.t.Helper()
	js, failed, rs := p.txn(text)
	if failed {
		p.t.Fatalf("setup transaction %s failed: %s", text, js)
	}
	return rs
}

func (p *pinnedDB) state() kit.State {
	st, err := p.db.Snapshot()
	if err != nil {
		p.t.Fatalf("snapshot: %v", err)
	}
	return st
}

func u(n int) string { return kit.MkUUID(n) }

const schemaPlain = `{"name":"DB","version":"1.0.0","tables":{"T0":{"isRoot":true,"indexes":[["name"]],"columns":{"name":{"type":"string"},"n":{"type":"integer"},"tags":{"type":{"key":"string","min":0,"max":"unlimited"}},"kv":{"type":{"key":"string","value":"string","min":0,"max":"unlimited"}},"r":{"type":"real"}}}}}`

func TestFixedC03LaterOpsSeeEarlier(t *testing.T) {
	p := newPinned(t, schemaPlain)
	p.mustOK(fmt.Sprintf(`[{"op":"insert","table":"T0","uuid":"%s","row":{"name":"a","n":0}}]`, u(1)))
	// a later operation whose condition matches the old value of a row changed earlier
	js, failed, rs := p.txn(`[{"op":"mutate","table":"T0","where":[],"mutations":[["n","+=",2]]},{"op":"select","table":"T0","where":[["n","==",0]]},{"op":"select","table":"T0","where":[["n","==",2]]}]`)
	if failed || len(rs[1].Rows) != 0 || len(rs[2].Rows) != 1 {
		t.Fatalf("VERIF-FAIL property=C03 class=result.spurious-error: later operations do not see the mutation: %s", js)
	}
	// delete + read of the deleted row + insert of the same index value
	js, failed, _ = p.txn(fmt.Sprintf(`[{"op":"insert","table":"T0","uuid":"%s","row":{"name":"a"}},{"op":"select","table":"T0","where":[["_uuid","==",["uuid","%s"]]]},{"op":"delete","table":"T0","where":[["_uuid","==",["uuid","%s"]]]},{"op":"select","table":"T0","where":[["_uuid","==",["uuid","%s"]]]}]`, u(2), u(1), u(1), u(1)))
	if failed {
		t.Fatalf("VERIF-FAIL property=C06 class=result.spurious-error: delete + insert of the same index value rejected: %s", js)
	}
}

func TestFixedC08ConditionSets(t *testing.T) {
	p := newPinned(t, schemaPlain)
	p.mustOK(fmt.Sprintf(`[{"op":"insert","table":"T0","uuid":"%s","row":{"name":"a","tags":["set",["x","y"]],"kv":["map",[["k","v"]]]}},{"op":"insert","table":"T0","uuid":"%s","row":{"name":"b"}}]`, u(1), u(2)))
	for _, c := range []struct {
		where string
		want  int
	}{
		{`["tags","==",["set",["y","x"]]]`, 1}, {`["tags","==",["set",[]]]`, 1}, {`["tags","!=",["set",["y","x"]]]`, 1},
		{`["kv","==",["map",[]]]`, 1}, {`["tags","excludes",["set",["x","z"]]]`, 1}, {`["tags","excludes",["set",[]]]`, 2},
		{`["tags","excludes",["set",["z"]]]`, 2}, {`["kv","excludes",["map",[["k","v"],["q","w"]]]]`, 1}, {`["kv","excludes",["map",[["k","other"]]]]`, 2},
		{`["tags","includes",["set",[]]]`, 2}, {`["tags","includes",["set",["x"]]]`, 1},
	} {
		js, failed, rs := p.txn(`[{"op":"select","table":"T0","where":[` + c.where + `]}]`)
		if failed || len(rs[0].Rows) != c.want {
			t.Errorf("VERIF-FAIL property=C08 class=result.select-rows: where %s selects %d rows, want %d: %s", c.where, len(rs[0].Rows), c.want, js)
		}
	}
}

func TestFixedC15MapKeyName(t *testing.T) {
	p := newPinned(t, `{"name":"DB","version":"1.0.0","tables":{"T0":{"isRoot":true,"columns":{"m":{"type":{"key":"uuid","value":"integer","min":0,"max":"unlimited"}}}}}}`)
	js, failed, rs := p.txn(`[{"op":"insert","table":"T0","uuid-name":"n0","row":{"m":["map",[[["named-uuid","n0"],1]]]}},{"op":"mutate","table":"T0","where":[],"mutations":[["m","delete",["set",[["named-uuid","n0"]]]]]},{"op":"mutate","table":"T0","where":[],"mutations":[["m","insert",["map",[[["named-uuid","n0"],2]]]]]}]`)
	if failed {
		t.Fatalf("VERIF-FAIL property=C15 class=result.spurious-error: %s", js)
	}
	id := rs[0].UUID.GoUUID
	st := p.state()
	if got := st["T0"][id]["m"].Key(); got != "{u"+id+"=i2}" {
		t.Fatalf("VERIF-FAIL property=C15 class=state.differs: map key name not resolved consistently: %s", got)
	}
}

func TestFixedC03MapInsertTwice(t *testing.T) {
	p := newPinned(t, schemaPlain)
	p.mustOK(fmt.Sprintf(`[{"op":"insert","table":"T0","uuid":"%s","row":{"name":"a"}}]`, u(1)))
	js, failed, _ := p.txn(`[{"op":"mutate","table":"T0","where":[],"mutations":[["kv","insert",["map",[["a","1"],["b","1"]]]],["kv","insert",["map",[["c","1"]]]]]}]`)
	if got := p.state()["T0"][u(1)]["kv"].Key(); failed || got != "{sa=s1,sb=s1,sc=s1}" {
		t.Fatalf("VERIF-FAIL property=C03 class=state.differs: two insert mutations on an empty map give %s (%s)", got, js)
	}
}

const schemaRefs = `{"name":"DB","version":"1.0.0","tables":{
 "P":{"isRoot":true,"columns":{"name":{"type":"string"},"kids":{"type":{"key":{"type":"uuid","refTable":"C","refType":"strong"},"min":0,"max":"unlimited"}},"byname":{"type":{"key":"string","value":{"type":"uuid","refTable":"C","refType":"strong"},"min":0,"max":"unlimited"}},"weak":{"type":{"key":{"type":"uuid","refTable":"C","refType":"weak"},"min":0,"max":"unlimited"}},"wopt":{"type":{"key":{"type":"uuid","refTable":"C","refType":"weak"},"min":0,"max":1}}}},
 "C":{"isRoot":true,"columns":{"name":{"type":"string"}}},
 "G":{"columns":{"name":{"type":"string"},"weak":{"type":{"key":{"type":"uuid","refTable":"C","refType":"weak"},"min":0,"max":"unlimited"}}}},
 "H":{"isRoot":true,"columns":{"g":{"type":{"key":{"type":"uuid","refTable":"G","refType":"strong"},"min":0,"max":"unlimited"}}}}}}`

func TestFixedC04RefAliasing(t *testing.T) {
	p := newPinned(t, schemaRefs)
	p.mustOK(fmt.Sprintf(`[{"op":"insert","table":"C","uuid":"%s","row":{"name":"c"}},{"op":"insert","table":"P","uuid":"%s","row":{"name":"p1","kids":["uuid","%s"]}},{"op":"insert","table":"P","uuid":"%s","row":{"name":"p2","kids":["uuid","%s"]}}]`, u(1), u(2), u(1), u(3), u(1)))
	// a failing transaction that touches the references of c
	if js, failed, _ := p.txn(fmt.Sprintf(`[{"op":"update","table":"P","where":[["_uuid","==",["uuid","%s"]]],"row":{"kids":["set",[]]}},{"op":"insert","table":"NoSuch","row":{}}]`, u(2))); !failed {
		t.Fatalf("setup: %s", js)
	}
	for i := 0; i < 3; i++ {
		_, _, _ = p.txn(fmt.Sprintf(`[{"op":"update","table":"P","where":[["_uuid","==",["uuid","%s"]]],"row":{"kids":["set",[]]}},{"op":"wait","table":"C","timeout":0,"until":"==","columns":["name"],"rows":[],"where":[["_uuid","==",["uuid","%s"]]]}]`, u(2), u(1)))
	}
	// deleting both parents and the child must work
	js, failed, _ := p.txn(`[{"op":"delete","table":"P","where":[]},{"op":"delete","table":"C","where":[]}]`)
	if failed {
		t.Fatalf("VERIF-FAIL property=C04 class=result.spurious-error: failed transactions corrupted the reference index: %s", js)
	}
}

func TestFixedC04MapValueRefs(t *testing.T) {
	p := newPinned(t, schemaRefs)
	p.mustOK(fmt.Sprintf(`[{"op":"insert","table":"C","uuid":"%s","row":{"name":"c"}},{"op":"insert","table":"P","uuid":"%s","row":{"name":"p","byname":["map",[["a",["uuid","%s"]]]]}}]`, u(1), u(2), u(1)))
	// one pair removed, two pairs added, all pointing to the same row: c stays referenced
	p.mustOK(fmt.Sprintf(`[{"op":"update","table":"P","where":[],"row":{"byname":["map",[["b",["uuid","%s"]],["c",["uuid","%s"]]]]}}]`, u(1), u(1)))
	if js, failed, _ := p.txn(`[{"op":"delete","table":"C","where":[]}]`); !failed || !strings.Contains(js, "referential integrity violation") {
		t.Fatalf("VERIF-FAIL property=C04 class=commit.missing-error: deleting a row still referenced through two map values was accepted: %s", js)
	}
	// and deleting the referrer first, then the row, works
	js, failed, _ := p.txn(`[{"op":"delete","table":"P","where":[]},{"op":"delete","table":"C","where":[]}]`)
	if failed {
		t.Fatalf("VERIF-FAIL property=C04 class=result.spurious-error: %s", js)
	}
}

func TestFixedC04WeakPruneSetAndOptional(t *testing.T) {
	p := newPinned(t, schemaRefs)
	js, failed, _ := p.txn(fmt.Sprintf(`[{"op":"insert","table":"P","uuid":"%s","row":{"name":"p","weak":["set",[["uuid","%s"]]],"wopt":["uuid","%s"]}}]`, u(2), u(9), u(9)))
	row := p.state()["P"][u(2)]
	if failed || len(row["weak"].K) != 0 || len(row["wopt"].K) != 0 {
		t.Fatalf("VERIF-FAIL property=C04 class=integrity.weak-dangling: dangling weak references survive: weak=%s wopt=%s (%s)", row["weak"].Key(), row["wopt"].Key(), js)
	}
}

func TestFixedC04GCAfterWeakPrune(t *testing.T) {
	p := newPinned(t, schemaRefs)
	// a non-root row whose weak reference is pruned and which is then garbage collected
	js, failed, _ := p.txn(fmt.Sprintf(`[{"op":"insert","table":"G","uuid":"%s","row":{"name":"g","weak":["set",[["uuid","%s"]]]}}]`, u(5), u(9)))
	if failed {
		t.Fatalf("VERIF-FAIL property=C04 class=result.spurious-error: %s", js)
	}
	if k, _ := p.db.RefsKey("C", u(9)); k != "[]" {
		t.Fatalf("VERIF-FAIL property=C04 class=references.index-differs: stale reference index entry %s", k)
	}
}

func TestFixedC06SecondIndexConflict(t *testing.T) {
	p := newPinned(t, `{"name":"DB","version":"1.0.0","tables":{"T0":{"isRoot":true,"indexes":[["a"],["b"]],"columns":{"a":{"type":"integer"},"b":{"type":"integer"}}}}}`)
	p.mustOK(fmt.Sprintf(`[{"op":"insert","table":"T0","uuid":"%s","row":{"a":0,"b":0}},{"op":"insert","table":"T0","uuid":"%s","row":{"a":1,"b":5}}]`, u(1), u(2)))
	js, failed, _ := p.txn(fmt.Sprintf(`[{"op":"delete","table":"T0","where":[["_uuid","==",["uuid","%s"]]]},{"op":"insert","table":"T0","uuid":"%s","row":{"a":0,"b":5}}]`, u(1), u(3)))
	if !failed || !strings.Contains(js, "constraint violation") {
		t.Fatalf("VERIF-FAIL property=C06 class=commit.missing-error: duplicate on the second index accepted: %s", js)
	}
}

func TestFixedC02DuplicateUUID(t *testing.T) {
	p := newPinned(t, schemaPlain)
	p.mustOK(fmt.Sprintf(`[{"op":"insert","table":"T0","uuid":"%s","row":{"name":"a"}}]`, u(1)))
	js, failed, rs := p.txn(fmt.Sprintf(`[{"op":"insert","table":"T0","uuid":"%s","row":{"name":"b"}}]`, u(1)))
	if !failed || rs[0] == nil || rs[0].Error == "" {
		t.Fatalf("VERIF-FAIL property=C02 class=commit.error-after-notify: insert with an existing uuid passes Transact: %s", js)
	}
}

func TestFixedC19DegenerateOps(t *testing.T) {
	p := newPinned(t, schemaPlain)
	p.mustOK(fmt.Sprintf(`[{"op":"insert","table":"T0","uuid":"%s","row":{"name":"a","n":5,"r":1.5}}]`, u(1)))
	for _, txn := range []string{
		`[{"op":"mutate","table":"T0","where":[],"mutations":[["n","/=",0]]}]`, `[{"op":"mutate","table":"T0","where":[],"mutations":[["n","%=",0]]}]`,
		`[{"op":"mutate","table":"T0","where":[],"mutations":[["r","/=",0]]}]`, `[{"op":"insert","table":"T0","row":{"n":null}}]`,
		`[{"op":"update","table":"T0","where":[],"row":{"n":null}}]`, `[{"op":"select","table":"T0","where":[["n","==",null]]}]`,
		`[{"op":"commit","table":"T0"}]`, `[{"op":"comment","table":"T0"}]`, `[{"op":"assert","table":"T0"}]`,
	} {
		js, failed, _ := p.txn(txn)
		if !failed {
			t.Errorf("VERIF-FAIL property=C19 class=result.missing-error: %s accepted: %s", txn, js)
		}
	}
	if got := p.state()["T0"][u(1)]; got["n"].Key() != "[i5]" || got["r"].Key() != "[r1.5]" {
		t.Errorf("VERIF-FAIL property=C19 class=atomicity.state-changed: %s", got.Key())
	}
}

// A where clause with n equality conditions made the cache try all 2^n subsets of them as
// indexes: 20 conditions allocated ~450 MB, 30 would need hundreds of GB. The pinned input
// stays at 20 and bounds the allocation (deterministic, no clock).
func TestFixedC19ConditionPowerSet(t *testing.T) {
	p := newPinned(t, schemaPlain)
	p.mustOK(fmt.Sprintf(`[{"op":"insert","table":"T0","uuid":"%s","row":{"name":"a","n":5}}]`, u(1)))
	var conds []string
	for i := 0; i < 20; i++ {
		conds = append(conds, fmt.Sprintf(`["n","==",%d]`, i%3))
	}
	var before, after runtime.MemStats
	runtime.ReadMemStats(&before)
	js, failed, rs := p.txn(`[{"op":"select","table":"T0","where":[` + strings.Join(conds, ",") + `]}]`)
	runtime.ReadMemStats(&after)
	if failed || len(rs) != 1 || len(rs[0].Rows) != 0 {
		t.Fatalf("VERIF-FAIL property=C19 class=result.wrong: select with 20 conditions: %s", js)
	}
	if mb := (after.TotalAlloc - before.TotalAlloc) >> 20; mb > 64 {
		t.Fatalf("VERIF-FAIL property=C19 class=resource.memory-or-crash: a select with 20 equality conditions allocated %d MB (doubling with every condition)", mb)
	}
}

// ---- open findings ----

func TestFindingC03SelectColumns(t *testing.T) {
	p := newPinned(t, schemaPlain)
	p.mustOK(fmt.Sprintf(`[{"op":"insert","table":"T0","uuid":"%s","row":{"name":"a","n":5}}]`, u(1)))
	js, _, rs := p.txn(`[{"op":"select","table":"T0","where":[],"columns":["n"]}]`)
	if len(rs[0].Rows) != 1 || len(rs[0].Rows[0]) != 1 {
		t.Fatalf("VERIF-FAIL property=C03 class=select-columns: select ignores \"columns\": %s", js)
	}
}

func TestFindingC03WaitSemantics(t *testing.T) {
	p := newPinned(t, schemaPlain)
	p.mustOK(fmt.Sprintf(`[{"op":"insert","table":"T0","uuid":"%s","row":{"name":"a","n":0,"tags":["set",["x","y"]]}},{"op":"insert","table":"T0","uuid":"%s","row":{"name":"b","n":0,"tags":["set",["x","y"]]}}]`, u(1), u(2)))
	var bad []string
	// two rows that project to the same value equal the one expected row (RFC 7047 compares sets of rows)
	if js, failed, _ := p.txn(`[{"op":"wait","table":"T0","timeout":0,"until":"==","columns":["tags"],"rows":[{"tags":["set",["y","x"]]}],"where":[]}]`); failed {
		bad = append(bad, "set order / multiplicity: "+js)
	}
	// an expected default value must be compared too
	if js, failed, _ := p.txn(`[{"op":"wait","table":"T0","timeout":0,"until":"==","columns":["n"],"rows":[{"n":7}],"where":[]}]`); !failed {
		bad = append(bad, "expectation n=7 against n=0 satisfied: "+js)
	}
	if js, failed, _ := p.txn(`[{"op":"wait","table":"T0","timeout":0,"until":"!=","columns":["n"],"rows":[{"n":0}],"where":[]}]`); !failed {
		bad = append(bad, "until != with equal default values satisfied: "+js)
	}
	if len(bad) > 0 {
		t.Fatalf("VERIF-FAIL property=C03 class=wait-semantics: %s", strings.Join(bad, "; "))
	}
}

func TestFindingC06IndexOverwrite(t *testing.T) {
	// lookup through an index after a transient duplicate on it
	p := newPinned(t, schemaPlain)
	p.mustOK(fmt.Sprintf(`[{"op":"insert","table":"T0","uuid":"%s","row":{"name":"a"}}]`, u(1)))
	js, failed, rs := p.txn(fmt.Sprintf(`[{"op":"insert","table":"T0","uuid":"%s","row":{"name":"a"}},{"op":"delete","table":"T0","where":[["_uuid","==",["uuid","%s"]]]},{"op":"select","table":"T0","where":[["name","==","a"]]}]`, u(2), u(1)))
	if failed || len(rs[2].Rows) != 1 {
		t.Fatalf("VERIF-FAIL property=C06 class=index-overwrite: row unreachable through the index after a transient duplicate: %s", js)
	}
	// three rows holding one value at the same time, the last writer leaving: the outcome depends on map order
	for i := 0; i < 40; i++ {
		q := newPinned(t, schemaPlain)
		q.mustOK(fmt.Sprintf(`[{"op":"insert","table":"T0","uuid":"%s","row":{"name":"a"}},{"op":"insert","table":"T0","uuid":"%s","row":{"name":"b"}},{"op":"insert","table":"T0","uuid":"%s","row":{"name":"c"}}]`, u(1), u(2), u(3)))
		js, failed, _ := q.txn(fmt.Sprintf(`[{"op":"update","table":"T0","where":[],"row":{"name":"x"}},{"op":"update","table":"T0","where":[["_uuid","==",["uuid","%s"]]],"row":{"name":"y"}}]`, u(3)))
		if !failed {
			t.Fatalf("VERIF-FAIL property=C06 class=index-overwrite: duplicate index value committed (attempt %d): %s", i, js)
		}
	}
}

func TestFindingC04WeakPruneImmutable(t *testing.T) {
	p := newPinned(t, `{"name":"DB","version":"1.0.0","tables":{"T0":{"isRoot":true,"columns":{"w":{"mutable":false,"type":{"key":{"type":"uuid","refTable":"T0","refType":"weak"},"min":0,"max":"unlimited"}}}}}}`)
	js, failed, _ := p.txn(fmt.Sprintf(`[{"op":"insert","table":"T0","uuid":"%s","row":{"w":["set",[["uuid","%s"]]]}}]`, u(1), u(9)))
	if failed {
		t.Fatalf("VERIF-FAIL property=C04 class=weak-prune-immutable: pruning a dangling weak reference from an immutable column is refused: %s", js)
	}
}

func TestFindingC04CrossTableUUID(t *testing.T) {
	for i := 0; i < 40; i++ {
		p := newPinned(t, `{"name":"DB","version":"1.0.0","tables":{"A":{"isRoot":true,"columns":{"toB":{"type":{"key":{"type":"uuid","refTable":"B","refType":"weak"},"min":0,"max":1}},"toA":{"type":{"key":{"type":"uuid","refTable":"A","refType":"strong"},"min":0,"max":"unlimited","value":{"type":"uuid","refTable":"C","refType":"weak"}}}}},"B":{"columns":{"n":{"type":"integer"},"a":{"type":{"key":{"type":"uuid","refTable":"A","refType":"strong"}}}}},"C":{"columns":{"n":{"type":"integer"}}}}}`)
		js, failed, _ := p.txn(fmt.Sprintf(`[{"op":"insert","table":"A","uuid":"%s","row":{}},{"op":"insert","table":"A","uuid":"%s","row":{"toB":["uuid","%s"],"toA":["map",[[["uuid","%s"],["uuid","%s"]]]]}}]`, u(2), u(3), u(2), u(2), u(9)))
		if failed {
			t.Fatalf("VERIF-FAIL property=C04 class=cross-table-uuid: a uuid of table A referenced (dangling, weak) as a row of table B makes the commit fail (attempt %d): %s", i, js)
		}
	}
}

func TestFindingC09Int53(t *testing.T) {
	p := newPinned(t, schemaPlain)
	big := int64(1<<53 + 1)
	js, failed, _ := p.txn(fmt.Sprintf(`[{"op":"insert","table":"T0","uuid":"%s","row":{"name":"a","n":%d}}]`, u(1), big))
	if failed {
		t.Fatalf("setup: %s", js)
	}
	if got := p.state()["T0"][u(1)]["n"].K[0].I; got != big {
		t.Fatalf("VERIF-FAIL property=C09 class=int53: integer %d arrives as %d (JSON numbers are decoded as float64 before conversion to int)", big, got)
	}
}

// TestFindingC03CrossTableUUIDDeleted: same family as cross-table-uuid (uuids are treated as
// unique across tables): the rows a transaction deleted are remembered by uuid only, so a
// row of another table that shares the uuid becomes invisible to later operations.
func TestFindingC03CrossTableUUIDDeleted(t *testing.T) {
	p := newPinned(t, `{"name":"DB","version":"1.0.0","tables":{"A":{"isRoot":true,"columns":{"n":{"type":"integer"}}},"B":{"isRoot":true,"columns":{"n":{"type":"integer"}}}}}`)
	if js, failed, _ := p.txn(fmt.Sprintf(`[{"op":"insert","table":"A","uuid":"%s","row":{"n":1}},{"op":"insert","table":"B","uuid":"%s","row":{"n":5}}]`, u(10), u(10))); failed {
		t.Fatalf("setup: %s", js)
	}
	js, failed, res := p.txn(fmt.Sprintf(`[{"op":"delete","table":"A","where":[["_uuid","==",["uuid","%s"]]]},{"op":"mutate","table":"B","where":[["_uuid","==",["uuid","%s"]]],"mutations":[["n","-=",2]]}]`, u(10), u(10)))
	if failed || len(res) != 2 || res[1].Count != 1 {
		t.Fatalf("VERIF-FAIL property=C03 class=cross-table-uuid-deleted: after deleting row u of table A in the same transaction, a mutate of row u of table B affects %s", js)
	}
}
