package props

import (
	"encoding/json"
	"fmt"
	"runtime"
	"runtime/debug"
	"strings"
	"testing"
	"time"

	"github.com/ovn-org/libovsdb/ovsdb"
	"pgregory.net/rapid"

	"verif/pbt/kit"
)

var cfgC19 = kit.TxnCfg{MaxOps: 4, MayReject: true, Invalid: true, Named: true, ZeroDivisors: true, WaitFull: true, SelectColumns: true, OmitUUID: true, MaxRows: 5, Wide: true}

type c19TxnCase struct {
	Schema      json.RawMessage `json:"schema"`
	Prefix      []string        `json:"prefix"`
	Request     string          `json:"request"`
	Corruptions []string        `json:"corruptions"`
}

// transactSafely runs a transaction under recover.
func transactSafely(db *kit.DB, ops []ovsdb.Operation) (out kit.TxnOutcome, pval interface{}, stack string) {
	type answer struct {
		out   kit.TxnOutcome
		pval  interface{}
		stack string
	}
	done := make(chan answer, 1)
	kit.StartMemGuard(c19MemoryGuard)
	go func() {
		var a answer
		defer func() {
			if r := recover(); r != nil {
				a.pval = r
				a.stack = string(debug.Stack())
			}
			done <- a
		}()
		a.out = db.Transact(ops)
	}()
	select {
	case a := <-done:
		return a.out, a.pval, a.stack
	case <-time.After(c19AnswerBound):
		// the database stopped answering (its goroutine is left behind: the case fails anyway)
		buf := make([]byte, 1<<16)
		buf = buf[:runtime.Stack(buf, true)]
		return out, fmt.Sprintf("no answer within %v", c19AnswerBound), repoDir() + "/hang\n" + string(buf)
	}
}

// c19AnswerBound: no operation of the harness waits (waits with a timeout are not sent).
const c19AnswerBound = 20 * time.Second

// c19MemoryGuard: resident set beyond which a test process handling hostile requests gives
// up (the generated databases hold a handful of rows; the binaries normally stay below 1 GB).
const c19MemoryGuard = 5 << 30

// TestC19Txn: structurally corrupted transactions (dropped members, swapped value
// types, out-of-domain numbers, zero divisors, nulls, empty arrays where pairs are
// expected, unknown tables/columns/ops) must be answered with results or error
// results, must not change the database when they fail, and the database must keep
// answering afterwards.
func TestC19Txn(t *testing.T) {
	kit.TolerateDuplicates = true
	defer func() { kit.TolerateDuplicates = false }()
	rapid.Check(t, func(t *rapid.T) {
		kit.PinUUIDs(1)
		s := kit.GenSchema(t, kit.ProfileDB)
		w, err := kit.BuildWorld(s, nil)
		if err != nil {
			t.Fatalf("world: %v", err)
		}
		l, _ := newL1(w)
		g := kit.NewTxnGen(s, kit.TxnCfg{MaxOps: 3, Named: true, RefBias: true, MaxRows: 5})
		kase := c19TxnCase{Schema: s.JSON()}
		// a valid prefix to have rows, references and index entries around
		for i, n := 0, rapid.IntRange(0, 4).Draw(t, "nprefix"); i < n; i++ {
			ops := g.GenTxn(t, l.Ref)
			kase.Prefix = append(kase.Prefix, string(kit.OpsJSON(s, ops)))
			if _, m := l.step(ops); m != nil {
				// not this property's business, but a broken prefix makes the rest meaningless
				kit.Fail(t, "C19", "prefix."+m.Class, kase, "valid prefix failed: %s", m.Msg)
			}
		}
		g2 := kit.NewTxnGen(s, cfgC19)
		g2.Next = g.Next + 100
		rounds := rapid.IntRange(1, 4).Draw(t, "rounds")
		for r := 0; r < rounds; r++ {
			valid := kit.OpsJSON(s, g2.GenTxn(t, l.Ref))
			// "timeout" is protected: a wait without timeout legitimately blocks forever (RFC 7047 5.2.6)
			text, desc := kit.CorruptJSON(t, valid, 3, map[string]bool{"timeout": true})
			kase.Request, kase.Corruptions = string(text), desc
			var raw []json.RawMessage
			if err := json.Unmarshal(text, &raw); err != nil || len(raw) == 0 {
				kit.Record("C19", "txn:notalist", false, nil, "txn:not-a-list")
				continue
			}
			// sometimes add an operation from a list of incomplete / degenerate forms
			if rapid.IntRange(0, 3).Draw(t, "hostileop") == 0 {
				tb := s.Tables[rapid.IntRange(0, len(s.Tables)-1).Draw(t, "hostiletable")]
				h := rapid.SampledFrom(hostileOps).Draw(t, "hostile")
				h = strings.ReplaceAll(h, "$T", tb.Name)
				h = strings.ReplaceAll(h, "$C", tb.Cols[0].Name)
				pos := rapid.IntRange(0, len(raw)).Draw(t, "hostilepos")
				raw = append(raw[:pos], append([]json.RawMessage{json.RawMessage(h)}, raw[pos:]...)...)
				desc = append(desc, "hostile-op:"+h)
				kase.Request, kase.Corruptions = string(kit.MustJSON(raw)), desc
				text = []byte(kase.Request)
			}
			var ops []ovsdb.Operation
			decodeFailed := false
			for _, rm := range raw {
				var op ovsdb.Operation
				_, _, pval, stack := func() (bool, string, interface{}, string) {
					var pv interface{}
					var st string
					func() {
						defer func() {
							if r := recover(); r != nil {
								pv, st = r, string(debug.Stack())
							}
						}()
						if err := json.Unmarshal(rm, &op); err != nil {
							decodeFailed = true
						}
					}()
					return false, "", pv, st
				}()
				if pval != nil {
					kit.Fail(t, "C19", "panic."+panicSite(stack), kase, "decoding operation %s panicked: %v\n%s", rm, pval, stack)
				}
				ops = append(ops, op)
			}
			if decodeFailed {
				// the server answers with a JSON-RPC error without touching the database
				kit.Record("C19", "txn:undecodable:"+strings.Join(desc, ","), false, nil, "txn:undecodable")
				continue
			}
			if hasUnboundedWait(ops) {
				kit.Record("C19", "txn:unboundedwait", false, nil, "txn:skipped-unbounded-wait")
				continue
			}
			// a request that makes the library allocate without bound ends the process (memory
			// guard): the case is written down beforehand
			inflight := kit.InFlight("C19", "resource.memory-or-crash", kase)
			out, pval, stack := transactSafely(l.DB, ops)
			inflight()
			if pval != nil {
				kit.Fail(t, "C19", "panic."+panicSite(stack), kase, "transact panicked: %v\nrequest: %s\n%s", pval, text, stack)
			}
			post, err := l.DB.Snapshot()
			if err != nil {
				kit.Fail(t, "C19", "state.unreadable", kase, "database unreadable after %s: %v", text, err)
			}
			failed := firstError(out.Results) >= 0 || out.CommitErr != nil
			if failed {
				if d := kit.DiffStates(l.Ref, post); len(d) > 0 {
					kit.Fail(t, "C19", "atomicity.state-changed", kase, "request %s failed (%s, commit error %v) but changed the database:\n%s", text, kit.ResultsJSON(out.Results), out.CommitErr, strings.Join(d, "\n"))
				}
			} else {
				// accepted (the corruption was harmless): adopt the new state as reference
				l.Ref = post
			}
			if out.CommitErr != nil {
				kit.Fail(t, "C19", "commit.error-after-notify", kase, "request %s passed Transact but Commit failed: %v", text, out.CommitErr)
			}
			// keeps serving: a select on every table works and agrees with the snapshot
			for _, tb := range s.Tables {
				sel, pv, st := transactSafely(l.DB, []ovsdb.Operation{{Op: "select", Table: tb.Name, Where: []ovsdb.Condition{}}})
				if pv != nil {
					kit.Fail(t, "C19", "panic."+panicSite(st), kase, "select after %s panicked: %v", text, pv)
				}
				if len(sel.Results) != 1 || sel.Results[0] == nil || sel.Results[0].Error != "" || len(sel.Results[0].Rows) != len(post[tb.Name]) {
					kit.Fail(t, "C19", "serving.select-after", kase, "select on %s after %s: %s, want %d rows", tb.Name, text, kit.ResultsJSON(sel.Results), len(post[tb.Name]))
				}
			}
			lbl := "txn:rejected"
			if !failed {
				lbl = "txn:accepted"
			}
			kit.Record("C19", fmt.Sprintf("txn:%s:%s", strings.Join(desc, ","), lbl), true, func() interface{} { return kase }, lbl)
		}
	})
}

// hasUnboundedWait reports a wait whose timeout is missing (blocks forever by specification) or large.
func hasUnboundedWait(ops []ovsdb.Operation) bool {
	for _, op := range ops {
		if op.Op == ovsdb.OperationWait && (op.Timeout == nil || *op.Timeout > 0) {
			return true
		}
	}
	return false
}

// hostileOps are syntactically valid but incomplete or degenerate operations ($T = a table, $C = its first column).
var hostileOps = []string{
	`{"op":"commit","table":"$T"}`, `{"op":"commit","table":"$T","durable":true}`, `{"op":"commit"}`,
	`{"op":"comment","table":"$T"}`, `{"op":"comment","table":"$T","comment":"x"}`,
	`{"op":"assert","table":"$T"}`, `{"op":"assert","table":"$T","lock":"x"}`, `{"op":"abort","table":"$T"}`,
	// the member of a sibling operation instead of its own
	`{"op":"commit","table":"$T","comment":"x"}`, `{"op":"commit","table":"$T","lock":"x"}`, `{"op":"comment","table":"$T","durable":true}`,
	`{"op":"comment","table":"$T","lock":"x"}`, `{"op":"assert","table":"$T","durable":false}`, `{"op":"assert","table":"$T","comment":"x"}`,
	`{"op":"wait","table":"$T","timeout":0,"until":"=="}`, `{"op":"wait","table":"$T","timeout":0}`,
	`{"op":"wait","table":"$T","timeout":0,"until":"==","columns":["nosuch"],"rows":[{}],"where":[]}`,
	`{"op":"wait","table":"$T","timeout":0,"until":"!=","columns":["$C"],"rows":[{"nosuch":1}],"where":[]}`,
	`{"op":"wait","table":"$T","timeout":0,"until":"==","columns":["_uuid","_version"],"rows":[{}],"where":[]}`,
	`{"op":"select","table":"$T"}`, `{"op":"select","table":"$T","where":null}`, `{"op":"select","table":"$T","where":[],"columns":["nosuch"]}`,
	`{"op":"select","table":"$T","where":[["_uuid","==",1]]}`, `{"op":"select","table":"$T","where":[["_uuid","<",["uuid","00000000-0000-4000-8000-000000000001"]]]}`,
	`{"op":"select","table":"$T","where":[["_version","==",["uuid","00000000-0000-4000-8000-000000000001"]]]}`,
	`{"op":"select","table":"$T","where":[["$C","==",null]]}`, `{"op":"select","table":"$T","where":[["$C","includes",["set",[null]]]]}`,
	`{"op":"mutate","table":"$T","where":[]}`, `{"op":"mutate","table":"$T","where":[],"mutations":[["$C","insert",null]]}`,
	`{"op":"mutate","table":"$T","where":[],"mutations":[["$C","/=",0]]}`, `{"op":"mutate","table":"$T","where":[],"mutations":[["$C","%=",0]]}`,
	`{"op":"mutate","table":"$T","where":[],"mutations":[["$C","/=",0.0]]}`, `{"op":"mutate","table":"$T","where":[],"mutations":[["_uuid","insert",["uuid","00000000-0000-4000-8000-000000000001"]]]}`,
	`{"op":"mutate","table":"$T","where":[],"mutations":[["$C","delete",["map",[[1]]]]]}`,
	`{"op":"update","table":"$T","where":[]}`, `{"op":"update","table":"$T","where":[],"row":null}`, `{"op":"update","table":"$T","where":[],"row":{"$C":null}}`,
	`{"op":"update","table":"$T","where":[],"row":{"_version":["uuid","00000000-0000-4000-8000-000000000001"]}}`,
	`{"op":"insert","table":"$T"}`, `{"op":"insert","table":"$T","row":null}`, `{"op":"insert","table":"$T","row":{"$C":null}}`,
	`{"op":"insert","table":"$T","row":{"$C":["set",[null]]}}`, `{"op":"insert","table":"$T","row":{"$C":["map",[[null,null]]]}}`,
	`{"op":"insert","table":"$T","row":{},"uuid":""}`, `{"op":"insert","table":"$T","row":{},"uuid-name":""}`,
	`{"op":"insert","table":"$T","row":{"_uuid":["uuid","00000000-0000-4000-8000-000000000001"]}}`,
	`{"op":"delete","table":"$T"}`, `{"op":"delete","table":"$T","where":[["$C","==",["named-uuid","nosuchname"]]]}`,
	`{"op":"","table":"$T"}`, `{"op":"lock","table":"$T"}`, `{"table":"$T"}`,
}
