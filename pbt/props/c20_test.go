package props

import (
	"bytes"
	"encoding/json"
	"fmt"
	"go/ast"
	"go/importer"
	"go/parser"
	"go/token"
	"go/types"
	"os"
	"os/exec"
	"path/filepath"
	"reflect"
	"regexp"
	"sort"
	"strings"
	"sync"
	"sync/atomic"
	"testing"
	"text/template"

	"github.com/ovn-org/libovsdb/model"
	"github.com/ovn-org/libovsdb/modelgen"
	"github.com/ovn-org/libovsdb/ovsdb"
	"pgregory.net/rapid"

	"verif/pbt/kit"
)

var (
	c20ImporterOnce sync.Once
	c20Importer     types.Importer
	c20Fset         = token.NewFileSet()
)

// sharedImporter type-checks the real libovsdb packages from source once per process.
func sharedImporter() types.Importer {
	c20ImporterOnce.Do(func() {
		c20Importer = importer.ForCompiler(c20Fset, "source", nil)
	})
	return c20Importer
}

// unaliased renders a type with every alias resolved.
func unaliased(t types.Type) string {
	switch x := types.Unalias(t).(type) {
	case *types.Pointer:
		return "*" + unaliased(x.Elem())
	case *types.Slice:
		return "[]" + unaliased(x.Elem())
	case *types.Map:
		return "map[" + unaliased(x.Key()) + "]" + unaliased(x.Elem())
	default:
		return types.TypeString(types.Unalias(t), nil)
	}
}

var tagRe = regexp.MustCompile(`ovsdb:"([^"]*)"`)

type c20Case struct {
	Schema   json.RawMessage `json:"schema"`
	Extended bool            `json:"extended"`
	Enums    bool            `json:"enumTypes"`
	Table    string          `json:"table,omitempty"`
	Source   string          `json:"source,omitempty"`
}

// c20Profile is the schema space for the generator: the full type space plus naming stress.
// Excluded by construction (known finding modelgen-enum-names): enums whose key type is not
// string and enum strings that are not made of letters, digits, '-' and '_'.
// c20FreshName numbers the column names that are used once per process.
var c20FreshName int64

func c20Schema(t *rapid.T) kit.Schema {
	p := kit.ProfileCodec
	p.FancyNames = rapid.IntRange(0, 2).Draw(t, "fancy") > 0
	p.AnyEnums = true
	p.MapEnums = true
	p.Constraints = rapid.Bool().Draw(t, "constraints")
	s := kit.GenSchema(t, p)
	// often: several string enums in one table (their declarations are generated from a map
	// of columns: order must not depend on its iteration)
	if rapid.Bool().Draw(t, "manyenums") {
		ti := rapid.IntRange(0, len(s.Tables)-1).Draw(t, "enumtable")
		for i, n := 0, rapid.IntRange(2, 4).Draw(t, "nenums"); i < n; i++ {
			vals := rapid.Permutation([]string{"on", "off", "auto", "up-down", "a b"}).Draw(t, "enumvals")[:rapid.IntRange(1, 3).Draw(t, "nvals")]
			var atoms []kit.Atom
			for _, v := range vals {
				atoms = append(atoms, kit.Str(v))
			}
			s.Tables[ti].Cols = append(s.Tables[ti].Cols, kit.Col{Name: fmt.Sprintf("extra_enum_%c", 'a'+i), Key: kit.Base{T: kit.TStr, Enum: atoms}, Min: 1, Max: 1})
		}
	}
	excluded := 0
	for ti := range s.Tables {
		for ci := range s.Tables[ti].Cols {
			c := &s.Tables[ti].Cols[ci]
			if len(c.Key.Enum) == 0 || c.Key.T != kit.TStr {
				continue
			}
			// two enum strings that collapse to one Go identifier cannot both get a constant
			// (precondition of the generated domain, counted)
			seen := map[string]bool{}
			var uniq []kit.Atom
			for _, e := range c.Key.Enum {
				id := modelgen.FieldName(e.S)
				if seen[id] || id == "" {
					excluded++
					continue
				}
				seen[id] = true
				uniq = append(uniq, e)
			}
			if len(uniq) == 0 {
				uniq = []kit.Atom{kit.Str("fallback")}
			}
			c.Key.Enum = uniq
		}
	}
	if excluded > 0 {
		kit.LabelN("C20", "excluded_domain:enum-identifier-collision", excluded)
	}
	// a third of the schemas use column names no other schema of this process has used: the
	// generator sees thousands of distinct names in one process (anything it remembers
	// between names or tables has to cope with that)
	if rapid.IntRange(0, 2).Draw(t, "freshnames") == 0 {
		for ti := range s.Tables {
			rename := map[string]string{}
			for ci := range s.Tables[ti].Cols {
				c := &s.Tables[ti].Cols[ci]
				n := fmt.Sprintf("%s_%d", c.Name, atomic.AddInt64(&c20FreshName, 1))
				rename[c.Name] = n
				c.Name = n
			}
			for ii := range s.Tables[ti].Indexes {
				for ji := range s.Tables[ti].Indexes[ii] {
					s.Tables[ti].Indexes[ii][ji] = rename[s.Tables[ti].Indexes[ii][ji]]
				}
			}
		}
		kit.Label("C20", "column-names-never-seen-before")
	}
	return s
}

// TestC20 (in-process tier): generate, format twice, parse, type-check against the real
// model/ovsdb packages, compare every field type with what the mapper expects.
func TestC20(t *testing.T) {
	imp := sharedImporter()
	rapid.Check(t, func(t *rapid.T) {
		s := c20Schema(t)
		ext := rapid.Bool().Draw(t, "extended")
		enumTypes := rapid.Bool().Draw(t, "enumtypes")
		kase := c20Case{Schema: s.JSON(), Extended: ext, Enums: enumTypes}
		var schema ovsdb.DatabaseSchema
		if err := json.Unmarshal(s.JSON(), &schema); err != nil {
			t.Fatalf("harness: schema: %v", err)
		}
		gen, err := modelgen.NewGenerator()
		if err != nil {
			t.Fatalf("generator: %v", err)
		}
		fail := func(class, format string, args ...interface{}) {
			kit.Fail(t, "C20", class, kase, format, args...)
		}
		// sometimes the generator has refused something before (a template whose output is not Go
		// source): what it renders afterwards must not depend on that
		if rapid.IntRange(0, 2).Draw(t, "afterrefused") == 0 {
			bad := template.Must(template.New("bad").Parse("this is {{ \"not\" }} Go source {"))
			if _, err := gen.Format(bad, map[string]interface{}{}); err == nil {
				t.Fatalf("harness: the generator accepted text that is not Go source")
			}
			kit.Label("C20", "generator-used-after-a-refused-rendering")
		}
		const pkg = "genpkg"
		var files []*ast.File
		fset := token.NewFileSet()
		render := func() map[string][]byte {
			out := map[string][]byte{}
			var names []string
			for n := range schema.Tables {
				names = append(names, n)
			}
			sort.Strings(names)
			for _, name := range names {
				table := schema.Tables[name]
				args := modelgen.GetTableTemplateData(pkg, name, &table)
				args.WithExtendedGen(ext)
				args.WithEnumTypes(enumTypes)
				src, err := gen.Format(modelgen.NewTableTemplate(), args)
				if err != nil {
					kase.Table = name
					fail("generate.error", "table %s: the generator fails: %v", name, err)
				}
				out[modelgen.FileName(name)] = src
			}
			src, err := gen.Format(modelgen.NewDBTemplate(), modelgen.GetDBTemplateData(pkg, schema))
			if err != nil {
				fail("generate.error", "model.go: the generator fails: %v", err)
			}
			out["model.go"] = src
			return out
		}
		first := render()
		// one template data object configured several times (options switched back and forth,
		// ending at the same settings) and rendered twice gives the same files as fresh data
		nflips := rapid.IntRange(0, 3).Draw(t, "optionflips")
		var flips []string
		for i := 0; i < nflips; i++ {
			flips = append(flips, rapid.SampledFrom([]string{"enums", "extended"}).Draw(t, "flip"))
		}
		if nflips > 0 {
			var names []string
			for n := range schema.Tables {
				names = append(names, n)
			}
			sort.Strings(names)
			for _, name := range names {
				table := schema.Tables[name]
				args := modelgen.GetTableTemplateData(pkg, name, &table)
				e, x := enumTypes, ext
				// walk backwards so that the last calls leave (ext, enumTypes)
				type call struct {
					which string
					v     bool
				}
				var calls []call
				for i := len(flips) - 1; i >= 0; i-- {
					if flips[i] == "enums" {
						calls = append([]call{{"enums", e}}, calls...)
						e = !e
					} else {
						calls = append([]call{{"extended", x}}, calls...)
						x = !x
					}
				}
				calls = append([]call{{"enums", e}, {"extended", x}}, calls...)
				for _, c := range calls {
					if c.which == "enums" {
						args.WithEnumTypes(c.v)
					} else {
						args.WithExtendedGen(c.v)
					}
				}
				args.WithEnumTypes(enumTypes)
				args.WithExtendedGen(ext)
				for twice := 0; twice < 2; twice++ {
					src, err := gen.Format(modelgen.NewTableTemplate(), args)
					if err != nil {
						kase.Table = name
						fail("generate.error", "table %s: the generator fails on reconfigured template data (%v): %v", name, calls, err)
					}
					if !bytes.Equal(src, first[modelgen.FileName(name)]) {
						kase.Table, kase.Source = name, string(src)
						fail("generate.option-history", "table %s: template data configured with %v (then enum types %v, extended %v) renders differently from fresh data with the same settings", name, calls, enumTypes, ext)
					}
				}
			}
			kit.Label("C20", "option-history")
		}
		for run := 0; run < 3; run++ {
			again := render()
			for name, src := range first {
				if !bytes.Equal(src, again[name]) {
					kase.Source = string(src)
					fail("generate.nondeterministic", "%s differs between two runs on the same schema", name)
				}
			}
		}
		if rapid.IntRange(0, 3).Draw(t, "written") == 0 {
			// the files as the command writes them (Generate), into a directory that holds the
			// output of an earlier run with other options: what is left there afterwards is what a
			// run into an empty directory gives
			dir, err := os.MkdirTemp("", "c20-generate-")
			if err != nil {
				t.Fatalf("temp dir: %v", err)
			}
			defer os.RemoveAll(dir)
			var names []string
			for n := range schema.Tables {
				names = append(names, n)
			}
			sort.Strings(names)
			prevExt, prevEnums := ext, enumTypes
			switch rapid.IntRange(0, 3).Draw(t, "earlierrun") {
			case 0:
				prevExt = !ext
			case 1:
				prevEnums = !enumTypes
			case 2:
				prevExt, prevEnums = !ext, !enumTypes
			}
			for pass, o := range [][2]bool{{prevExt, prevEnums}, {ext, enumTypes}, {ext, enumTypes}} {
				for _, name := range names {
					table := schema.Tables[name]
					args := modelgen.GetTableTemplateData(pkg, name, &table)
					args.WithExtendedGen(o[0])
					args.WithEnumTypes(o[1])
					if err := gen.Generate(filepath.Join(dir, modelgen.FileName(name)), modelgen.NewTableTemplate(), args); err != nil {
						kase.Table = name
						fail("generate.error", "table %s: Generate (run %d into the same directory) fails: %v", name, pass+1, err)
					}
				}
				if err := gen.Generate(filepath.Join(dir, "model.go"), modelgen.NewDBTemplate(), modelgen.GetDBTemplateData(pkg, schema)); err != nil {
					fail("generate.error", "model.go: Generate (run %d into the same directory) fails: %v", pass+1, err)
				}
				if pass == 0 {
					continue
				}
				for name, want := range first {
					got, err := os.ReadFile(filepath.Join(dir, name))
					if err != nil {
						fail("generate.written-files", "%s is not there after run %d into the directory: %v", name, pass+1, err)
					}
					if !bytes.Equal(got, want) {
						kase.Source = string(got)
						fail("generate.written-files", "%s, written over the output of an earlier run (extended %v, enum types %v), differs from the file a fresh run gives (%d bytes, %d expected)", name, prevExt, prevEnums, len(got), len(want))
					}
				}
			}
			kit.Label("C20", "written-over-earlier-output")
		}
		if len(first) != len(schema.Tables)+1 {
			fail("generate.filenames", "%d tables produce %d distinct files (file names collide)", len(schema.Tables), len(first)-1)
		}
		var fnames []string
		for n := range first {
			fnames = append(fnames, n)
		}
		sort.Strings(fnames)
		for _, name := range fnames {
			f, err := parser.ParseFile(fset, name, first[name], parser.ParseComments)
			if err != nil {
				kase.Source = string(first[name])
				fail("generate.syntax", "%s does not parse: %v", name, err)
			}
			files = append(files, f)
		}
		conf := types.Config{Importer: imp}
		tpkg, err := conf.Check(pkg, fset, files, nil)
		if err != nil {
			for n, src := range first {
				if strings.Contains(err.Error(), n) {
					kase.Source = string(src)
				}
			}
			fail("generate.typecheck", "the generated package does not type-check: %v", err)
		}
		// every column has a field of exactly the type the mapper expects
		nontrivial := false
		for name, table := range schema.Tables {
			obj := tpkg.Scope().Lookup(modelgen.StructName(name))
			if obj == nil {
				kase.Table = name
				fail("generate.struct-missing", "no type %s for table %s", modelgen.StructName(name), name)
			}
			st, ok := obj.Type().Underlying().(*types.Struct)
			if !ok {
				fail("generate.struct-missing", "%s is not a struct", modelgen.StructName(name))
			}
			byCol := map[string]string{}
			for i := 0; i < st.NumFields(); i++ {
				if m := tagRe.FindStringSubmatch(st.Tag(i)); m != nil {
					byCol[m[1]] = unaliased(st.Field(i).Type())
				}
			}
			if byCol["_uuid"] != "string" {
				fail("generate.field-type", "table %s: _uuid field has type %q", name, byCol["_uuid"])
			}
			for cn, cs := range table.Columns {
				want := ovsdb.NativeType(cs).String()
				if byCol[cn] != want {
					kase.Table = name
					kase.Source = string(first[modelgen.FileName(name)])
					fail("generate.field-type", "table %s column %s: generated field type %q, the mapper expects %q", name, cn, byCol[cn], want)
				}
				if cs.Type != ovsdb.TypeString && cs.Type != ovsdb.TypeInteger {
					nontrivial = nontrivial || (len(cs.TypeObj.Key.Enum) > 0)
				}
			}
			if len(byCol) != len(table.Columns)+1 {
				fail("generate.field-type", "table %s: %d tagged fields for %d columns", name, len(byCol), len(table.Columns))
			}
		}
		hasEnum, hasColl := false, false
		for _, tb := range s.Tables {
			for _, c := range tb.Cols {
				hasEnum = hasEnum || len(c.Key.Enum) > 0
				hasColl = hasColl || c.Shape() != kit.ShScalar
			}
		}
		kit.Record("C20", fmt.Sprint(schemaSig(s), ext, enumTypes), hasEnum && hasColl, func() interface{} { return kase }, fmt.Sprintf("extended:%v", ext), fmt.Sprintf("enumtypes:%v", enumTypes))
	})
}

const c20LawsTest = `package PKG

import (
	"fmt"
	"reflect"
	"testing"

	"github.com/ovn-org/libovsdb/model"
)

func fill(v reflect.Value, seed int) {
	switch v.Kind() {
	case reflect.String:
		v.SetString([]string{"", "a", "b", "long"}[seed%4])
	case reflect.Int:
		v.SetInt(int64(seed%5 - 1))
	case reflect.Float64:
		v.SetFloat(float64(seed%3) + 0.5)
	case reflect.Bool:
		v.SetBool(seed%2 == 0)
	case reflect.Ptr:
		if seed%3 != 0 {
			e := reflect.New(v.Type().Elem())
			fill(e.Elem(), seed/3)
			v.Set(e)
		}
	case reflect.Slice:
		n := seed % 4
		if n == 0 && seed%8 == 0 {
			return
		}
		s := reflect.MakeSlice(v.Type(), n, n)
		for i := 0; i < n; i++ {
			fill(s.Index(i), seed+i*7)
		}
		v.Set(s)
	case reflect.Map:
		n := seed % 3
		if n == 0 && seed%6 == 0 {
			return
		}
		m := reflect.MakeMap(v.Type())
		for i := 0; i < n; i++ {
			k := reflect.New(v.Type().Key()).Elem()
			e := reflect.New(v.Type().Elem()).Elem()
			fill(k, seed+i*5)
			fill(e, seed+i*11)
			m.SetMapIndex(k, e)
		}
		v.Set(m)
	}
}

func fillModel(t reflect.Type, seed int) interface{} {
	p := reflect.New(t.Elem())
	for i := 0; i < p.Elem().NumField(); i++ {
		if p.Elem().Type().Field(i).Tag.Get("ovsdb") != "" {
			fill(p.Elem().Field(i), seed*31+i*17)
		}
	}
	return p.Interface()
}

func bump(v reflect.Value) bool {
	switch v.Kind() {
	case reflect.String:
		v.SetString(v.String() + "~")
	case reflect.Int:
		v.SetInt(v.Int() + 1000)
	case reflect.Float64:
		v.SetFloat(v.Float() + 1000)
	case reflect.Bool:
		v.SetBool(!v.Bool())
	case reflect.Ptr:
		if v.IsNil() {
			v.Set(reflect.New(v.Type().Elem()))
			return true
		}
		return bump(v.Elem())
	case reflect.Slice:
		if v.Len() == 0 {
			v.Set(reflect.MakeSlice(v.Type(), 1, 1))
			return true
		}
		return bump(v.Index(v.Len() - 1))
	case reflect.Map:
		if v.IsNil() {
			v.Set(reflect.MakeMap(v.Type()))
			return true
		}
		k := reflect.New(v.Type().Key()).Elem()
		bump(k)
		e := reflect.New(v.Type().Elem()).Elem()
		bump(e)
		v.SetMapIndex(k, e)
	}
	return true
}

// variant applies the kind-th structural change to a field (false: not applicable).
// The changes keep sizes where they can: equality code that only compares lengths, or
// looks values up without checking presence, must still notice them.
func variant(v reflect.Value, kind int) bool {
	switch v.Kind() {
	case reflect.Map:
		if v.Len() == 0 {
			return false
		}
		keys := v.MapKeys()
		k := keys[0]
		for _, o := range keys { // deterministic choice: the smallest rendering
			if fmtValue(o) < fmtValue(k) {
				k = o
			}
		}
		fresh := reflect.New(v.Type().Key()).Elem()
		fresh.Set(k)
		for i := 0; i < 8 && v.MapIndex(fresh).IsValid(); i++ {
			bump(fresh)
		}
		if v.MapIndex(fresh).IsValid() {
			return false
		}
		old := v.MapIndex(k)
		zero := reflect.Zero(v.Type().Elem())
		switch kind {
		case 0: // another key takes over the value
			v.SetMapIndex(k, reflect.Value{})
			v.SetMapIndex(fresh, old)
		case 1: // another key, holding the zero value
			v.SetMapIndex(k, reflect.Value{})
			v.SetMapIndex(fresh, zero)
		case 2: // same keys, one value zeroed
			if old.IsZero() {
				return false
			}
			v.SetMapIndex(k, zero)
		case 3: // one more key holding the zero value
			v.SetMapIndex(fresh, zero)
		default:
			return false
		}
		return true
	case reflect.Slice:
		if v.Len() == 0 {
			return false
		}
		switch kind {
		case 0: // last element zeroed
			if v.Index(v.Len() - 1).IsZero() {
				return false
			}
			c := reflect.MakeSlice(v.Type(), v.Len(), v.Len())
			reflect.Copy(c, v)
			c.Index(v.Len() - 1).Set(reflect.Zero(v.Type().Elem()))
			v.Set(c)
		case 1: // one element fewer
			c := reflect.MakeSlice(v.Type(), v.Len()-1, v.Len()-1)
			reflect.Copy(c, v)
			v.Set(c)
		case 2: // one zero element more
			v.Set(reflect.Append(v.Slice(0, v.Len()), reflect.Zero(v.Type().Elem())))
		default:
			return false
		}
		return true
	case reflect.Ptr:
		if v.IsNil() {
			return false
		}
		switch kind {
		case 0: // pointee zeroed
			if v.Elem().IsZero() {
				return false
			}
			v.Set(reflect.New(v.Type().Elem()))
		case 1:
			v.Set(reflect.Zero(v.Type()))
		default:
			return false
		}
		return true
	default:
		if kind != 0 || v.IsZero() {
			return false
		}
		v.Set(reflect.Zero(v.Type()))
		return true
	}
}

func fmtValue(v reflect.Value) string { return fmt.Sprintf("%v", v.Interface()) }

func TestGeneratedModel(t *testing.T) {
	cm, err := FullDatabaseModel()
	if err != nil {
		t.Fatalf("FullDatabaseModel: %v", err)
	}
	dm, errs := model.NewDatabaseModel(Schema(), cm)
	if len(errs) > 0 {
		t.Fatalf("VERIF-GEN the generated model does not validate against its own schema: %v", errs)
	}
	for table, typ := range dm.Types() {
		if !EXTENDED {
			// known finding clone-nonjson-map-key: without generated deep-copy, Clone goes through JSON,
			// which cannot encode maps keyed by real or boolean
			skip := false
			for i := 0; i < typ.Elem().NumField(); i++ {
				ft := typ.Elem().Field(i).Type
				if ft.Kind() == reflect.Map && (ft.Key().Kind() == reflect.Float64 || ft.Key().Kind() == reflect.Bool) {
					skip = true
				}
			}
			if skip {
				continue
			}
		}
		for seed := 0; seed < 40; seed++ {
			a := fillModel(typ, seed)
			_, cloneable := a.(model.CloneableModel)
			if EXTENDED != cloneable {
				t.Fatalf("VERIF-GEN table %s: extended generation %v but CloneableModel %v", table, EXTENDED, cloneable)
			}
			before := fillModel(typ, seed)
			c := model.Clone(a)
			if !reflect.DeepEqual(a, before) {
				t.Fatalf("VERIF-GEN table %s: Clone modified its argument", table)
			}
			if !reflect.DeepEqual(a, c) || !model.Equal(a, c) || !model.Equal(c, a) {
				t.Fatalf("VERIF-GEN table %s: clone %+v is not equal to %+v", table, c, a)
			}
			va, vc := reflect.ValueOf(a).Elem(), reflect.ValueOf(c).Elem()
			for i := 0; i < va.NumField(); i++ {
				x, y := va.Field(i), vc.Field(i)
				switch x.Kind() {
				case reflect.Ptr, reflect.Map:
					if !x.IsNil() && x.Pointer() == y.Pointer() {
						t.Fatalf("VERIF-GEN table %s: clone shares memory of field %s", table, va.Type().Field(i).Name)
					}
				case reflect.Slice:
					if x.Len() > 0 && x.Pointer() == y.Pointer() {
						t.Fatalf("VERIF-GEN table %s: clone shares memory of field %s", table, va.Type().Field(i).Name)
					}
				}
			}
			into := reflect.New(typ.Elem()).Interface()
			model.CloneInto(a, into)
			if !reflect.DeepEqual(a, into) {
				t.Fatalf("VERIF-GEN table %s: CloneInto differs", table)
			}
			if !reflect.DeepEqual(a, before) {
				t.Fatalf("VERIF-GEN table %s: CloneInto modified its argument", table)
			}
			vi := reflect.ValueOf(into).Elem()
			for i := 0; i < va.NumField(); i++ {
				x, y := va.Field(i), vi.Field(i)
				switch x.Kind() {
				case reflect.Ptr, reflect.Map:
					if !x.IsNil() && x.Pointer() == y.Pointer() {
						t.Fatalf("VERIF-GEN table %s: the copy made by CloneInto shares memory of field %s", table, va.Type().Field(i).Name)
					}
				case reflect.Slice:
					if x.Len() > 0 && x.Pointer() == y.Pointer() {
						t.Fatalf("VERIF-GEN table %s: the copy made by CloneInto shares memory of field %s", table, va.Type().Field(i).Name)
					}
				}
			}
			// Equal agrees with the generic comparison on pairs, and notices any single-field change
			b := fillModel(typ, seed+1)
			if model.Equal(a, b) != reflect.DeepEqual(a, b) || model.Equal(b, a) != reflect.DeepEqual(a, b) {
				t.Fatalf("VERIF-GEN table %s: Equal(%+v, %+v) = %v, field-wise comparison says %v", table, a, b, model.Equal(a, b), reflect.DeepEqual(a, b))
			}
			for i := 0; i < vc.NumField(); i++ {
				if vc.Type().Field(i).Tag.Get("ovsdb") == "" {
					continue
				}
				d := model.Clone(a)
				bump(reflect.ValueOf(d).Elem().Field(i))
				if reflect.DeepEqual(a, d) {
					continue
				}
				if model.Equal(a, d) || model.Equal(d, a) {
					t.Fatalf("VERIF-GEN table %s: models differ in field %s but Equal reports them equal", table, vc.Type().Field(i).Name)
				}
				if !reflect.DeepEqual(a, before) {
					t.Fatalf("VERIF-GEN table %s: modifying a clone (field %s) changed the original", table, vc.Type().Field(i).Name)
				}
			}
			// size-preserving and zero-valued changes of one field
			for i := 0; i < vc.NumField(); i++ {
				if vc.Type().Field(i).Tag.Get("ovsdb") == "" {
					continue
				}
				for kind := 0; kind < 4; kind++ {
					d := model.Clone(a)
					if !variant(reflect.ValueOf(d).Elem().Field(i), kind) {
						continue
					}
					want := reflect.DeepEqual(a, d)
					if model.Equal(a, d) != want || model.Equal(d, a) != want {
						t.Fatalf("VERIF-GEN table %s: field %s changed (variant %d): Equal says %v / %v, field-wise comparison says %v\n a %+v\n d %+v", table, vc.Type().Field(i).Name, kind, model.Equal(a, d), model.Equal(d, a), want, a, d)
					}
					if !reflect.DeepEqual(a, before) {
						t.Fatalf("VERIF-GEN table %s: modifying a clone (field %s, variant %d) changed the original", table, vc.Type().Field(i).Name, kind)
					}
				}
			}
		}
	}
}
`

var (
	modelgenOnce sync.Once
	modelgenBin  string
	modelgenErr  error
)

func verifRoot() string {
	dir, _ := os.Getwd()
	for d := dir; d != "/"; d = filepath.Dir(d) {
		if _, err := os.Stat(filepath.Join(d, "go.mod")); err == nil {
			return d
		}
	}
	return "/verif"
}

// TestC20Compiled (compiled tier): the real cmd/modelgen binary generates packages for a
// batch of drawn schemas into a scratch module (twice: byte-identical), which is then vetted,
// compiled and tested: the generated model must validate against its schema and the generated
// deep-copy / equality methods must obey the generic laws.
func TestC20Compiled(t *testing.T) {
	root := verifRoot()
	scratch, err := os.MkdirTemp("", "verif-c20-")
	if err != nil {
		t.Fatal(err)
	}
	defer os.RemoveAll(scratch)
	modelgenBin = filepath.Join(scratch, "modelgen")
	build := exec.Command("go", "build", "-o", modelgenBin, "github.com/ovn-org/libovsdb/cmd/modelgen")
	build.Dir = root
	if out, err := build.CombinedOutput(); err != nil {
		t.Fatalf("building cmd/modelgen: %v\n%s", err, out)
	}
	gomod, _ := os.ReadFile(filepath.Join(root, "go.mod"))
	gosum, _ := os.ReadFile(filepath.Join(root, "go.sum"))
	batchNo := 0
	rapid.Check(t, func(t *rapid.T) {
		batchNo++
		mod := filepath.Join(scratch, fmt.Sprintf("batch%d", batchNo))
		_ = os.MkdirAll(mod, 0o755)
		defer os.RemoveAll(mod)
		_ = os.WriteFile(filepath.Join(mod, "go.mod"), bytes.Replace(gomod, []byte("module verif"), []byte("module scratch"), 1), 0o644)
		_ = os.WriteFile(filepath.Join(mod, "go.sum"), gosum, 0o644)
		n := rapid.IntRange(4, 10).Draw(t, "batchsize")
		cases := map[string]c20Case{}
		for i := 0; i < n; i++ {
			s := c20Schema(t)
			ext := rapid.Bool().Draw(t, "extended")
			pkg := fmt.Sprintf("p%d", i)
			kase := c20Case{Schema: s.JSON(), Extended: ext, Enums: true}
			cases[pkg] = kase
			schemaFile := filepath.Join(mod, pkg+".ovsschema")
			_ = os.WriteFile(schemaFile, s.JSON(), 0o644)
			var dirs [2]string
			for r := 0; r < 2; r++ {
				dirs[r] = filepath.Join(mod, fmt.Sprintf("%s_run%d", pkg, r))
				if r == 0 {
					dirs[r] = filepath.Join(mod, pkg)
				}
				args := []string{"-p", pkg, "-o", dirs[r]}
				if ext {
					args = append(args, "-extended")
				}
				args = append(args, schemaFile)
				if out, err := exec.Command(modelgenBin, args...).CombinedOutput(); err != nil {
					kit.Fail(t, "C20", "generate.error", kase, "modelgen %v failed: %v\n%s", args[:len(args)-1], err, out)
				}
			}
			a, _ := os.ReadDir(dirs[0])
			b, _ := os.ReadDir(dirs[1])
			if len(a) != len(b) || len(a) != len(s.Tables)+1 {
				kit.Fail(t, "C20", "generate.filenames", kase, "%d tables produce %d / %d files", len(s.Tables), len(a), len(b))
			}
			for _, e := range a {
				x, _ := os.ReadFile(filepath.Join(dirs[0], e.Name()))
				y, _ := os.ReadFile(filepath.Join(dirs[1], e.Name()))
				if !bytes.Equal(x, y) {
					kit.Fail(t, "C20", "generate.nondeterministic", kase, "%s differs between two runs of modelgen", e.Name())
				}
			}
			_ = os.RemoveAll(dirs[1])
			laws := strings.ReplaceAll(strings.ReplaceAll(c20LawsTest, "PKG", pkg), "EXTENDED", fmt.Sprint(ext))
			_ = os.WriteFile(filepath.Join(dirs[0], "laws_test.go"), []byte(laws), 0o644)
		}
		for _, tool := range [][]string{{"vet", "./..."}, {"test", "-count=1", "./..."}} {
			cmd := exec.Command("go", tool...)
			cmd.Dir = mod
			out, err := cmd.CombinedOutput()
			if err == nil {
				continue
			}
			// attribute the failure to a package
			text := string(out)
			for pkg, kase := range cases {
				if strings.Contains(text, "scratch/"+pkg+"\t") || strings.Contains(text, pkg+"/") || strings.Contains(text, "scratch/"+pkg+" ") {
					if strings.Contains(text, "FAIL\tscratch/"+pkg) || strings.Contains(text, "# scratch/"+pkg) || strings.Contains(text, pkg+"/") {
						class := "generated.build"
						if strings.Contains(text, "VERIF-GEN") {
							class = "generated.laws"
						}
						for _, e := range readDirNames(filepath.Join(mod, pkg)) {
							if strings.Contains(text, pkg+"/"+e) {
								src, _ := os.ReadFile(filepath.Join(mod, pkg, e))
								kase.Source = string(src)
							}
						}
						kit.Fail(t, "C20", class, kase, "go %s of the generated package fails:\n%s", tool[0], tailLines(text, 40))
					}
				}
			}
			kit.Fail(t, "C20", "generated.build", map[string]interface{}{"output": tailLines(text, 60)}, "go %s of the scratch module fails:\n%s", tool[0], tailLines(text, 40))
		}
		for pkg, kase := range cases {
			k := kase
			kit.Record("C20", "compiled:"+string(k.Schema)+fmt.Sprint(k.Extended), true, func() interface{} { return k }, "compiled-package", fmt.Sprintf("compiled-extended:%v", k.Extended))
			_ = pkg
		}
	})
}

func readDirNames(dir string) []string {
	es, _ := os.ReadDir(dir)
	var out []string
	for _, e := range es {
		out = append(out, e.Name())
	}
	return out
}

func tailLines(s string, n int) string {
	lines := strings.Split(strings.TrimSpace(s), "\n")
	if len(lines) > n {
		lines = lines[:n]
	}
	return strings.Join(lines, "\n")
}

var _ = reflect.TypeOf
var _ model.Model

// TestC20ManyNames: one generator process, one schema of 24 tables with 16 columns each:
// about 400 distinct column names, a few of them ("name", "external_ids", "_uuid") in every
// table. Every table is rendered with extended generation, then every table once more: the
// files must be byte-identical, must type-check together, and every struct must have
// exactly one field per column under the expected tag.
func TestC20ManyNames(t *testing.T) {
	imp := sharedImporter()
	s := kit.Schema{Name: "Big", Version: "1.0.0"}
	for ti := 0; ti < 24; ti++ {
		tb := kit.Table{Name: fmt.Sprintf("table_%d", ti), IsRoot: true}
		tb.Cols = append(tb.Cols, kit.Col{Name: "name", Key: kit.Base{T: kit.TStr}, Min: 1, Max: 1},
			kit.Col{Name: "external_ids", Key: kit.Base{T: kit.TStr}, Value: &kit.Base{T: kit.TStr}, Min: 0, Max: -1})
		for ci := 0; ci < 14; ci++ {
			c := kit.Col{Name: fmt.Sprintf("col_%d_%d", ti, ci), Key: kit.Base{T: []kit.AT{kit.TInt, kit.TStr, kit.TBool, kit.TReal}[ci%4]}, Min: 1, Max: 1}
			switch ci % 3 {
			case 1:
				c.Min = 0
			case 2:
				c.Min, c.Max = 0, -1
			}
			if ci == 5 {
				c.Key = kit.Base{T: kit.TStr, Enum: []kit.Atom{kit.Str(fmt.Sprintf("value_%d_a", ti)), kit.Str(fmt.Sprintf("value_%d_b", ti))}}
				c.Min, c.Max = 1, 1
			}
			tb.Cols = append(tb.Cols, c)
		}
		s.Tables = append(s.Tables, tb)
	}
	var schema ovsdb.DatabaseSchema
	if err := json.Unmarshal(s.JSON(), &schema); err != nil {
		t.Fatalf("harness: schema: %v", err)
	}
	gen, err := modelgen.NewGenerator()
	if err != nil {
		t.Fatal(err)
	}
	kase := c20Case{Schema: s.JSON(), Extended: true, Enums: true}
	fail := func(class, format string, args ...interface{}) {
		kit.Fail(t, "C20", class, kase, format, args...)
	}
	const pkg = "bigpkg"
	var names []string
	for n := range schema.Tables {
		names = append(names, n)
	}
	sort.Strings(names)
	render := func() map[string][]byte {
		out := map[string][]byte{}
		for _, name := range names {
			table := schema.Tables[name]
			args := modelgen.GetTableTemplateData(pkg, name, &table)
			args.WithExtendedGen(true)
			src, err := gen.Format(modelgen.NewTableTemplate(), args)
			if err != nil {
				kase.Table = name
				fail("generate.error", "table %s: the generator fails: %v", name, err)
			}
			out[modelgen.FileName(name)] = src
		}
		src, err := gen.Format(modelgen.NewDBTemplate(), modelgen.GetDBTemplateData(pkg, schema))
		if err != nil {
			fail("generate.error", "model.go: the generator fails: %v", err)
		}
		out["model.go"] = src
		return out
	}
	first := render()
	again := render()
	for name, src := range first {
		if !bytes.Equal(src, again[name]) {
			kase.Table, kase.Source = name, string(again[name])
			fail("generate.nondeterministic", "%s differs between the first and the second rendering of a schema with ~400 distinct column names", name)
		}
	}
	fset := token.NewFileSet()
	var files []*ast.File
	var fnames []string
	for n := range first {
		fnames = append(fnames, n)
	}
	sort.Strings(fnames)
	for _, name := range fnames {
		f, err := parser.ParseFile(fset, name, first[name], parser.ParseComments)
		if err != nil {
			kase.Source = string(first[name])
			fail("generate.syntax", "%s does not parse: %v", name, err)
		}
		files = append(files, f)
	}
	conf := types.Config{Importer: imp}
	tpkg, err := conf.Check(pkg, fset, files, nil)
	if err != nil {
		for n, src := range first {
			if strings.Contains(err.Error(), n) {
				kase.Source = string(src)
			}
		}
		fail("generate.typecheck", "the generated package does not type-check: %v", err)
	}
	for name, table := range schema.Tables {
		obj := tpkg.Scope().Lookup(modelgen.StructName(name))
		if obj == nil {
			fail("generate.struct-missing", "no type %s for table %s", modelgen.StructName(name), name)
		}
		st, ok := obj.Type().Underlying().(*types.Struct)
		if !ok {
			fail("generate.struct-missing", "%s is not a struct", modelgen.StructName(name))
		}
		tags := map[string]int{}
		for i := 0; i < st.NumFields(); i++ {
			tags[reflect.StructTag(st.Tag(i)).Get("ovsdb")]++
		}
		for cn := range table.Columns {
			if tags[cn] != 1 {
				kase.Table = name
				fail("generate.field-missing", "table %s: %d fields tagged %q, want 1", name, tags[cn], cn)
			}
		}
	}
	kit.Record("C20", "many-names|24x16", true, func() interface{} { return map[string]interface{}{"tables": 24, "columnsPerTable": 16} }, "many-distinct-names")
}
