package props

import (
	"context"
	"encoding/json"
	"fmt"
	"reflect"
	"runtime"
	"strings"
	"sync"
	"sync/atomic"
	"testing"
	"time"

	"github.com/cenkalti/backoff/v4"
	"github.com/ovn-org/libovsdb/client"
	"github.com/ovn-org/libovsdb/model"
	"github.com/ovn-org/libovsdb/ovsdb"
	"pgregory.net/rapid"

	"verif/pbt/kit"
)

const c18Schema = `{"name":"DB","version":"1.0.0","tables":{
 "T0":{"isRoot":true,"indexes":[["name"]],"columns":{"name":{"type":"string"},"a":{"type":"integer"},"b":{"type":"integer"},"tags":{"type":{"key":"string","min":0,"max":"unlimited"}}}},
 "T1":{"isRoot":true,"columns":{"v":{"type":"integer"}}}}}`

func c18World(tb testing.TB) *kit.World {
	s, err := parseSchemaJSON([]byte(c18Schema))
	if err != nil {
		tb.Fatalf("schema: %v", err)
	}
	w, err := kit.BuildWorld(s, nil)
	if err != nil {
		tb.Fatalf("world: %v", err)
	}
	return w
}

// watchdog runs fn and reports whether it returned within d; on a hang it returns the
// stacks of all goroutines.
func watchdog(d time.Duration, fn func()) (bool, string) {
	done := make(chan struct{})
	go func() { defer close(done); fn() }()
	select {
	case <-done:
		return true, ""
	case <-time.After(d):
		buf := make([]byte, 1<<20)
		n := runtime.Stack(buf, true)
		return false, string(buf[:n])
	}
}

const c18CallBound = 20 * time.Second

// c18Vary varies timing parameters from one enumerated combination to the next.
var c18Vary int32

type c18Env struct {
	w      *kit.World
	srv    *kit.Server
	px     *kit.Proxy // forwards everything unless told to answer a method with an error
	c      client.Client
	cookie client.MonitorCookie
	// inject, when set, is consulted for every message (see the proxy's tamper hook);
	// lastCookie is the JSON cookie of the last monitor request seen (any method)
	mu         sync.Mutex
	inject     func(dir int, method string, id json.RawMessage, raw json.RawMessage) (forward, back []json.RawMessage)
	lastCookie json.RawMessage
	lastMethod string
	pendingID  string
}

// bogusNotification is an update for the monitor with the given cookie that modifies a
// row nobody has: the client cannot apply it.
func bogusNotification(method string, cookie json.RawMessage) json.RawMessage {
	body := `{"T1":{"00000000-0000-4000-8000-000000999999":{"modify":{"v":1.5}}}}`
	switch method {
	case "monitor":
		return json.RawMessage(`{"method":"update","params":[` + string(cookie) + `,{"T1":{"00000000-0000-4000-8000-000000999999":{"old":{"v":1.5},"new":{"v":2.5}}}}],"id":null}`)
	case "monitor_cond":
		return json.RawMessage(`{"method":"update2","params":[` + string(cookie) + `,` + body + `],"id":null}`)
	default:
		return json.RawMessage(`{"method":"update3","params":[` + string(cookie) + `,"00000000-0000-0000-0000-000000000000",` + body + `],"id":null}`)
	}
}

// monitorThroughRefusingServer: a Monitor call for T1 while the server side answers the
// given methods with errors ("unknown method" is what a server lacking the method says,
// and makes the client fall back to the next older monitor method).
func monitorThroughRefusingServer(e *c18Env, errs map[string]string) error {
	e.px.SetMethodErrors(errs)
	defer e.px.SetMethodErrors(nil)
	ctx, cancel := e.ctx()
	defer cancel()
	_, err := e.c.Monitor(ctx, e.c.NewMonitor(client.WithTable(e.w.NewModel("T1"))))
	return err
}

func (e *c18Env) ctx() (context.Context, context.CancelFunc) {
	return context.WithTimeout(context.Background(), 2*time.Second)
}

// failingCalls: each returns a description; the call itself must fail (or at least return).
var c18Failing = []struct {
	name string
	run  func(e *c18Env) error
}{
	{"monitor:option-error", func(e *c18Env) error {
		type stranger struct {
			UUID string `ovsdb:"_uuid"`
		}
		m := e.c.NewMonitor(client.WithTable(&stranger{}))
		ctx, cancel := e.ctx()
		defer cancel()
		_, err := e.c.Monitor(ctx, m)
		return err
	}},
	{"monitor:condition-that-cannot-be-converted", func(e *c18Env) error {
		// a conditional table whose condition compares a string column with an integer
		m := e.w.NewModel("T1")
		ptr := fieldPtrByColumn(e.w, "T1", m, "name")
		mon := e.c.NewMonitor(client.WithConditionalTable(m, []model.Condition{{Field: ptr, Function: ovsdb.ConditionEqual, Value: 42}}))
		ctx, cancel := e.ctx()
		defer cancel()
		_, err := e.c.Monitor(ctx, mon)
		return err
	}},
	{"monitor:no-tables", func(e *c18Env) error {
		ctx, cancel := e.ctx()
		defer cancel()
		_, err := e.c.Monitor(ctx, e.c.NewMonitor())
		return err
	}},
	{"monitor:unknown-table", func(e *c18Env) error {
		ctx, cancel := e.ctx()
		defer cancel()
		m := e.c.NewMonitor()
		m.Tables = []client.TableMonitor{{Table: "NoSuchTable"}}
		_, err := e.c.Monitor(ctx, m)
		return err
	}},
	{"monitor:unsupported-method", func(e *c18Env) error {
		ctx, cancel := e.ctx()
		defer cancel()
		m := e.c.NewMonitor(client.WithTable(e.w.NewModel("T1")))
		m.Method = "monitor_bogus"
		_, err := e.c.Monitor(ctx, m)
		return err
	}},
	{"monitor:cancelled-context", func(e *c18Env) error {
		ctx, cancel := context.WithCancel(context.Background())
		cancel()
		_, err := e.c.Monitor(ctx, e.c.NewMonitor(client.WithTable(e.w.NewModel("T1"))))
		return err
	}},
	{"monitor:not-connected", func(e *c18Env) error {
		e.c.Disconnect()
		time.Sleep(2 * time.Millisecond)
		ctx, cancel := e.ctx()
		defer cancel()
		_, err := e.c.Monitor(ctx, e.c.NewMonitor(client.WithTable(e.w.NewModel("T1"))))
		return err
	}},
	{"monitor:server-error", func(e *c18Env) error {
		return monitorThroughRefusingServer(e, map[string]string{"monitor_cond_since": "boom"})
	}},
	{"monitor:fallback-to-monitor_cond-fails", func(e *c18Env) error {
		return monitorThroughRefusingServer(e, map[string]string{"monitor_cond_since": "unknown method", "monitor_cond": "boom"})
	}},
	{"monitor:fallback-to-monitor-fails", func(e *c18Env) error {
		return monitorThroughRefusingServer(e, map[string]string{"monitor_cond_since": "unknown method", "monitor_cond": "unknown method", "monitor": "boom"})
	}},
	{"monitor:no-method-supported", func(e *c18Env) error {
		return monitorThroughRefusingServer(e, map[string]string{"monitor_cond_since": "unknown method", "monitor_cond": "unknown method", "monitor": "unknown method"})
	}},
	{"transact:rpc-error", func(e *c18Env) error {
		e.px.SetMethodErrors(map[string]string{"transact": "boom"})
		defer e.px.SetMethodErrors(nil)
		ctx, cancel := e.ctx()
		defer cancel()
		_, err := e.c.Transact(ctx, ovsdb.Operation{Op: "select", Table: "T0", Where: []ovsdb.Condition{}})
		return err
	}},
	{"monitor:table-already-monitored", func(e *c18Env) error {
		// with MonitorAll in place the reply of a second monitor on T0 cannot be applied
		// (its row is cached already); without it the call simply succeeds
		ctx, cancel := e.ctx()
		defer cancel()
		_, err := e.c.Monitor(ctx, e.c.NewMonitor(client.WithTable(e.w.NewModel("T0"))))
		return err
	}},
	{"monitor:notification-that-cannot-be-applied-before-the-reply", func(e *c18Env) error {
		// the server (proxy) sends, right before the monitor reply, an update for that very
		// monitor which modifies a row nobody has: it is deferred, then fails to apply
		e.mu.Lock()
		e.inject = func(dir int, method string, id json.RawMessage, raw json.RawMessage) ([]json.RawMessage, []json.RawMessage) {
			if dir == kit.C2S && strings.HasPrefix(method, "monitor") && method != "monitor_cancel" {
				e.pendingID = string(id)
			}
			if dir == kit.S2C && method == "" && e.pendingID != "" && string(id) == e.pendingID {
				e.pendingID = ""
				return []json.RawMessage{bogusNotification(e.lastMethod, e.lastCookie), raw}, nil
			}
			return nil, nil
		}
		e.mu.Unlock()
		defer func() { e.mu.Lock(); e.inject = nil; e.mu.Unlock() }()
		ctx, cancel := e.ctx()
		defer cancel()
		_, err := e.c.Monitor(ctx, e.c.NewMonitor(client.WithTable(e.w.NewModel("T1"))))
		return err
	}},
	{"monitorcancel:notification-that-cannot-be-applied-in-flight", func(e *c18Env) error {
		// the server (the proxy, which unlike libovsdb's server implements monitor_cancel)
		// first sends an update the client cannot apply - the client will want to drop the
		// connection while MonitorCancel is still waiting - and answers 60 ms later
		// (the monitor is a monitor_cond one: its update2 notifications are the ones whose
		// failure makes the client rebuild its cache)
		mctx, mcancel := e.ctx()
		mon := e.c.NewMonitor(client.WithTable(e.w.NewModel("T1")))
		mon.Method = ovsdb.ConditionalMonitorRPC
		ck, merr := e.c.Monitor(mctx, mon)
		mcancel()
		if merr != nil {
			return fmt.Errorf("harness: monitor_cond on T1: %w", merr)
		}
		e.mu.Lock()
		cookie, method := e.lastCookie, e.lastMethod
		e.inject = func(dir int, m string, id json.RawMessage, raw json.RawMessage) ([]json.RawMessage, []json.RawMessage) {
			if dir == kit.C2S && m == "monitor_cancel" && cookie != nil {
				reply := json.RawMessage(`{"id":` + string(id) + `,"result":{},"error":null}`)
				return []json.RawMessage{}, []json.RawMessage{bogusNotification(method, cookie), json.RawMessage(`"sleep:60ms"`), reply}
			}
			return nil, nil
		}
		e.mu.Unlock()
		defer func() { e.mu.Lock(); e.inject = nil; e.mu.Unlock() }()
		ctx, cancel := e.ctx()
		defer cancel()
		if err := e.c.MonitorCancel(ctx, ck); err != nil {
			return err
		}
		// the call itself succeeds; what has to fail is nothing: this entry is about the
		// follow-up calls while the client reconnects
		return fmt.Errorf("(no error expected)")
	}},
	{"echo:notification-that-cannot-be-applied-and-connection-lost", func(e *c18Env) error {
		// two reasons to tear the connection down at once: the server (the proxy) answers an
		// echo with an update the client cannot apply - the client's error consumer decides
		// to disconnect - and the connection is lost a moment later (0-3 ms, varied from
		// combination to combination) - the disconnect handler runs
		mctx, mcancel := e.ctx()
		mon := e.c.NewMonitor(client.WithTable(e.w.NewModel("T1")))
		mon.Method = ovsdb.ConditionalMonitorRPC
		_, merr := e.c.Monitor(mctx, mon)
		mcancel()
		if merr != nil {
			return fmt.Errorf("harness: monitor_cond on T1: %w", merr)
		}
		e.mu.Lock()
		cookie, method := e.lastCookie, e.lastMethod
		sent := make(chan struct{}, 1)
		e.inject = func(dir int, m string, id json.RawMessage, raw json.RawMessage) ([]json.RawMessage, []json.RawMessage) {
			if dir == kit.C2S && m == "echo" && cookie != nil {
				select {
				case sent <- struct{}{}:
				default:
				}
				return []json.RawMessage{}, []json.RawMessage{bogusNotification(method, cookie)}
			}
			return nil, nil
		}
		e.mu.Unlock()
		defer func() { e.mu.Lock(); e.inject = nil; e.mu.Unlock() }()
		delay := []time.Duration{0, 100 * time.Microsecond, 300 * time.Microsecond, time.Millisecond, 3 * time.Millisecond}[int(atomic.AddInt32(&c18Vary, 1))%5]
		go func() {
			select {
			case <-sent:
				time.Sleep(delay)
				e.px.CutAll()
			case <-time.After(3 * time.Second):
			}
		}()
		ctx, cancel := e.ctx()
		defer cancel()
		if err := e.c.Echo(ctx); err != nil {
			return err
		}
		return fmt.Errorf("(the echo was answered after all)")
	}},
	{"transact:validation", func(e *c18Env) error {
		ctx, cancel := e.ctx()
		defer cancel()
		_, err := e.c.Transact(ctx, ovsdb.Operation{Op: "insert", Table: "T0", Row: ovsdb.Row{"nosuchcolumn": 1}})
		return err
	}},
	{"transact:unknown-table", func(e *c18Env) error {
		ctx, cancel := e.ctx()
		defer cancel()
		_, err := e.c.Transact(ctx, ovsdb.Operation{Op: "insert", Table: "NoSuchTable", Row: ovsdb.Row{}})
		return err
	}},
	{"transact:expired-context", func(e *c18Env) error {
		ctx, cancel := context.WithTimeout(context.Background(), time.Nanosecond)
		defer cancel()
		time.Sleep(time.Millisecond)
		_, err := e.c.Transact(ctx, ovsdb.Operation{Op: "select", Table: "T0", Where: []ovsdb.Condition{}})
		return err
	}},
	{"transact:not-connected", func(e *c18Env) error {
		e.c.Disconnect()
		time.Sleep(2 * time.Millisecond)
		ctx, cancel := context.WithTimeout(context.Background(), 300*time.Millisecond)
		defer cancel()
		_, err := e.c.Transact(ctx, ovsdb.Operation{Op: "select", Table: "T0", Where: []ovsdb.Condition{}})
		return err
	}},
	{"transact:server-error", func(e *c18Env) error {
		ctx, cancel := e.ctx()
		defer cancel()
		res, err := e.c.Transact(ctx, ovsdb.Operation{Op: "mutate", Table: "T0", Where: []ovsdb.Condition{}, Mutations: []ovsdb.Mutation{{Column: "name", Mutator: "+=", Value: "x"}}},
			ovsdb.Operation{Op: "insert", Table: "T0", Row: ovsdb.Row{"name": 5}})
		if err == nil {
			for _, r := range res {
				if r.Error != "" {
					return fmt.Errorf("%s", r.Error)
				}
			}
		}
		return err
	}},
	{"monitorcancel:not-implemented", func(e *c18Env) error {
		ctx, cancel := e.ctx()
		defer cancel()
		return e.c.MonitorCancel(ctx, e.cookie)
	}},
	{"echo:disabled", func(e *c18Env) error {
		e.srv.Srv.DoEcho(false)
		defer e.srv.Srv.DoEcho(true)
		ctx, cancel := e.ctx()
		defer cancel()
		return e.c.Echo(ctx)
	}},
	{"get:miss", func(e *c18Env) error {
		ctx, cancel := e.ctx()
		defer cancel()
		m := e.w.ModelFromRow("T0", kit.MkUUID(424242), kit.Row{})
		return e.c.Get(ctx, m)
	}},
	{"list:wrong-type", func(e *c18Env) error {
		ctx, cancel := e.ctx()
		defer cancel()
		var x []string
		return e.c.List(ctx, &x)
	}},
	{"list:not-a-pointer", func(e *c18Env) error {
		ctx, cancel := e.ctx()
		defer cancel()
		return e.c.List(ctx, []int{})
	}},
	{"where:no-models", func(e *c18Env) error {
		ctx, cancel := e.ctx()
		defer cancel()
		var out []interface{}
		return e.c.Where().List(ctx, &out)
	}},
	{"setoption:while-connected", func(e *c18Env) error {
		// "It may only be called when the client is not connected": refused, nothing changes
		return e.c.SetOption(client.WithReconnect(500*time.Millisecond, backoff.NewConstantBackOff(5*time.Millisecond)))
	}},
	{"setoption:option-refused-while-disconnected", func(e *c18Env) error {
		e.c.Disconnect()
		for i := 0; i < 2000 && e.c.Connected(); i++ {
			time.Sleep(time.Millisecond)
		}
		var err error
		for i := 0; i < 200; i++ {
			// an endpoint that is not a URL: the option itself reports the error
			if err = e.c.SetOption(client.WithEndpoint("%zz")); err == nil || !strings.Contains(err.Error(), "connected") {
				break
			}
			time.Sleep(time.Millisecond)
		}
		return err
	}},
	{"setoption:accepted-while-disconnected", func(e *c18Env) error {
		e.c.Disconnect()
		for i := 0; i < 2000 && e.c.Connected(); i++ {
			time.Sleep(time.Millisecond)
		}
		var err error
		for i := 0; i < 200; i++ {
			if err = e.c.SetOption(client.WithInactivityCheck(3*time.Second, 2*time.Second, backoff.NewConstantBackOff(5*time.Millisecond))); err == nil {
				break
			}
			time.Sleep(time.Millisecond)
		}
		if err != nil {
			return err
		}
		return fmt.Errorf("(no error expected)")
	}},
	{"create:foreign-model", func(e *c18Env) error {
		type stranger struct {
			UUID string `ovsdb:"_uuid"`
		}
		_, err := e.c.Create(&stranger{})
		return err
	}},
}

var c18FollowUps = []struct {
	name string
	run  func(e *c18Env) error
}{
	{"disconnect+connect", func(e *c18Env) error {
		e.c.Disconnect()
		ctx, cancel := context.WithTimeout(context.Background(), 5*time.Second)
		defer cancel()
		// Disconnect is asynchronous: Connect may report "already connected" (nil) right after it
		var err error
		for i := 0; i < 200; i++ {
			if err = e.c.Connect(ctx); err == nil && e.c.Connected() {
				return nil
			}
			time.Sleep(time.Millisecond)
		}
		return fmt.Errorf("could not connect again: %v", err)
	}},
	{"close+connect", func(e *c18Env) error {
		e.c.Close()
		ctx, cancel := context.WithTimeout(context.Background(), 5*time.Second)
		defer cancel()
		var err error
		for i := 0; i < 200; i++ {
			if err = e.c.Connect(ctx); err == nil && e.c.Connected() {
				return nil
			}
			time.Sleep(time.Millisecond)
		}
		return fmt.Errorf("could not connect again: %v", err)
	}},
	{"disconnect+setoption+connect", func(e *c18Env) error {
		// SetOption is refused while connected and accepted afterwards; whichever happens, the
		// calls return and the client connects again
		_ = e.c.SetOption(client.WithLeaderOnly(false))
		e.c.Disconnect()
		ctx, cancel := context.WithTimeout(context.Background(), 5*time.Second)
		defer cancel()
		var err error
		for i := 0; i < 200; i++ {
			_ = e.c.SetOption(client.WithLeaderOnly(false))
			if err = e.c.Connect(ctx); err == nil && e.c.Connected() {
				return nil
			}
			time.Sleep(time.Millisecond)
		}
		return fmt.Errorf("could not connect again: %v", err)
	}},
	{"monitor", func(e *c18Env) error {
		if !e.c.Connected() {
			return nil
		}
		ctx, cancel := e.ctx()
		defer cancel()
		_, err := e.c.Monitor(ctx, e.c.NewMonitor(client.WithTable(e.w.NewModel("T1"))))
		return err
	}},
	{"transact", func(e *c18Env) error {
		if !e.c.Connected() {
			return nil
		}
		ctx, cancel := e.ctx()
		defer cancel()
		_, err := e.c.Transact(ctx, ovsdb.Operation{Op: "insert", Table: "T1", Row: ovsdb.Row{"v": 1}})
		return err
	}},
	{"get", func(e *c18Env) error {
		if !e.c.Connected() {
			return nil
		}
		ctx, cancel := e.ctx()
		defer cancel()
		_ = e.c.Get(ctx, e.w.ModelFromRow("T0", kit.MkUUID(1), kit.Row{}))
		return nil
	}},
	{"get:unbounded-context", func(e *c18Env) error {
		// cache reads wait for the cache to be consistent or for their context: on an idle
		// connected client they must return without the help of a deadline
		if !e.c.Connected() {
			return nil
		}
		_ = e.c.Get(context.Background(), e.w.ModelFromRow("T0", kit.MkUUID(1), kit.Row{}))
		return nil
	}},
	{"list:unbounded-context", func(e *c18Env) error {
		if !e.c.Connected() {
			return nil
		}
		return e.c.List(context.Background(), reflectNewSlicePtr(e.w, "T0"))
	}},
	{"echo", func(e *c18Env) error {
		if !e.c.Connected() {
			return nil
		}
		ctx, cancel := e.ctx()
		defer cancel()
		return e.c.Echo(ctx)
	}},
	{"list", func(e *c18Env) error {
		if !e.c.Connected() {
			return nil
		}
		ctx, cancel := e.ctx()
		defer cancel()
		out := reflectNewSlicePtr(e.w, "T0")
		return e.c.List(ctx, out)
	}},
}

// epilogue: the client must be fully usable afterwards.
func c18Epilogue(e *c18Env) error {
	e.c.Close()
	ctx, cancel := context.WithTimeout(context.Background(), 10*time.Second)
	defer cancel()
	var err error
	for i := 0; i < 500; i++ {
		if err = e.c.Connect(ctx); err == nil && e.c.Connected() {
			break
		}
		time.Sleep(time.Millisecond)
	}
	if err != nil || !e.c.Connected() {
		return fmt.Errorf("epilogue Connect: %v (connected %v)", err, e.c.Connected())
	}
	if err := e.c.Echo(ctx); err != nil {
		return fmt.Errorf("epilogue Echo: %v", err)
	}
	m := e.w.ModelFromRow("T0", kit.MkUUID(1), kit.Row{})
	gctx, gcancel := context.WithTimeout(context.Background(), 300*time.Millisecond)
	gerr := e.c.Get(gctx, m)
	gcancel()
	if gerr == nil {
		// a reconnect that was in progress when Close was called has restored the monitors
		return nil
	}
	if _, err := e.c.Monitor(ctx, e.c.NewMonitor(client.WithTable(e.w.NewModel("T0")))); err != nil {
		return fmt.Errorf("epilogue Monitor: %v", err)
	}
	m = e.w.ModelFromRow("T0", kit.MkUUID(1), kit.Row{})
	if err := e.c.Get(ctx, m); err != nil {
		return fmt.Errorf("epilogue Get of the seeded row: %v", err)
	}
	return nil
}

func newC18Env(tb testing.TB, w *kit.World, opts ...client.Option) *c18Env {
	srv, err := kit.StartServer(w)
	if err != nil {
		tb.Fatalf("server: %v", err)
	}
	px, err := kit.StartProxy(srv.Sock)
	if err != nil {
		tb.Fatalf("proxy: %v", err)
	}
	c, err := kit.NewClient(w, px.Endpoint(), opts...)
	if err != nil {
		tb.Fatalf("client: %v", err)
	}
	ctx, cancel := context.WithTimeout(context.Background(), 10*time.Second)
	defer cancel()
	if err := c.Connect(ctx); err != nil {
		tb.Fatalf("connect: %v", err)
	}
	if _, err := kit.TransactOps(ctx, w, c, []kit.Op{{Op: "insert", Table: "T0", UUID: kit.MkUUID(1), Row: kit.Row{"name": kit.Scalar(kit.Str("seed")), "a": kit.Scalar(kit.Int(0)), "b": kit.Scalar(kit.Int(0))}}}); err != nil {
		tb.Fatalf("seed: %v", err)
	}
	e := &c18Env{w: w, srv: srv, px: px, c: c}
	px.SetTamper2(func(dir int, raw json.RawMessage) ([]json.RawMessage, []json.RawMessage) {
		var msg struct {
			Method string            `json:"method"`
			Params []json.RawMessage `json:"params"`
			ID     json.RawMessage   `json:"id"`
		}
		if json.Unmarshal(raw, &msg) != nil {
			return nil, nil
		}
		e.mu.Lock()
		defer e.mu.Unlock()
		if dir == kit.C2S && strings.HasPrefix(msg.Method, "monitor") && msg.Method != "monitor_cancel" && len(msg.Params) >= 2 {
			e.lastCookie, e.lastMethod = msg.Params[1], msg.Method
		}
		if e.inject != nil {
			return e.inject(dir, msg.Method, msg.ID, raw)
		}
		return nil, nil
	})
	return e
}

// TestC18Enumerated: every way an API call can fail x every follow-up call, with and
// without a monitor in place: every call must return within its bound and the client must
// be usable afterwards.
func TestC18Enumerated(t *testing.T) {
	w := c18World(t)
	combos := 0
	for _, withMonitor := range []bool{false, true} {
		for _, f := range c18Failing {
			for _, fu := range c18FollowUps {
				e := newC18Env(t, w)
				kase := map[string]interface{}{"failing": f.name, "followUp": fu.name, "withMonitor": withMonitor}
				if withMonitor {
					ctx, cancel := e.ctx()
					ck, err := e.c.MonitorAll(ctx)
					cancel()
					if err != nil {
						t.Fatalf("MonitorAll: %v", err)
					}
					e.cookie = ck
				}
				var ferr, fuerr, eperr error
				steps := []struct {
					name string
					fn   func()
				}{
					{f.name, func() { ferr = f.run(e) }},
					{fu.name, func() { fuerr = fu.run(e) }},
					{"epilogue", func() { eperr = c18Epilogue(e) }},
				}
				for _, st := range steps {
					ok, stacks := watchdog(c18CallBound, st.fn)
					if !ok {
						kase["stacks"] = stacks
						fmt.Printf("VERIF-HANG %s after %s\n", st.name, f.name)
						kit.Fail(t, "C18", "liveness.hang", kase, "%s did not return within %v (failing call %s, follow-up %s, monitor %v)\n%s", st.name, c18CallBound, f.name, fu.name, withMonitor, firstBlocked(stacks))
					}
				}
				if ferr == nil && !strings.HasPrefix(f.name, "echo:") {
					// the call was expected to fail; if it does not, the enumeration is not what it claims (harness issue, not a violation)
					kit.Label("C18", "enumerated:did-not-fail:"+f.name)
				}
				_ = fuerr
				if eperr != nil {
					kit.Fail(t, "C18", "liveness.unusable-afterwards", kase, "after %s then %s (monitor %v): %v", f.name, fu.name, withMonitor, eperr)
				}
				e.c.Close()
				e.px.Close()
				e.srv.Close()
				combos++
				kit.Record("C18", fmt.Sprintf("enum|%s|%s|%v", f.name, fu.name, withMonitor), true, func() interface{} { return kase }, "enumerated")
			}
		}
	}
	kit.MarkExhaustive("C18", fmt.Sprintf("enumerated %d (failing call, follow-up, monitor present) combinations completely", combos))
}

func firstBlocked(stacks string) string {
	var out []string
	for _, g := range strings.Split(stacks, "\n\n") {
		if strings.Contains(g, "libovsdb/client.") && (strings.Contains(g, "sync.") || strings.Contains(g, "chan ")) {
			lines := strings.Split(g, "\n")
			if len(lines) > 12 {
				lines = lines[:12]
			}
			out = append(out, strings.Join(lines, "\n"))
		}
	}
	if len(out) > 4 {
		out = out[:4]
	}
	return strings.Join(out, "\n\n")
}

func reflectNewSlicePtr(w *kit.World, table string) interface{} {
	return newSlicePtr(w.Types[table])
}

// TestC18Concurrent (built with -race): 2-4 goroutines run drawn lists of API calls while
// a writer commits transactions that keep two columns equal and a chaos goroutine cuts the
// connection; no call may hang, no reader may see a row whose two columns differ, and the
// client must be usable afterwards.
func TestC18Concurrent(t *testing.T) {
	w := c18World(t)
	rapid.Check(t, func(t *rapid.T) {
		srv, err := kit.StartServer(w)
		if err != nil {
			t.Fatalf("server: %v", err)
		}
		defer srv.Close()
		px, err := kit.StartProxy(srv.Sock)
		if err != nil {
			t.Fatalf("proxy: %v", err)
		}
		defer px.Close()
		bg := context.Background()
		writer, _ := kit.NewClient(w, srv.Endpoint())
		if err := writer.Connect(bg); err != nil {
			t.Fatal(err)
		}
		defer writer.Close()
		// connection options: none, reconnect, or reconnect driven by the inactivity probe
		mode := rapid.SampledFrom([]string{"plain", "reconnect", "reconnect", "inactivity"}).Draw(t, "mode")
		reconnect := mode != "plain"
		var opts []client.Option
		switch mode {
		case "reconnect":
			opts = append(opts, client.WithReconnect(2*time.Second, backoff.NewConstantBackOff(2*time.Millisecond)))
		case "inactivity":
			opts = append(opts, client.WithInactivityCheck(time.Duration(rapid.SampledFrom([]int{40, 120, 1000}).Draw(t, "inactivityms"))*time.Millisecond, 2*time.Second, backoff.NewConstantBackOff(2*time.Millisecond)))
		}
		c, err := kit.NewClient(w, px.Endpoint(), opts...)
		if err != nil {
			t.Fatal(err)
		}
		if err := c.Connect(bg); err != nil {
			t.Fatal(err)
		}
		defer c.Close()
		for i := 1; i <= 3; i++ {
			if _, err := kit.TransactOps(bg, w, writer, []kit.Op{{Op: "insert", Table: "T0", UUID: kit.MkUUID(i), Row: kit.Row{"name": kit.Scalar(kit.Str(fmt.Sprintf("r%d", i))), "a": kit.Scalar(kit.Int(0)), "b": kit.Scalar(kit.Int(0)), "tags": kit.SetOf(kit.Str("x"), kit.Str("y"))}}}); err != nil {
				t.Fatal(err)
			}
		}
		// monitors of one client cover disjoint tables: T0 now, T1 by the first "monitor" action only
		if _, err := c.Monitor(bg, c.NewMonitor(client.WithTable(w.NewModel("T0")))); err != nil {
			t.Fatalf("Monitor: %v", err)
		}
		var t1Monitored int32
		ng := rapid.IntRange(2, 4).Draw(t, "ngoroutines")
		callNames := []string{"get", "list", "liststructs", "wherecache", "where", "transact", "monitor", "monitorcancel", "echo", "disconnect", "connect", "cacherows"}
		if !reconnect {
			callNames = append(callNames, "close")
		}
		progs := make([][]string, ng)
		for g := range progs {
			progs[g] = rapid.SliceOfN(rapid.SampledFrom(callNames), 4, 14).Draw(t, "calls")
		}
		cuts := rapid.IntRange(0, 3).Draw(t, "cuts")
		kase := map[string]interface{}{"programs": progs, "reconnect": reconnect, "mode": mode, "cuts": cuts}
		kit.Label("C18", "mode:"+mode)
		var torn atomic.Value
		var hang atomic.Value
		var overlapped int32
		var inNotify int32
		checkRow := func(m interface{}) {
			_, r, err := w.RowFromModel("T0", m)
			if err == nil && r["a"].K[0].I != r["b"].K[0].I {
				torn.Store(fmt.Sprintf("row with a=%d b=%d", r["a"].K[0].I, r["b"].K[0].I))
			}
		}
		stopWriter := make(chan struct{})
		var wwg sync.WaitGroup
		wwg.Add(1)
		go func() {
			defer wwg.Done()
			n := int64(0)
			for {
				select {
				case <-stopWriter:
					return
				default:
				}
				n++
				ctx, cancel := context.WithTimeout(bg, 5*time.Second)
				atomic.StoreInt32(&inNotify, 1)
				_, _ = kit.TransactOps(ctx, w, writer, []kit.Op{{Op: "update", Table: "T0", Where: []kit.Cond{}, Row: kit.Row{"a": kit.Scalar(kit.Int(n)), "b": kit.Scalar(kit.Int(n))}}})
				atomic.StoreInt32(&inNotify, 0)
				cancel()
				time.Sleep(200 * time.Microsecond)
			}
		}()
		var cwg sync.WaitGroup
		cwg.Add(1)
		go func() {
			defer cwg.Done()
			for i := 0; i < cuts; i++ {
				time.Sleep(time.Duration(3+i*4) * time.Millisecond)
				px.CutAll()
			}
		}()
		one := func(name string) {
			ctx, cancel := context.WithTimeout(bg, 1500*time.Millisecond)
			defer cancel()
			if atomic.LoadInt32(&inNotify) == 1 {
				atomic.AddInt32(&overlapped, 1)
			}
			switch name {
			case "get":
				m := w.ModelFromRow("T0", kit.MkUUID(1), kit.Row{})
				if c.Get(ctx, m) == nil {
					checkRow(m)
				}
			case "list":
				out := newSlicePtr(w.Types["T0"])
				if c.List(ctx, out) == nil {
					forEachElem(out, checkRow)
				}
			case "liststructs":
				// List into a slice of structs; the caller owns the result: it writes through the set
				// of every element (if the result shared memory with the cache, the race detector and
				// the other readers would notice)
				out := reflect.New(reflect.SliceOf(w.Types["T0"].Elem())).Interface()
				if c.List(ctx, out) == nil {
					sl := reflect.ValueOf(out).Elem()
					for i := 0; i < sl.Len(); i++ {
						checkRow(sl.Index(i).Addr().Interface())
						for f := 0; f < sl.Index(i).NumField(); f++ {
							if fv := sl.Index(i).Field(f); fv.Kind() == reflect.Slice && fv.CanSet() {
								scribbleValue(fv)
							}
						}
					}
				}
			case "wherecache":
				out := newSlicePtr(w.Types["T0"])
				pred := makePredicate(w.Types["T0"], func(interface{}) bool { return true })
				if c.WhereCache(pred).List(ctx, out) == nil {
					forEachElem(out, checkRow)
				}
			case "where":
				out := newSlicePtr(w.Types["T0"])
				m := w.ModelFromRow("T0", kit.MkUUID(2), kit.Row{})
				if c.Where(m).List(ctx, out) == nil {
					forEachElem(out, checkRow)
				}
			case "cacherows":
				if tc := c.Cache(); tc != nil {
					if tb := tc.Table("T0"); tb != nil {
						for _, m := range tb.Rows() {
							checkRow(m)
						}
					}
				}
			case "transact":
				_, _ = c.Transact(ctx, ovsdb.Operation{Op: "insert", Table: "T1", Row: ovsdb.Row{"v": 1}})
			case "monitor":
				if atomic.CompareAndSwapInt32(&t1Monitored, 0, 1) {
					if _, err := c.Monitor(ctx, c.NewMonitor(client.WithTable(w.NewModel("T1")))); err != nil {
						atomic.StoreInt32(&t1Monitored, 0)
					}
				} else {
					_, _ = c.Monitor(ctx, c.NewMonitor()) // fails: no tables
				}
			case "monitorcancel":
				_ = c.MonitorCancel(ctx, client.MonitorCookie{DatabaseName: "DB", ID: "x"})
			case "echo":
				_ = c.Echo(ctx)
			case "disconnect":
				c.Disconnect()
			case "connect":
				_ = c.Connect(ctx)
			case "close":
				c.Close()
			}
		}
		var gwg sync.WaitGroup
		for g := range progs {
			gwg.Add(1)
			go func(g int) {
				defer gwg.Done()
				for _, name := range progs[g] {
					name := name
					ok, stacks := watchdog(c18CallBound, func() { one(name) })
					if !ok {
						hang.Store([2]string{name, stacks})
						return
					}
				}
			}(g)
		}
		gwg.Wait()
		cwg.Wait()
		close(stopWriter)
		wwg.Wait()
		if h := hang.Load(); h != nil {
			hs := h.([2]string)
			kase["stacks"] = hs[1]
			fmt.Printf("VERIF-HANG %s\n", hs[0])
			kit.Fail(t, "C18", "liveness.hang", kase, "%s did not return within %v although its context allows 1.5 s\n%s", hs[0], c18CallBound, firstBlocked(hs[1]))
		}
		if tr := torn.Load(); tr != nil {
			kit.Fail(t, "C18", "torn-read", kase, "a reader saw a %s: the writer keeps both columns equal in every transaction", tr)
		}
		e := &c18Env{w: w, srv: srv, c: c}
		var eperr error
		ok, stacks := watchdog(30*time.Second, func() { eperr = c18Epilogue(e) })
		if !ok {
			kase["stacks"] = stacks
			fmt.Printf("VERIF-HANG epilogue\n")
			kit.Fail(t, "C18", "liveness.hang", kase, "the epilogue (Close, Connect, Echo, MonitorAll, Get) did not return\n%s", firstBlocked(stacks))
		}
		if eperr != nil {
			kit.Fail(t, "C18", "liveness.unusable-afterwards", kase, "%v", eperr)
		}
		kit.Record("C18", fmt.Sprint(progs, cuts, reconnect), atomic.LoadInt32(&overlapped) >= 2 || cuts > 0, func() interface{} { return kase }, "concurrent", fmt.Sprintf("cuts:%d", cuts))
	})
}

var _ model.Model
