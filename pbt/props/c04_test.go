package props

import (
	"fmt"
	"sort"
	"strings"
	"testing"

	"pgregory.net/rapid"

	"verif/pbt/kit"
)

// refSitesOf lists the reference positions of a table: (column, isMapValue, target table, weak).
type refSiteT struct {
	col   kit.Col
	value bool
	ref   kit.Ref
}

func refSitesOf(t kit.Table) []refSiteT {
	var out []refSiteT
	for _, c := range t.Cols {
		if c.Key.T == kit.TUUID && c.Key.Ref != nil && c.Key.Ref.Table != "" {
			out = append(out, refSiteT{c, false, *c.Key.Ref})
		}
		if c.Value != nil && c.Value.T == kit.TUUID && c.Value.Ref != nil && c.Value.Ref.Table != "" {
			out = append(out, refSiteT{c, true, *c.Value.Ref})
		}
	}
	return out
}

func targetsOf(site refSiteT, row kit.Row) []string {
	v := row[site.col.Name]
	src := v.K
	if site.value {
		src = v.V
	}
	seen := map[string]bool{}
	var out []string
	for _, a := range src {
		if !seen[a.S] {
			seen[a.S] = true
			out = append(out, a.S)
		}
	}
	return out
}

// checkRefInvariants recomputes referential integrity from a full scan of the
// database contents (I1-I3) and compares Database.GetReferences with the
// references recomputed from the rows (I5).
func checkRefInvariants(l *l1, extraUUIDs []string) *mismatch {
	st, err := l.DB.Snapshot()
	if err != nil {
		return mm("state.unreadable", "%v", err)
	}
	s := l.W.S
	// recomputed: "fromTable.col/value->toTable:to" -> sorted referrers
	want := map[string]map[string][]string{} // toTable/to -> spec -> from
	strongReferrers := map[string]int{}
	for _, t := range s.Tables {
		for _, site := range refSitesOf(t) {
			for _, u := range kit.SortedUUIDs(st[t.Name]) {
				for _, to := range targetsOf(site, st[t.Name][u]) {
					if to == kit.ZeroUUID {
						continue
					}
					_, exists := st[site.ref.Table][to]
					if !exists {
						kind := "strong"
						if site.ref.Weak {
							kind = "weak"
						}
						return mm("integrity."+kind+"-dangling", "%s reference %s.%s of row %s points to missing row %s of %s", kind, t.Name, site.col.Name, u, to, site.ref.Table)
					}
					if !site.ref.Weak {
						strongReferrers[site.ref.Table+"/"+to]++
					}
					key := site.ref.Table + "/" + to
					spec := fmt.Sprintf("%s.%s/%v->%s", t.Name, site.col.Name, site.value, site.ref.Table)
					if want[key] == nil {
						want[key] = map[string][]string{}
					}
					want[key][spec] = append(want[key][spec], u)
				}
			}
		}
	}
	for _, t := range s.Tables {
		if s.IsRoot(t.Name) {
			continue
		}
		for _, u := range kit.SortedUUIDs(st[t.Name]) {
			if strongReferrers[t.Name+"/"+u] == 0 {
				return mm("integrity.unreferenced-non-root", "row %s of non-root table %s is not strongly referenced by any row", u, t.Name)
			}
		}
	}
	// I5
	check := func(table, u string) *mismatch {
		got, err := l.DB.RefsKey(table, u)
		if err != nil {
			return mm("state.unreadable", "%v", err)
		}
		var parts []string
		for spec, from := range want[table+"/"+u] {
			f := append([]string{}, from...)
			sort.Strings(f)
			parts = append(parts, fmt.Sprintf("%s:%s:%v", spec, u, f))
		}
		sort.Strings(parts)
		if w := fmt.Sprint(parts); w != got {
			return mm("references.index-differs", "GetReferences(%s, %s) = %s, recomputed from the stored rows: %s", table, u, got, w)
		}
		return nil
	}
	for _, t := range s.Tables {
		for u := range st[t.Name] {
			if m := check(t.Name, u); m != nil {
				return m
			}
		}
		for _, u := range extraUUIDs {
			if m := check(t.Name, u); m != nil {
				return m
			}
		}
	}
	return nil
}

var cfgC04 = kit.TxnCfg{MaxOps: 4, Named: true, OmitUUID: true, RefBias: true, MaxRows: 5}

func c04After(l *l1, info *stepInfo) ([]string, bool, *mismatch) {
	// uuids that recently existed or are deliberately dangling
	extra := []string{kit.MkUUID(700001), kit.MkUUID(700002)}
	for _, rows := range info.Pre {
		for u := range rows {
			extra = append(extra, u)
		}
	}
	sort.Strings(extra)
	if m := checkRefInvariants(l, extra); m != nil {
		return nil, false, m
	}
	var labels []string
	nt := false
	if info.Model.GCDeleted > 0 || info.Model.WeakPruned > 0 {
		nt = info.Model.Committed && info.Excluded == ""
	}
	if info.Model.GCDeleted > 0 && info.Model.WeakPruned > 0 {
		labels = append(labels, "commit:gc+prune")
	}
	for _, c := range info.Model.CommitCauses {
		if c == "referential integrity violation" || strings.Contains(info.Model.Detail, "weak reference") {
			nt = true
			labels = append(labels, "commit:rejected-for-references")
		}
	}
	if info.Model.GCDeleted >= 2 {
		labels = append(labels, "commit:gc-chain")
	}
	return labels, nt, nil
}

func TestC04(t *testing.T) {
	rapid.Check(t, func(t *rapid.T) {
		runHistory(t, "C04", kit.ProfileRefs, cfgC04, 20, c04After)
	})
}

// TestC04Independence: the decisions depend only on the rows currently stored. At a
// drawn point of a history a fresh database is loaded with the current rows in one
// bulk transaction; the next transactions are run on both and must give the same
// results and states.
func TestC04Independence(t *testing.T) {
	rapid.Check(t, func(t *rapid.T) {
		kit.PinUUIDs(1)
		s := kit.GenSchema(t, kit.ProfileRefs)
		w, err := kit.BuildWorld(s, nil)
		if err != nil {
			t.Fatalf("world: %v", err)
		}
		l, _ := newL1(w)
		cfg := cfgC04
		cfg.OmitUUID = false
		g := kit.NewTxnGen(s, withBig(t, cfg))
		n := rapid.IntRange(2, 14).Draw(t, "ntxn")
		fork := rapid.IntRange(1, n-1).Draw(t, "fork")
		var hist [][]kit.Op
		var twin *l1
		nontrivial := false
		var labels []string
		for i := 0; i < n; i++ {
			if i == fork {
				// bulk load of the current rows into a fresh database
				w2, _ := kit.BuildWorld(s, nil)
				twin, _ = newL1(w2)
				var load []kit.Op
				for _, tb := range s.Tables {
					for _, u := range kit.SortedUUIDs(l.Ref[tb.Name]) {
						load = append(load, kit.Op{Op: "insert", Table: tb.Name, UUID: u, Row: l.Ref[tb.Name][u].Clone()})
					}
				}
				if len(load) > 0 {
					load = rapid.Permutation(load).Draw(t, "loadorder")
					info, m := twin.step(load)
					if m != nil {
						kit.Fail(t, "C04", "independence.load."+m.Class, mkHistCase(s, append(hist, load), i, info), "bulk load of the current rows: %s", m.Msg)
					}
					if d := kit.DiffStates(l.Ref, twin.Ref); len(d) > 0 || !info.Model.Committed {
						kit.Fail(t, "C04", "independence.load", mkHistCase(s, append(hist, load), i, info), "a fresh database loaded with the current rows differs:\n%s", strings.Join(d, "\n"))
					}
				}
			}
			ops := g.GenTxn(t, l.Ref)
			hist = append(hist, ops)
			info, m := l.step(ops)
			if m != nil {
				kit.Fail(t, "C04", m.Class, mkHistCase(s, hist, i, info), "step %d: %s\nops: %s", i, m.Msg, kit.OpsJSON(s, ops))
			}
			if twin != nil {
				info2, m2 := twin.step(ops)
				if m2 != nil {
					kit.Fail(t, "C04", "independence."+m2.Class, mkHistCase(s, hist, i, info2), "step %d on the freshly loaded twin: %s\nops: %s", i, m2.Msg, kit.OpsJSON(s, ops))
				}
				a, b := kit.ResultsJSON(info.Impl.Results), kit.ResultsJSON(info2.Impl.Results)
				if (firstError(info.Impl.Results) >= 0) != (firstError(info2.Impl.Results) >= 0) {
					kit.Fail(t, "C04", "independence.decision", mkHistCase(s, hist, i, info), "step %d: same rows, same transaction, different decisions:\noriginal: %s\n   fresh: %s", i, a, b)
				}
				sa, _ := l.DB.Snapshot()
				sb, _ := twin.DB.Snapshot()
				if d := kit.DiffStates(sa, sb); len(d) > 0 {
					kit.Fail(t, "C04", "independence.state", mkHistCase(s, hist, i, info), "step %d: states diverge:\n%s", i, strings.Join(d, "\n"))
				}
				if m := checkRefInvariants(twin, nil); m != nil {
					kit.Fail(t, "C04", "independence."+m.Class, mkHistCase(s, hist, i, info2), "step %d twin: %s", i, m.Msg)
				}
				if info.Model.GCDeleted > 0 || info.Model.WeakPruned > 0 || len(info.Model.CommitCauses) > 0 {
					nontrivial = true
				}
				labels = append(labels, "independence:compared-step")
			}
		}
		kit.Record("C04", "indep|"+schemaKinds(s)+fmt.Sprint(fork, n), nontrivial, func() interface{} { return mkHistCase(s, hist, -1, nil) }, labels...)
	})
}
