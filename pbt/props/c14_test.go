package props

import (
	"context"
	"encoding/json"
	"fmt"
	"github.com/cenkalti/backoff/v4"
	"github.com/ovn-org/libovsdb/client"
	"sort"
	"strings"
	"sync"
	"testing"
	"time"

	"github.com/ovn-org/libovsdb/cache"
	"github.com/ovn-org/libovsdb/model"
	"github.com/ovn-org/libovsdb/ovsdb"
	"github.com/ovn-org/libovsdb/updates"
	"pgregory.net/rapid"

	"verif/pbt/kit"
	"verif/pbt/refdb"
)

type c14Event struct {
	Kind  string  `json:"kind"`
	Table string  `json:"table"`
	UUID  string  `json:"uuid"`
	Old   kit.Row `json:"old,omitempty"`
	New   kit.Row `json:"new,omitempty"`
}

func (e c14Event) key() string {
	return fmt.Sprintf("%s %s %s old=%s new=%s", e.Kind, e.Table, e.UUID, rowStr(e.Old), rowStr(e.New))
}

// c14Handler records events; the first handler blocks on gate before returning so the
// harness decides how far the dispatcher lags behind the updater.
type c14Handler struct {
	w       *kit.World
	mu      sync.Mutex
	events  []c14Event
	errs    []string
	gate    chan struct{} // nil: never blocks
	entered chan struct{} // with gate: signalled when the handler starts waiting on it
	ack     chan struct{} // nil: no acknowledgement
	mutate  bool          // modify the received models after recording them
}

func (h *c14Handler) record(kind, table string, old, new model.Model) {
	ev := c14Event{Kind: kind, Table: table}
	conv := func(m model.Model) (string, kit.Row) {
		if m == nil {
			return "", nil
		}
		u, r, err := h.w.RowFromModel(table, m)
		if err != nil {
			h.errs = append(h.errs, err.Error())
		}
		return u, r
	}
	var uo, un string
	uo, ev.Old = conv(old)
	un, ev.New = conv(new)
	ev.UUID = un
	if un == "" {
		ev.UUID = uo
	}
	if uo != "" && un != "" && uo != un {
		h.errs = append(h.errs, fmt.Sprintf("update event with different uuids %s / %s", uo, un))
	}
	h.mu.Lock()
	h.events = append(h.events, ev)
	h.mu.Unlock()
	if h.mutate {
		for _, m := range []model.Model{old, new} {
			if m != nil {
				scribble(m)
			}
		}
	}
	if h.gate != nil {
		h.entered <- struct{}{}
		<-h.gate
	}
	if h.ack != nil {
		h.ack <- struct{}{}
	}
}

func (h *c14Handler) OnAdd(table string, m model.Model)       { h.record("add", table, nil, m) }
func (h *c14Handler) OnUpdate(table string, o, n model.Model) { h.record("update", table, o, n) }
func (h *c14Handler) OnDelete(table string, m model.Model)    { h.record("delete", table, m, nil) }

// scribble overwrites every mapped field of a model a handler received.
func scribble(m interface{}) {
	defer func() { _ = recover() }()
	v := reflectElem(m)
	for i := 0; i < v.NumField(); i++ {
		f := v.Type().Field(i)
		if tag := f.Tag.Get("ovsdb"); tag == "" || tag == "_uuid" {
			continue
		}
		fv := v.Field(i)
		scribbleValue(fv)
	}
}

type c14Case struct {
	Schema   json.RawMessage `json:"schema"`
	History  []string        `json:"history"`
	Schedule string          `json:"schedule"`
	Handlers int             `json:"handlers"`
}

// TestC14 (built with -race): a notification history computed by the reference model is
// applied to a cache while the event dispatcher is held back by a drawn schedule; the
// event streams must be a faithful ordered change log.
func TestC14(t *testing.T) {
	rapid.Check(t, func(t *rapid.T) {
		p := kit.ProfileDB
		p.MaxTables = 2
		s := kit.GenSchema(t, p)
		w, err := kit.BuildWorld(s, nil)
		if err != nil {
			t.Fatalf("world: %v", err)
		}
		// history on the reference model only
		g := kit.NewTxnGen(s, kit.TxnCfg{MaxOps: 3, RefBias: true, MaxRows: 5})
		st := kit.State{}
		for _, tb := range s.Tables {
			st[tb.Name] = kit.Rows{}
		}
		type note struct {
			changes []refdb.RowChange
			v1      bool
		}
		var notes []note
		kase := c14Case{Schema: s.JSON()}
		totalEvents := 0
		nt := rapid.IntRange(1, 14).Draw(t, "ntxn")
		perRow := map[string]int{}
		for i := 0; i < nt; i++ {
			ops := g.GenTxn(t, st)
			res := refdb.Exec(s, st, ops, nil)
			if !res.Committed || res.NegativeZero {
				continue
			}
			ch := refdb.Diff(s, st, res.Post)
			st = res.Post
			if len(ch) == 0 {
				continue
			}
			kase.History = append(kase.History, string(kit.OpsJSON(s, ops)))
			notes = append(notes, note{changes: ch, v1: rapid.IntRange(0, 3).Draw(t, "v1") == 0})
			totalEvents += len(ch)
			for _, c := range ch {
				perRow[c.Table+"/"+c.UUID]++
			}
		}
		if len(notes) == 0 {
			t.Skip("history without net changes")
		}
		tc, err := cache.NewTableCache(w.DBModel, nil, nil)
		if err != nil {
			t.Fatalf("cache: %v", err)
		}
		nh := rapid.IntRange(1, 3).Draw(t, "nhandlers")
		kase.Handlers = nh
		gate := make(chan struct{}, totalEvents+1)
		entered := make(chan struct{}, totalEvents+16)
		ack := make(chan struct{}, totalEvents+16)
		var hs []*c14Handler
		for i := 0; i < nh; i++ {
			// the handlers of one cache share the event's models: only the last one modifies them
			h := &c14Handler{w: w, mutate: i == nh-1 && rapid.Bool().Draw(t, "mutatinghandler")}
			if i == 0 {
				h.gate = gate
				h.entered = entered
			}
			if i == nh-1 {
				h.ack = ack
			}
			hs = append(hs, h)
			tc.AddEventHandler(h)
		}
		stop := make(chan struct{})
		done := make(chan struct{})
		stopped := false
		go func(stop, done chan struct{}) { tc.Run(stop); close(done) }(stop, done)
		defer func() {
			// never leave the dispatcher blocked behind the gate
			for i := 0; i < totalEvents+1; i++ {
				select {
				case gate <- struct{}{}:
				default:
				}
			}
			if !stopped {
				close(stop)
			}
			<-done
		}()

		// schedule: A = apply next notification, R = release one event, S = stop the
		// dispatcher (as a disconnect does) and start it again (as the next connection
		// does); r = an event the stopping dispatcher still picked up
		applied, released, queued := 0, 0, 0
		restarts, restartsWithBacklog := 0, 0
		bogus := 0
		cur := kit.State{}
		for _, tb := range s.Tables {
			cur[tb.Name] = kit.Rows{}
		}
		maxLag := 0
		var word strings.Builder
		waitAck := func() bool {
			select {
			case <-ack:
				return true
			case <-time.After(20 * time.Second):
				return false
			}
		}
		fail := func(class, format string, args ...interface{}) {
			kase.Schedule = word.String()
			kit.Fail(t, "C14", class, kase, format, args...)
		}
		for applied < len(notes) || released < totalEvents {
			canA := applied < len(notes)
			canR := released < queued
			if restarts < 3 && rapid.IntRange(0, 5).Draw(t, "restart") == 0 {
				backlog := queued - released
				close(stop)
				stopped = true
			drain:
				for {
					select {
					case <-done:
						break drain
					case <-entered:
						// the dispatcher is inside handler 0 for the next event: let it finish
						gate <- struct{}{}
						if !waitAck() {
							fail("events.missing", "event %d of %d: the handlers were entered but the last one never acknowledged", released+1, totalEvents)
						}
						released++
						word.WriteString("r")
					case <-time.After(20 * time.Second):
						fail("harness.dispatcher-stuck", "the dispatcher neither stopped nor entered a handler")
					}
				}
				stop, done = make(chan struct{}), make(chan struct{})
				stopped = false
				go func(stop, done chan struct{}) { tc.Run(stop); close(done) }(stop, done)
				restarts++
				if backlog >= 2 {
					restartsWithBacklog++
				}
				word.WriteString("S")
				continue
			}
			if bogus < 2 && rapid.IntRange(0, 7).Draw(t, "bogus") == 0 {
				// a notification the cache must refuse (a row it already has is inserted again, a row
				// it does not have is deleted): whatever it answers, it applies nothing, so no
				// event may follow
				tbn := s.Tables[rapid.IntRange(0, len(s.Tables)-1).Draw(t, "bogustable")]
				existing := kit.SortedUUIDs(cur[tbn.Name])
				if len(existing) > 0 && rapid.Bool().Draw(t, "dupinsert") {
					u := rapid.SampledFrom(existing).Draw(t, "dupuuid")
					r, _ := tbn.OvsRow(cur[tbn.Name][u], true)
					_ = tc.Update2(nil, ovsdb.TableUpdates2{tbn.Name: {u: &ovsdb.RowUpdate2{Insert: &r}}})
					word.WriteString("X")
				} else {
					u := kit.MkUUID(880000 + bogus)
					_ = tc.Update(nil, ovsdb.TableUpdates{tbn.Name: {u: &ovsdb.RowUpdate{Old: &ovsdb.Row{}}}})
					word.WriteString("Y")
				}
				bogus++
				continue
			}
			doA := canA && (!canR || rapid.Bool().Draw(t, "apply"))
			if doA {
				n := notes[applied]
				var aerr error
				if n.v1 {
					tu := ovsdb.TableUpdates{}
					for _, c := range n.changes {
						tb := s.Table(c.Table)
						if tu[c.Table] == nil {
							tu[c.Table] = ovsdb.TableUpdate{}
						}
						ru := &ovsdb.RowUpdate{}
						if c.New != nil {
							r, _ := tb.OvsRow(c.New, false)
							ru.New = &r
						}
						if c.Old != nil {
							r, _ := tb.OvsRow(c.Old, false)
							ru.Old = &r
						}
						tu[c.Table][c.UUID] = ru
					}
					aerr = tc.Update(nil, tu)
				} else {
					tu := ovsdb.TableUpdates2{}
					for _, c := range n.changes {
						tb := s.Table(c.Table)
						if tu[c.Table] == nil {
							tu[c.Table] = ovsdb.TableUpdate2{}
						}
						ru := &ovsdb.RowUpdate2{}
						switch {
						case c.Old == nil:
							r, _ := tb.OvsRow(c.New, true)
							ru.Insert = &r
						case c.New == nil:
							ru.Delete = &ovsdb.Row{}
						default:
							r, _ := tb.OvsRow(tb.Update2Diff(c.Old, c.New), false)
							ru.Modify = &r
						}
						tu[c.Table][c.UUID] = ru
					}
					aerr = tc.Update2(nil, tu)
				}
				if aerr != nil {
					fail("cache.apply-error", "notification %d: %v", applied, aerr)
				}
				for _, c := range n.changes {
					if c.New == nil {
						delete(cur[c.Table], c.UUID)
					} else {
						cur[c.Table][c.UUID] = c.New
					}
				}
				queued += len(n.changes)
				applied++
				word.WriteString("A")
				if queued-released > maxLag {
					maxLag = queued - released
				}
				continue
			}
			select {
			case <-entered:
			case <-time.After(20 * time.Second):
				fail("events.missing", "event %d of %d was never delivered (a dispatcher is running, %d events are outstanding, schedule so far %s)", released+1, totalEvents, queued-released, word.String())
			}
			gate <- struct{}{}
			if !waitAck() {
				fail("events.missing", "event %d of %d was never delivered to the last handler (dispatcher released, nothing else outstanding)", released+1, totalEvents)
			}
			released++
			word.WriteString("R")
		}
		// no extra events
		time.Sleep(2 * time.Millisecond)
		select {
		case <-ack:
			fail("events.spurious", "more events delivered than row changes applied (%d)", totalEvents)
		case <-entered:
			fail("events.spurious", "an event is being delivered although all %d applied row changes were delivered already (refused notifications: %d)", totalEvents, bogus)
		default:
		}
		// ---- oracle ----
		ref := hs[0]
		for hi, h := range hs {
			h.mu.Lock()
			evs := append([]c14Event{}, h.events...)
			errs := append([]string{}, h.errs...)
			h.mu.Unlock()
			if len(errs) > 0 {
				fail("events.malformed", "handler %d: %s", hi, strings.Join(errs, "; "))
			}
			if len(evs) != totalEvents {
				fail("events.count", "handler %d saw %d events, %d row changes were applied", hi, len(evs), totalEvents)
			}
			// identical streams
			ref.mu.Lock()
			for i := range evs {
				if evs[i].key() != ref.events[i].key() {
					ref.mu.Unlock()
					fail("events.handlers-differ", "handler %d event %d is %s, handler 0 saw %s", hi, i, evs[i].key(), ref.events[i].key())
				}
			}
			ref.mu.Unlock()
			// replay
			replay := kit.State{}
			for _, tb := range s.Tables {
				replay[tb.Name] = kit.Rows{}
			}
			for i, e := range evs {
				cur, exists := replay[e.Table][e.UUID]
				switch e.Kind {
				case "add":
					if exists {
						fail("events.grammar", "handler %d event %d: add of row %s which was already added", hi, i, e.UUID)
					}
					replay[e.Table][e.UUID] = e.New
				case "update":
					if !exists {
						fail("events.grammar", "handler %d event %d: update of row %s which was not added (or already deleted)", hi, i, e.UUID)
					}
					if rowStr(cur) != rowStr(e.Old) {
						fail("events.old-model", "handler %d event %d: update of %s carries old=%s, the previous state of the row is %s", hi, i, e.UUID, rowStr(e.Old), rowStr(cur))
					}
					if rowStr(e.Old) == rowStr(e.New) {
						fail("events.no-change", "handler %d event %d: update event for %s without any change", hi, i, e.UUID)
					}
					replay[e.Table][e.UUID] = e.New
				case "delete":
					if !exists {
						fail("events.grammar", "handler %d event %d: delete of row %s which does not exist", hi, i, e.UUID)
					}
					if rowStr(cur) != rowStr(e.Old) {
						fail("events.old-model", "handler %d event %d: delete of %s carries %s, the last state of the row is %s", hi, i, e.UUID, rowStr(e.Old), rowStr(cur))
					}
					delete(replay[e.Table], e.UUID)
				}
			}
			// replay == cache contents == reference state
			got := kit.State{}
			for _, tb := range s.Tables {
				rows, err := w.RowsFromModels(tb.Name, tc.Table(tb.Name).Rows())
				if err != nil {
					fail("cache.unreadable", "%v", err)
				}
				got[tb.Name] = rows
			}
			if d := kit.DiffStates(got, replay); len(d) > 0 {
				fail("events.replay-differs", "handler %d: replaying the events does not reproduce the cache contents:\n%s", hi, strings.Join(d, "\n"))
			}
			if d := kit.DiffStates(st, got); len(d) > 0 {
				fail("cache.contents", "cache contents differ from the applied history (a handler modifying its models must not matter):\n%s", strings.Join(d, "\n"))
			}
		}
		rich := false
		for _, n := range perRow {
			if n >= 3 {
				rich = true
			}
		}
		kit.Record("C14", schemaKinds(s)+word.String()+fmt.Sprint(nh), rich && maxLag >= 2, func() interface{} { kase.Schedule = word.String(); return kase },
			fmt.Sprintf("handlers:%d", nh), fmt.Sprintf("maxlag>=2:%v", maxLag >= 2), fmt.Sprintf("dispatcher-restarts:%d", restarts), fmt.Sprintf("refused-notifications:%d", bogus), fmt.Sprintf("restarts-with-backlog>=2:%d", restartsWithBacklog))
	})
}

// permitHandler lets one event through per permit and records the uuids of added rows.
type permitHandler struct {
	permits chan struct{}
	mu      sync.Mutex
	added   map[string]bool
	n       int
}

func (h *permitHandler) OnAdd(table string, m model.Model) {
	<-h.permits
	h.mu.Lock()
	h.n++
	h.added[reflectElem(m).FieldByName("UUID").String()] = true
	h.mu.Unlock()
}
func (h *permitHandler) OnUpdate(table string, o, n model.Model) { <-h.permits }
func (h *permitHandler) OnDelete(table string, m model.Model)    { <-h.permits }

// TestC14Overflow: the documented exemption is exactly the overflow of the 65536-entry
// event buffer. The buffer is overflowed once (the surplus events may be dropped), then
// drained to well above half of its capacity; changes applied from then on - the buffer has
// free slots again - must all be delivered.
func TestC14Overflow(t *testing.T) {
	const capacity = 65536
	w := c16World(t)
	tc, err := cache.NewTableCache(w.DBModel, nil, nil)
	if err != nil {
		t.Fatal(err)
	}
	h := &permitHandler{permits: make(chan struct{}, capacity+64), added: map[string]bool{}}
	tc.AddEventHandler(h)
	stop := make(chan struct{})
	done := make(chan struct{})
	go func() { tc.Run(stop); close(done) }()
	defer func() {
		close(stop)
		for i := 0; i < capacity+64; i++ {
			select {
			case h.permits <- struct{}{}:
			default:
			}
		}
		<-done
	}()
	insert := func(i int) string {
		u := kit.MkUUID(100000 + i)
		r, _ := w.S.Table("T2").OvsRow(kit.Row{"v": kit.Scalar(kit.Real(float64(i)))}, true)
		if err := tc.Update2(nil, ovsdb.TableUpdates2{"T2": {u: &ovsdb.RowUpdate2{Insert: &r}}}); err != nil {
			t.Fatalf("harness: %v", err)
		}
		return u
	}
	total := capacity + 40 // one event is with the blocked handler, the buffer overflows by ~39
	for i := 0; i < total; i++ {
		insert(i)
	}
	kase := map[string]interface{}{"applied_before": total}
	// drain to about 40000 outstanding
	drained := 25000
	for i := 0; i < drained; i++ {
		h.permits <- struct{}{}
	}
	deadline := time.Now().Add(60 * time.Second)
	for {
		h.mu.Lock()
		n := h.n
		h.mu.Unlock()
		if n >= drained {
			break
		}
		if time.Now().After(deadline) {
			kit.Fail(t, "C14", "events.missing", kase, "only %d of %d released events were delivered within 60 s", n, drained)
		}
		time.Sleep(time.Millisecond)
	}
	// the buffer has more than 20000 free slots now
	var late []string
	for i := 0; i < 5; i++ {
		late = append(late, insert(total+i))
	}
	for i := 0; i < capacity+16; i++ {
		select {
		case h.permits <- struct{}{}:
		default:
		}
	}
	deadline = time.Now().Add(60 * time.Second)
	for {
		h.mu.Lock()
		missing := 0
		for _, u := range late {
			if !h.added[u] {
				missing++
			}
		}
		n := h.n
		h.mu.Unlock()
		if missing == 0 {
			break
		}
		if time.Now().After(deadline) {
			kit.Fail(t, "C14", "events.dropped-without-overflow", kase, "%d of 5 changes applied while the event buffer had >20000 free slots never reached the handler (%d events delivered in all)", missing, n)
		}
		time.Sleep(2 * time.Millisecond)
	}
	h.mu.Lock()
	n := h.n
	h.mu.Unlock()
	if n < capacity || n > total+5 {
		kit.Fail(t, "C14", "events.count", kase, "%d events delivered for %d applied changes with a buffer of %d", n, total+5, capacity)
	}
	kit.Record("C14", "overflow", true, func() interface{} { return kase }, "overflow-then-recover")
}

type c14ClientCase struct {
	FailWindowMs int     `json:"monitorRestartFailsForMs"`
	Burst        int     `json:"burst"`
	HandlerDelay string  `json:"handlerDelay"`
	Seen         []int64 `json:"newValuesSeen,omitempty"`
}

// TestC14Client: the client starts one event dispatcher per connection. A reconnect whose
// monitor restart fails a few times before it succeeds must not leave anything behind
// that delivers events: afterwards a burst of updates of one row reaches a (slow) handler
// in order, each update's old value being the previous update's new value.
func TestC14Client(t *testing.T) {
	w := c16World(t)
	rapid.Check(t, func(t *rapid.T) {
		kase := c14ClientCase{FailWindowMs: rapid.IntRange(5, 40).Draw(t, "failwindow"), Burst: rapid.IntRange(20, 80).Draw(t, "burst")}
		delay := time.Duration(rapid.SampledFrom([]int{0, 50, 200}).Draw(t, "handlerdelayus")) * time.Microsecond
		kase.HandlerDelay = delay.String()
		fail := func(class, format string, args ...interface{}) {
			kit.Fail(t, "C14", class, kase, format, args...)
		}
		srv, err := kit.StartServer(w)
		if err != nil {
			t.Fatalf("server: %v", err)
		}
		defer srv.Close()
		px, err := kit.StartProxy(srv.Sock)
		if err != nil {
			t.Fatalf("proxy: %v", err)
		}
		defer px.Close()
		bg := context.Background()
		direct, err := kit.DialRaw(srv.Sock)
		if err != nil {
			t.Fatalf("dial: %v", err)
		}
		defer direct.Close()
		if _, err := direct.Transact("DB", []json.RawMessage{json.RawMessage(`{"op":"insert","table":"T0","row":{"marker":"ctr","n":0}}`)}); err != nil {
			t.Fatalf("harness: %v", err)
		}
		c, err := kit.NewClient(w, px.Endpoint(), client.WithReconnect(2*time.Second, backoff.NewConstantBackOff(3*time.Millisecond)))
		if err != nil {
			t.Fatalf("client: %v", err)
		}
		if err := c.Connect(bg); err != nil {
			t.Fatalf("connect: %v", err)
		}
		defer c.Close()
		if _, err := c.Monitor(bg, c.NewMonitor(client.WithTable(w.NewModel("T0")))); err != nil {
			fail("monitor.error", "Monitor: %v", err)
		}
		var mu sync.Mutex
		type upd struct{ old, new int64 }
		var seen []upd
		nOf := func(m model.Model) int64 {
			_, r, err := w.RowFromModel("T0", m)
			if err != nil || len(r["n"].K) != 1 {
				return -1
			}
			return r["n"].K[0].I
		}
		c.Cache().AddEventHandler(&cache.EventHandlerFuncs{UpdateFunc: func(table string, o, n model.Model) {
			if delay > 0 {
				time.Sleep(delay)
			}
			mu.Lock()
			seen = append(seen, upd{nOf(o), nOf(n)})
			mu.Unlock()
		}})
		// the connection is lost; for a while every attempt to restart the monitor is refused
		px.SetMethodErrors(map[string]string{"monitor_cond_since": "refused for now", "monitor_cond": "refused for now", "monitor": "refused for now"})
		px.CutAll()
		time.Sleep(time.Duration(kase.FailWindowMs) * time.Millisecond)
		px.SetMethodErrors(nil)
		if !waitConnected(c, 30*time.Second) {
			fail("reconnect.never", "30 s after the monitor restarts stopped being refused the client is not connected")
		}
		// a row inserted now can only reach the cache over the new connection: once it is
		// there the client is monitoring again (Connected() alone says little right after a cut)
		if _, err := direct.Transact("DB", []json.RawMessage{json.RawMessage(`{"op":"insert","table":"T0","row":{"marker":"sync"}}`)}); err != nil {
			fail("harness.direct", "insert: %v", err)
		}
		deadline := time.Now().Add(20 * time.Second)
		for {
			rows, err := kit.CacheRows(w, c, "T0")
			if err == nil && len(rows) == 2 && c.Connected() {
				break
			}
			if time.Now().After(deadline) {
				fail("resync.cache-differs", "20 s after the monitor restarts stopped being refused a row inserted meanwhile has not reached the cache")
			}
			time.Sleep(time.Millisecond)
		}
		mu.Lock()
		seen = nil
		mu.Unlock()
		for i := 0; i < kase.Burst; i++ {
			if _, err := direct.Transact("DB", []json.RawMessage{json.RawMessage(`{"op":"mutate","table":"T0","where":[["marker","==","ctr"]],"mutations":[["n","+=",1]]}`)}); err != nil {
				fail("harness.direct", "increment: %v", err)
			}
		}
		deadline = time.Now().Add(30 * time.Second)
		for {
			mu.Lock()
			n := len(seen)
			mu.Unlock()
			if n >= kase.Burst {
				break
			}
			if time.Now().After(deadline) {
				rows, _ := kit.CacheRows(w, c, "T0")
				mu.Lock()
				for _, e := range seen {
					kase.Seen = append(kase.Seen, e.new)
				}
				mu.Unlock()
				fail("events.missing", "%d of %d update events reached the handler within 30 s (connected %v, cache %v)", n, kase.Burst, c.Connected(), rows)
			}
			time.Sleep(time.Millisecond)
		}
		mu.Lock()
		evs := append([]upd{}, seen...)
		mu.Unlock()
		for _, e := range evs {
			kase.Seen = append(kase.Seen, e.new)
		}
		if len(evs) != kase.Burst {
			fail("events.count", "%d update events for %d updates", len(evs), kase.Burst)
		}
		for i, e := range evs {
			if e.new != e.old+1 || (i > 0 && e.old != evs[i-1].new) {
				fail("events.order", "update event %d is %d -> %d after an event ending in %d: the handler is not told the updates in the order they were applied", i, e.old, e.new, func() int64 {
					if i == 0 {
						return e.old
					}
					return evs[i-1].new
				}())
			}
		}
		kit.Record("C14", fmt.Sprintf("client|%d|%d|%s", kase.FailWindowMs/10, kase.Burst/20, kase.HandlerDelay), true, func() interface{} { return kase }, "client-dispatcher-after-failed-reconnects")
	})
}

type c14HeldCase struct {
	Burst     int     `json:"updatesQueuedBehindTheHeldHandler"`
	TimeoutMs int     `json:"reconnectTimeoutMs"`
	HeldMs    int     `json:"handlerHeldAfterTheCutMs"`
	Seen      []int64 `json:"newValuesSeen,omitempty"`
}

// TestC14HeldHandler: a handler callback that is still running when the connection is lost,
// with further events queued behind it, for several times the client's reconnect timeout:
// whatever the client does about its connection meanwhile, the handler is told the queued
// updates once, in the order they were applied, and the updates made after the reconnection
// follow them.
func TestC14HeldHandler(t *testing.T) {
	w := c16World(t)
	rapid.Check(t, func(t *rapid.T) {
		kase := c14HeldCase{Burst: rapid.IntRange(8, 60).Draw(t, "burst"), TimeoutMs: rapid.SampledFrom([]int{60, 100, 150}).Draw(t, "timeout")}
		kase.HeldMs = kase.TimeoutMs * rapid.IntRange(3, 5).Draw(t, "heldfactor")
		fail := func(class, format string, args ...interface{}) {
			kit.Fail(t, "C14", class, kase, format, args...)
		}
		srv, err := kit.StartServer(w)
		if err != nil {
			t.Fatalf("server: %v", err)
		}
		defer srv.Close()
		px, err := kit.StartProxy(srv.Sock)
		if err != nil {
			t.Fatalf("proxy: %v", err)
		}
		defer px.Close()
		bg := context.Background()
		direct, err := kit.DialRaw(srv.Sock)
		if err != nil {
			t.Fatalf("dial: %v", err)
		}
		defer direct.Close()
		if _, err := direct.Transact("DB", []json.RawMessage{json.RawMessage(`{"op":"insert","table":"T0","row":{"marker":"ctr","n":0}}`)}); err != nil {
			t.Fatalf("harness: %v", err)
		}
		c, err := kit.NewClient(w, px.Endpoint(), client.WithReconnect(time.Duration(kase.TimeoutMs)*time.Millisecond, backoff.NewConstantBackOff(3*time.Millisecond)))
		if err != nil {
			t.Fatalf("client: %v", err)
		}
		if err := c.Connect(bg); err != nil {
			t.Fatalf("connect: %v", err)
		}
		defer c.Close()
		if _, err := c.Monitor(bg, c.NewMonitor(client.WithTable(w.NewModel("T0")))); err != nil {
			fail("monitor.error", "Monitor: %v", err)
		}
		var mu sync.Mutex
		type upd struct{ old, new int64 }
		var seen []upd
		nOf := func(m model.Model) int64 {
			_, r, err := w.RowFromModel("T0", m)
			if err != nil || len(r["n"].K) != 1 {
				return -1
			}
			return r["n"].K[0].I
		}
		gate := make(chan struct{})
		released := false
		release := func() {
			if !released {
				released = true
				close(gate)
			}
		}
		defer release()
		first := true
		c.Cache().AddEventHandler(&cache.EventHandlerFuncs{UpdateFunc: func(table string, o, n model.Model) {
			mu.Lock()
			hold := first
			first = false
			mu.Unlock()
			if hold {
				<-gate
			}
			mu.Lock()
			seen = append(seen, upd{nOf(o), nOf(n)})
			mu.Unlock()
		}})
		increment := func() {
			if _, err := direct.Transact("DB", []json.RawMessage{json.RawMessage(`{"op":"mutate","table":"T0","where":[["marker","==","ctr"]],"mutations":[["n","+=",1]]}`)}); err != nil {
				fail("harness.direct", "increment: %v", err)
			}
		}
		counter := func() int64 {
			rows, err := kit.CacheRows(w, c, "T0")
			if err != nil {
				return -1
			}
			for _, r := range rows {
				if len(r["n"].K) == 1 && len(r["marker"].K) == 1 && r["marker"].K[0].S == "ctr" {
					return r["n"].K[0].I
				}
			}
			return -1
		}
		for i := 0; i < kase.Burst; i++ {
			increment()
		}
		deadline := time.Now().Add(20 * time.Second)
		for counter() != int64(kase.Burst) {
			if time.Now().After(deadline) {
				fail("cache.behind", "20 s after %d updates the cache holds n = %d", kase.Burst, counter())
			}
			time.Sleep(time.Millisecond)
		}
		// the connection is lost while the first callback is still running
		px.CutAll()
		time.Sleep(time.Duration(kase.HeldMs) * time.Millisecond)
		release()
		if !waitConnected(c, 30*time.Second) {
			fail("reconnect.never", "30 s after the held handler returned the client is not connected")
		}
		const after = 5
		// a row inserted now can only reach the cache over the new connection: once it is
		// there the client is monitoring again
		if _, err := direct.Transact("DB", []json.RawMessage{json.RawMessage(`{"op":"insert","table":"T0","row":{"marker":"sync"}}`)}); err != nil {
			fail("harness.direct", "insert: %v", err)
		}
		deadline = time.Now().Add(30 * time.Second)
		for {
			rows, err := kit.CacheRows(w, c, "T0")
			if err == nil && len(rows) == 2 && c.Connected() && counter() == int64(kase.Burst) {
				break
			}
			if time.Now().After(deadline) {
				fail("resync.cache-differs", "30 s after the held handler returned the cache holds n = %d (the database %d) and %d rows (the database 2)", counter(), kase.Burst, len(rows))
			}
			time.Sleep(time.Millisecond)
		}
		for i := 0; i < after; i++ {
			increment()
		}
		deadline = time.Now().Add(30 * time.Second)
		for {
			mu.Lock()
			n := len(seen)
			mu.Unlock()
			if n >= kase.Burst+after {
				break
			}
			if time.Now().After(deadline) {
				mu.Lock()
				for _, e := range seen {
					kase.Seen = append(kase.Seen, e.new)
				}
				mu.Unlock()
				fail("events.missing", "%d of %d update events reached the handler within 30 s (connected %v, cache n = %d)", n, kase.Burst+after, c.Connected(), counter())
			}
			time.Sleep(time.Millisecond)
		}
		time.Sleep(5 * time.Millisecond)
		mu.Lock()
		evs := append([]upd{}, seen...)
		mu.Unlock()
		for _, e := range evs {
			kase.Seen = append(kase.Seen, e.new)
		}
		if len(evs) != kase.Burst+after {
			fail("events.count", "%d update events for %d updates", len(evs), kase.Burst+after)
		}
		for i, e := range evs {
			if e.new != e.old+1 || (i > 0 && e.old != evs[i-1].new) || (i == 0 && e.old != 0) {
				fail("events.order", "update event %d is %d -> %d (the one before ended in %d): the handler is not told the updates in the order they were applied", i, e.old, e.new, func() int64 {
					if i == 0 {
						return 0
					}
					return evs[i-1].new
				}())
			}
		}
		kit.Record("C14", fmt.Sprintf("held|%d|%d|%d", kase.Burst/10, kase.TimeoutMs, kase.HeldMs/kase.TimeoutMs), true, func() interface{} { return kase }, "handler-held-across-a-lost-connection")
	})
}

type c14PartialCase struct {
	Existing int    `json:"rowsBefore"`
	Good     int    `json:"newRowsInTheNotification"`
	Bad      string `json:"rowThatCannotBeApplied"`
	Encoding string `json:"encoding"`
	Handlers int    `json:"handlers"`
	Modified int    `json:"rowsModifiedAfterwards"`
}

// TestC14Partial: a notification of several rows of which one cannot be applied (an insert
// of a row the cache holds, as the reply to an overlapping monitor carries; a modification
// or deletion of a row it does not hold). Go map order decides how many of the other rows
// are applied before the bad one is met. Whatever that number is, the events delivered must
// tell exactly what was applied: replaying them reproduces the cache, also after the rows
// that made it are modified once more.
func TestC14Partial(t *testing.T) {
	w := c16World(t)
	tb := w.S.Table("T0")
	rapid.Check(t, func(t *rapid.T) {
		kase := c14PartialCase{Existing: rapid.IntRange(1, 4).Draw(t, "existing"), Good: rapid.IntRange(1, 8).Draw(t, "good"),
			Bad:      rapid.SampledFrom([]string{"insert-of-a-cached-row", "modify-of-an-unknown-row", "delete-of-an-unknown-row"}).Draw(t, "bad"),
			Encoding: rapid.SampledFrom([]string{"update2", "update", "one-aggregated-update"}).Draw(t, "encoding"), Handlers: rapid.IntRange(1, 2).Draw(t, "handlers")}
		if kase.Encoding == "one-aggregated-update" {
			// the rows are accumulated into one ModelUpdates and handed to ApplyCacheUpdate in one
			// call (an accumulated update can name a row it has no earlier version of only as an insert)
			kase.Bad = "insert-of-a-cached-row"
		}
		tc, err := cache.NewTableCache(w.DBModel, nil, nil)
		if err != nil {
			t.Fatal(err)
		}
		type replay struct {
			mu   sync.Mutex
			rows kit.Rows
			bad  []string
			n    int
		}
		var logs []*replay
		for i := 0; i < kase.Handlers; i++ {
			lg := &replay{rows: kit.Rows{}}
			logs = append(logs, lg)
			tc.AddEventHandler(&cache.EventHandlerFuncs{
				AddFunc: func(table string, m model.Model) {
					u, r, err := w.RowFromModel(table, m)
					lg.mu.Lock()
					defer lg.mu.Unlock()
					lg.n++
					if err != nil || table != "T0" {
						lg.bad = append(lg.bad, fmt.Sprintf("add event on %s: %v", table, err))
						return
					}
					if _, known := lg.rows[u]; known {
						lg.bad = append(lg.bad, "add event for "+u+", which was added already")
					}
					lg.rows[u] = r
				},
				UpdateFunc: func(table string, o, n model.Model) {
					u, r, err := w.RowFromModel(table, n)
					_, or, _ := w.RowFromModel(table, o)
					lg.mu.Lock()
					defer lg.mu.Unlock()
					lg.n++
					if err != nil {
						lg.bad = append(lg.bad, fmt.Sprintf("update event: %v", err))
						return
					}
					prev, known := lg.rows[u]
					if !known {
						lg.bad = append(lg.bad, "update event for "+u+", of which no add event was delivered")
					} else if prev.Key() != or.Key() {
						lg.bad = append(lg.bad, fmt.Sprintf("update event for %s: old is %s, the previous events left %s", u, or.Key(), prev.Key()))
					}
					lg.rows[u] = r
				},
				DeleteFunc: func(table string, m model.Model) {
					u, _, _ := w.RowFromModel(table, m)
					lg.mu.Lock()
					defer lg.mu.Unlock()
					lg.n++
					if _, known := lg.rows[u]; !known {
						lg.bad = append(lg.bad, "delete event for "+u+", of which no add event was delivered")
					}
					delete(lg.rows, u)
				},
			})
		}
		stop := make(chan struct{})
		done := make(chan struct{})
		go func() { tc.Run(stop); close(done) }()
		defer func() { close(stop); <-done }()
		mkRow := func(i int) kit.Row {
			return kit.Row{"marker": kit.Scalar(kit.Str(fmt.Sprintf("m%d", i))), "n": kit.Scalar(kit.Int(int64(i))), "tags": kit.SetOf(kit.Str("t"))}
		}
		cur := kit.Rows{}
		for i := 0; i < kase.Existing; i++ {
			u := kit.MkUUID(i + 1)
			r, _ := tb.OvsRow(mkRow(i), true)
			if err := tc.Update2(nil, ovsdb.TableUpdates2{"T0": {u: &ovsdb.RowUpdate2{Insert: &r}}}); err != nil {
				t.Fatalf("harness: %v", err)
			}
			cur[u] = mkRow(i)
		}
		fail := func(class, format string, args ...interface{}) {
			kit.Fail(t, "C14", class, kase, format, args...)
		}
		// the mixed notification
		tu2, tu1 := ovsdb.TableUpdate2{}, ovsdb.TableUpdate{}
		for i := 0; i < kase.Good; i++ {
			u := kit.MkUUID(100 + i)
			r, _ := tb.OvsRow(mkRow(100+i), true)
			r1, _ := tb.OvsRow(mkRow(100+i), false)
			tu2[u] = &ovsdb.RowUpdate2{Insert: &r}
			tu1[u] = &ovsdb.RowUpdate{New: &r1}
		}
		switch kase.Bad {
		case "insert-of-a-cached-row":
			u := kit.MkUUID(1)
			other := mkRow(777)
			r, _ := tb.OvsRow(other, true)
			r1, _ := tb.OvsRow(other, false)
			tu2[u] = &ovsdb.RowUpdate2{Insert: &r}
			tu1[u] = &ovsdb.RowUpdate{New: &r1}
		case "modify-of-an-unknown-row":
			u := kit.MkUUID(999)
			r, _ := tb.OvsRow(kit.Row{"n": kit.Scalar(kit.Int(5))}, false)
			o, _ := tb.OvsRow(kit.Row{"n": kit.Scalar(kit.Int(4))}, false)
			tu2[u] = &ovsdb.RowUpdate2{Modify: &r}
			tu1[u] = &ovsdb.RowUpdate{Old: &o, New: &r}
		default:
			u := kit.MkUUID(999)
			tu2[u] = &ovsdb.RowUpdate2{Delete: &ovsdb.Row{}}
			tu1[u] = &ovsdb.RowUpdate{Old: &ovsdb.Row{}}
		}
		switch kase.Encoding {
		case "update2":
			err = tc.Update2(nil, ovsdb.TableUpdates2{"T0": tu2})
		case "update":
			err = tc.Update(nil, ovsdb.TableUpdates{"T0": tu1})
		default:
			var agg updates.ModelUpdates
			var us []string
			for u := range tu2 {
				us = append(us, u)
			}
			sort.Strings(us)
			for _, u := range us {
				if aerr := agg.AddRowUpdate2(w.DBModel, "T0", u, nil, *tu2[u]); aerr != nil {
					t.Fatalf("harness: AddRowUpdate2(%s): %v", u, aerr)
				}
			}
			err = tc.ApplyCacheUpdate(agg)
		}
		if err == nil {
			// the cache took all of it (it may treat the odd row as harmless): then all of it counts
			kit.Label("C14", "partial:notification-accepted-entirely")
		}
		cacheRows := func() kit.Rows {
			rows, err := w.RowsFromModels("T0", tc.Table("T0").Rows())
			if err != nil {
				t.Fatalf("harness: %v", err)
			}
			return rows
		}
		settle := func(stage string) {
			deadline := time.Now().Add(10 * time.Second)
			for {
				want := cacheRows()
				var problems []string
				for i, lg := range logs {
					lg.mu.Lock()
					d := kit.DiffStates(kit.State{"T0": want}, kit.State{"T0": lg.rows})
					bad := append([]string{}, lg.bad...)
					lg.mu.Unlock()
					for _, x := range bad {
						problems = append(problems, fmt.Sprintf("handler %d: %s", i, x))
					}
					if len(bad) > 0 {
						fail("events.illegal-sequence", "%s: %s", stage, strings.Join(problems, "\n"))
					}
					for _, x := range d {
						problems = append(problems, fmt.Sprintf("handler %d: cache vs replayed events: %s", i, x))
					}
				}
				if len(problems) == 0 {
					return
				}
				if time.Now().After(deadline) {
					fail("events.replay-differs", "%s: 10 s later the events delivered do not reproduce the cache:\n%s", stage, strings.Join(problems, "\n"))
				}
				time.Sleep(time.Millisecond)
			}
		}
		settle("after the notification with a row that cannot be applied")
		// every row that made it is modified once
		after := cacheRows()
		for _, u := range kit.SortedUUIDs(after) {
			if _, old := cur[u]; old {
				continue
			}
			nr := after[u].Clone()
			nr["n"] = kit.Scalar(kit.Int(nr["n"].K[0].I + 1000))
			d, _ := tb.OvsRow(tb.Update2Diff(after[u], nr), false)
			if err := tc.Update2(nil, ovsdb.TableUpdates2{"T0": {u: &ovsdb.RowUpdate2{Modify: &d}}}); err != nil {
				fail("cache.apply-error", "modifying row %s, which the cache holds: %v", u, err)
			}
			kase.Modified++
		}
		settle("after modifying the rows that were applied")
		kit.Record("C14", fmt.Sprintf("partial|%d|%d|%s|%s|%d|%d", kase.Existing, kase.Good, kase.Bad, kase.Encoding, kase.Handlers, kase.Modified), kase.Modified > 0 && kase.Modified < kase.Good,
			func() interface{} { return kase }, "partial-notification", "partial:applied-"+map[bool]string{true: "none", false: map[bool]string{true: "all", false: "some"}[kase.Modified == kase.Good]}[kase.Modified == 0]+"-of-the-other-rows")
	})
}
