package props

import (
	"encoding/json"
	"fmt"
	"strings"
	"sync"
	"testing"
	"time"

	"github.com/ovn-org/libovsdb/cache"
	"github.com/ovn-org/libovsdb/model"
	"github.com/ovn-org/libovsdb/ovsdb"
	"pgregory.net/rapid"

	"verif/pbt/kit"
	"verif/pbt/refdb"
)

type c14Event struct {
	Kind  string  `json:"kind"`
	Table string  `json:"table"`
	UUID  string  `json:"uuid"`
	Old   kit.Row `json:"old,omitempty"`
	New   kit.Row `json:"new,omitempty"`
}

func (e c14Event) key() string {
	return fmt.Sprintf("%s %s %s old=%s new=%s", e.Kind, e.Table, e.UUID, rowStr(e.Old), rowStr(e.New))
}

// c14Handler records events; the first handler blocks on gate before returning so the
// harness decides how far the dispatcher lags behind the updater.
type c14Handler struct {
	w       *kit.World
	mu      sync.Mutex
	events  []c14Event
	errs    []string
	gate    chan struct{} // nil: never blocks
	entered chan struct{} // with gate: signalled when the handler starts waiting on it
	ack     chan struct{} // nil: no acknowledgement
	mutate  bool          // modify the received models after recording them
}

func (h *c14Handler) record(kind, table string, old, new model.Model) {
	ev := c14Event{Kind: kind, Table: table}
	conv := func(m model.Model) (string, kit.Row) {
		if m == nil {
			return "", nil
		}
		u, r, err := h.w.RowFromModel(table, m)
		if err != nil {
			h.errs = append(h.errs, err.Error())
		}
		return u, r
	}
	var uo, un string
	uo, ev.Old = conv(old)
	un, ev.New = conv(new)
	ev.UUID = un
	if un == "" {
		ev.UUID = uo
	}
	if uo != "" && un != "" && uo != un {
		h.errs = append(h.errs, fmt.Sprintf("update event with different uuids %s / %s", uo, un))
	}
	h.mu.Lock()
	h.events = append(h.events, ev)
	h.mu.Unlock()
	if h.mutate {
		for _, m := range []model.Model{old, new} {
			if m != nil {
				scribble(m)
			}
		}
	}
	if h.gate != nil {
		h.entered <- struct{}{}
		<-h.gate
	}
	if h.ack != nil {
		h.ack <- struct{}{}
	}
}

func (h *c14Handler) OnAdd(table string, m model.Model)       { h.record("add", table, nil, m) }
func (h *c14Handler) OnUpdate(table string, o, n model.Model) { h.record("update", table, o, n) }
func (h *c14Handler) OnDelete(table string, m model.Model)    { h.record("delete", table, m, nil) }

// scribble overwrites every mapped field of a model a handler received.
func scribble(m interface{}) {
	defer func() { _ = recover() }()
	v := reflectElem(m)
	for i := 0; i < v.NumField(); i++ {
		f := v.Type().Field(i)
		if tag := f.Tag.Get("ovsdb"); tag == "" || tag == "_uuid" {
			continue
		}
		fv := v.Field(i)
		scribbleValue(fv)
	}
}

type c14Case struct {
	Schema   json.RawMessage `json:"schema"`
	History  []string        `json:"history"`
	Schedule string          `json:"schedule"`
	Handlers int             `json:"handlers"`
}

// TestC14 (built with -race): a notification history computed by the reference model is
// applied to a cache while the event dispatcher is held back by a drawn schedule; the
// event streams must be a faithful ordered change log.
func TestC14(t *testing.T) {
	rapid.Check(t, func(t *rapid.T) {
		p := kit.ProfileDB
		p.MaxTables = 2
		s := kit.GenSchema(t, p)
		w, err := kit.BuildWorld(s, nil)
		if err != nil {
			t.Fatalf("world: %v", err)
		}
		// history on the reference model only
		g := kit.NewTxnGen(s, kit.TxnCfg{MaxOps: 3, RefBias: true, MaxRows: 5})
		st := kit.State{}
		for _, tb := range s.Tables {
			st[tb.Name] = kit.Rows{}
		}
		type note struct {
			changes []refdb.RowChange
			v1      bool
		}
		var notes []note
		kase := c14Case{Schema: s.JSON()}
		totalEvents := 0
		nt := rapid.IntRange(1, 14).Draw(t, "ntxn")
		perRow := map[string]int{}
		for i := 0; i < nt; i++ {
			ops := g.GenTxn(t, st)
			res := refdb.Exec(s, st, ops, nil)
			if !res.Committed || res.NegativeZero {
				continue
			}
			ch := refdb.Diff(s, st, res.Post)
			st = res.Post
			if len(ch) == 0 {
				continue
			}
			kase.History = append(kase.History, string(kit.OpsJSON(s, ops)))
			notes = append(notes, note{changes: ch, v1: rapid.IntRange(0, 3).Draw(t, "v1") == 0})
			totalEvents += len(ch)
			for _, c := range ch {
				perRow[c.Table+"/"+c.UUID]++
			}
		}
		if len(notes) == 0 {
			t.Skip("history without net changes")
		}
		tc, err := cache.NewTableCache(w.DBModel, nil, nil)
		if err != nil {
			t.Fatalf("cache: %v", err)
		}
		nh := rapid.IntRange(1, 3).Draw(t, "nhandlers")
		kase.Handlers = nh
		gate := make(chan struct{}, totalEvents+1)
		entered := make(chan struct{}, totalEvents+16)
		ack := make(chan struct{}, totalEvents+16)
		var hs []*c14Handler
		for i := 0; i < nh; i++ {
			// the handlers of one cache share the event's models: only the last one modifies them
			h := &c14Handler{w: w, mutate: i == nh-1 && rapid.Bool().Draw(t, "mutatinghandler")}
			if i == 0 {
				h.gate = gate
				h.entered = entered
			}
			if i == nh-1 {
				h.ack = ack
			}
			hs = append(hs, h)
			tc.AddEventHandler(h)
		}
		stop := make(chan struct{})
		done := make(chan struct{})
		stopped := false
		go func(stop, done chan struct{}) { tc.Run(stop); close(done) }(stop, done)
		defer func() {
			// never leave the dispatcher blocked behind the gate
			for i := 0; i < totalEvents+1; i++ {
				select {
				case gate <- struct{}{}:
				default:
				}
			}
			if !stopped {
				close(stop)
			}
			<-done
		}()

		// schedule: A = apply next notification, R = release one event, S = stop the
		// dispatcher (as a disconnect does) and start it again (as the next connection
		// does); r = an event the stopping dispatcher still picked up
		applied, released, queued := 0, 0, 0
		restarts, restartsWithBacklog := 0, 0
		bogus := 0
		cur := kit.State{}
		for _, tb := range s.Tables {
			cur[tb.Name] = kit.Rows{}
		}
		maxLag := 0
		var word strings.Builder
		waitAck := func() bool {
			select {
			case <-ack:
				return true
			case <-time.After(20 * time.Second):
				return false
			}
		}
		fail := func(class, format string, args ...interface{}) {
			kase.Schedule = word.String()
			kit.Fail(t, "C14", class, kase, format, args...)
		}
		for applied < len(notes) || released < totalEvents {
			canA := applied < len(notes)
			canR := released < queued
			if restarts < 3 && rapid.IntRange(0, 5).Draw(t, "restart") == 0 {
				backlog := queued - released
				close(stop)
				stopped = true
			drain:
				for {
					select {
					case <-done:
						break drain
					case <-entered:
						// the dispatcher is inside handler 0 for the next event: let it finish
						gate <- struct{}{}
						if !waitAck() {
							fail("events.missing", "event %d of %d: the handlers were entered but the last one never acknowledged", released+1, totalEvents)
						}
						released++
						word.WriteString("r")
					case <-time.After(20 * time.Second):
						fail("harness.dispatcher-stuck", "the dispatcher neither stopped nor entered a handler")
					}
				}
				stop, done = make(chan struct{}), make(chan struct{})
				stopped = false
				go func(stop, done chan struct{}) { tc.Run(stop); close(done) }(stop, done)
				restarts++
				if backlog >= 2 {
					restartsWithBacklog++
				}
				word.WriteString("S")
				continue
			}
			if bogus < 2 && rapid.IntRange(0, 7).Draw(t, "bogus") == 0 {
				// a notification the cache must refuse (a row it already has is inserted again, a row
				// it does not have is deleted): whatever it answers, it applies nothing, so no
				// event may follow
				tbn := s.Tables[rapid.IntRange(0, len(s.Tables)-1).Draw(t, "bogustable")]
				existing := kit.SortedUUIDs(cur[tbn.Name])
				if len(existing) > 0 && rapid.Bool().Draw(t, "dupinsert") {
					u := rapid.SampledFrom(existing).Draw(t, "dupuuid")
					r, _ := tbn.OvsRow(cur[tbn.Name][u], true)
					_ = tc.Update2(nil, ovsdb.TableUpdates2{tbn.Name: {u: &ovsdb.RowUpdate2{Insert: &r}}})
					word.WriteString("X")
				} else {
					u := kit.MkUUID(880000 + bogus)
					_ = tc.Update(nil, ovsdb.TableUpdates{tbn.Name: {u: &ovsdb.RowUpdate{Old: &ovsdb.Row{}}}})
					word.WriteString("Y")
				}
				bogus++
				continue
			}
			doA := canA && (!canR || rapid.Bool().Draw(t, "apply"))
			if doA {
				n := notes[applied]
				var aerr error
				if n.v1 {
					tu := ovsdb.TableUpdates{}
					for _, c := range n.changes {
						tb := s.Table(c.Table)
						if tu[c.Table] == nil {
							tu[c.Table] = ovsdb.TableUpdate{}
						}
						ru := &ovsdb.RowUpdate{}
						if c.New != nil {
							r, _ := tb.OvsRow(c.New, false)
							ru.New = &r
						}
						if c.Old != nil {
							r, _ := tb.OvsRow(c.Old, false)
							ru.Old = &r
						}
						tu[c.Table][c.UUID] = ru
					}
					aerr = tc.Update(nil, tu)
				} else {
					tu := ovsdb.TableUpdates2{}
					for _, c := range n.changes {
						tb := s.Table(c.Table)
						if tu[c.Table] == nil {
							tu[c.Table] = ovsdb.TableUpdate2{}
						}
						ru := &ovsdb.RowUpdate2{}
						switch {
						case c.Old == nil:
							r, _ := tb.OvsRow(c.New, true)
							ru.Insert = &r
						case c.New == nil:
							ru.Delete = &ovsdb.Row{}
						default:
							r, _ := tb.OvsRow(tb.Update2Diff(c.Old, c.New), false)
							ru.Modify = &r
						}
						tu[c.Table][c.UUID] = ru
					}
					aerr = tc.Update2(nil, tu)
				}
				if aerr != nil {
					fail("cache.apply-error", "notification %d: %v", applied, aerr)
				}
				for _, c := range n.changes {
					if c.New == nil {
						delete(cur[c.Table], c.UUID)
					} else {
						cur[c.Table][c.UUID] = c.New
					}
				}
				queued += len(n.changes)
				applied++
				word.WriteString("A")
				if queued-released > maxLag {
					maxLag = queued - released
				}
				continue
			}
			select {
			case <-entered:
			case <-time.After(20 * time.Second):
				fail("events.missing", "event %d of %d was never delivered (a dispatcher is running, %d events are outstanding, schedule so far %s)", released+1, totalEvents, queued-released, word.String())
			}
			gate <- struct{}{}
			if !waitAck() {
				fail("events.missing", "event %d of %d was never delivered to the last handler (dispatcher released, nothing else outstanding)", released+1, totalEvents)
			}
			released++
			word.WriteString("R")
		}
		// no extra events
		time.Sleep(2 * time.Millisecond)
		select {
		case <-ack:
			fail("events.spurious", "more events delivered than row changes applied (%d)", totalEvents)
		case <-entered:
			fail("events.spurious", "an event is being delivered although all %d applied row changes were delivered already (refused notifications: %d)", totalEvents, bogus)
		default:
		}
		// ---- oracle ----
		ref := hs[0]
		for hi, h := range hs {
			h.mu.Lock()
			evs := append([]c14Event{}, h.events...)
			errs := append([]string{}, h.errs...)
			h.mu.Unlock()
			if len(errs) > 0 {
				fail("events.malformed", "handler %d: %s", hi, strings.Join(errs, "; "))
			}
			if len(evs) != totalEvents {
				fail("events.count", "handler %d saw %d events, %d row changes were applied", hi, len(evs), totalEvents)
			}
			// identical streams
			ref.mu.Lock()
			for i := range evs {
				if evs[i].key() != ref.events[i].key() {
					ref.mu.Unlock()
					fail("events.handlers-differ", "handler %d event %d is %s, handler 0 saw %s", hi, i, evs[i].key(), ref.events[i].key())
				}
			}
			ref.mu.Unlock()
			// replay
			replay := kit.State{}
			for _, tb := range s.Tables {
				replay[tb.Name] = kit.Rows{}
			}
			for i, e := range evs {
				cur, exists := replay[e.Table][e.UUID]
				switch e.Kind {
				case "add":
					if exists {
						fail("events.grammar", "handler %d event %d: add of row %s which was already added", hi, i, e.UUID)
					}
					replay[e.Table][e.UUID] = e.New
				case "update":
					if !exists {
						fail("events.grammar", "handler %d event %d: update of row %s which was not added (or already deleted)", hi, i, e.UUID)
					}
					if rowStr(cur) != rowStr(e.Old) {
						fail("events.old-model", "handler %d event %d: update of %s carries old=%s, the previous state of the row is %s", hi, i, e.UUID, rowStr(e.Old), rowStr(cur))
					}
					if rowStr(e.Old) == rowStr(e.New) {
						fail("events.no-change", "handler %d event %d: update event for %s without any change", hi, i, e.UUID)
					}
					replay[e.Table][e.UUID] = e.New
				case "delete":
					if !exists {
						fail("events.grammar", "handler %d event %d: delete of row %s which does not exist", hi, i, e.UUID)
					}
					if rowStr(cur) != rowStr(e.Old) {
						fail("events.old-model", "handler %d event %d: delete of %s carries %s, the last state of the row is %s", hi, i, e.UUID, rowStr(e.Old), rowStr(cur))
					}
					delete(replay[e.Table], e.UUID)
				}
			}
			// replay == cache contents == reference state
			got := kit.State{}
			for _, tb := range s.Tables {
				rows, err := w.RowsFromModels(tb.Name, tc.Table(tb.Name).Rows())
				if err != nil {
					fail("cache.unreadable", "%v", err)
				}
				got[tb.Name] = rows
			}
			if d := kit.DiffStates(got, replay); len(d) > 0 {
				fail("events.replay-differs", "handler %d: replaying the events does not reproduce the cache contents:\n%s", hi, strings.Join(d, "\n"))
			}
			if d := kit.DiffStates(st, got); len(d) > 0 {
				fail("cache.contents", "cache contents differ from the applied history (a handler modifying its models must not matter):\n%s", strings.Join(d, "\n"))
			}
		}
		rich := false
		for _, n := range perRow {
			if n >= 3 {
				rich = true
			}
		}
		kit.Record("C14", schemaKinds(s)+word.String()+fmt.Sprint(nh), rich && maxLag >= 2, func() interface{} { kase.Schedule = word.String(); return kase },
			fmt.Sprintf("handlers:%d", nh), fmt.Sprintf("maxlag>=2:%v", maxLag >= 2), fmt.Sprintf("dispatcher-restarts:%d", restarts), fmt.Sprintf("refused-notifications:%d", bogus), fmt.Sprintf("restarts-with-backlog>=2:%d", restartsWithBacklog))
	})
}
