package props

import (
	"context"
	"encoding/json"
	"fmt"
	"reflect"
	"sort"
	"strings"
	"testing"
	"time"

	"github.com/ovn-org/libovsdb/client"
	"github.com/ovn-org/libovsdb/model"
	"github.com/ovn-org/libovsdb/ovsdb"
	"pgregory.net/rapid"

	"verif/pbt/kit"
	"verif/pbt/refdb"
)

// apiWorld is a server with one connected client that monitors every table: the
// client's cache is synchronised with the database whenever no transaction is in
// flight (the server notifies monitors before it answers a transact request).
type apiWorld struct {
	w      *kit.World
	srv    *kit.Server
	c      client.Client
	ctx    context.Context
	cancel context.CancelFunc
}

func newAPIWorld(s kit.Schema, cidx map[string][]model.ClientIndex) (*apiWorld, error) {
	w, err := kit.BuildWorld(s, cidx)
	if err != nil {
		return nil, fmt.Errorf("world: %w", err)
	}
	srv, err := kit.StartServer(w)
	if err != nil {
		return nil, fmt.Errorf("server: %w", err)
	}
	ctx, cancel := context.WithTimeout(context.Background(), 120*time.Second)
	a := &apiWorld{w: w, srv: srv, ctx: ctx, cancel: cancel}
	c, err := kit.NewClient(w, srv.Endpoint())
	if err != nil {
		a.close()
		return nil, fmt.Errorf("client: %w", err)
	}
	a.c = c
	if err := c.Connect(ctx); err != nil {
		a.close()
		return nil, fmt.Errorf("connect: %w", err)
	}
	if _, err := c.MonitorAll(ctx); err != nil {
		a.close()
		return nil, fmt.Errorf("MonitorAll: %w", err)
	}
	return a, nil
}

func (a *apiWorld) close() {
	if a.c != nil {
		a.c.Close()
	}
	a.cancel()
	a.srv.Close()
}

// load inserts rows through the client.
func (a *apiWorld) load(table string, rows kit.Rows) error {
	var ops []kit.Op
	for _, u := range kit.SortedUUIDs(rows) {
		ops = append(ops, kit.Op{Op: "insert", Table: table, UUID: u, Row: rows[u]})
	}
	if len(ops) == 0 {
		return nil
	}
	res, err := kit.TransactOps(a.ctx, a.w, a.c, ops)
	if err != nil {
		return err
	}
	for _, r := range res {
		if r.Error != "" {
			return fmt.Errorf("%s: %s", r.Error, r.Details)
		}
	}
	return nil
}

// modelsOf turns the slice a List call filled (of structs or of pointers) into model pointers.
func modelsOf(slice reflect.Value) []interface{} {
	var out []interface{}
	for i := 0; i < slice.Len(); i++ {
		e := slice.Index(i)
		if e.Kind() == reflect.Ptr {
			out = append(out, e.Interface())
		} else {
			out = append(out, e.Addr().Interface())
		}
	}
	return out
}

// apiReadPaths lists every way the client API hands out cached rows of a table.
func (a *apiWorld) apiReadPaths(table string, uuids []string) map[string]func() ([]interface{}, error) {
	typ := a.w.Types[table].Elem()
	listInto := func(ptrs bool, l func(result interface{}) error) ([]interface{}, error) {
		st := reflect.SliceOf(typ)
		if ptrs {
			st = reflect.SliceOf(reflect.PointerTo(typ))
		}
		res := reflect.New(st)
		if err := l(res.Interface()); err != nil {
			return nil, err
		}
		return modelsOf(res.Elem()), nil
	}
	truePred := reflect.MakeFunc(reflect.FuncOf([]reflect.Type{reflect.PointerTo(typ)}, []reflect.Type{reflect.TypeOf(true)}, false),
		func([]reflect.Value) []reflect.Value { return []reflect.Value{reflect.ValueOf(true)} }).Interface()
	probes := func() []model.Model {
		var ms []model.Model
		for _, u := range uuids {
			p := reflect.New(typ)
			p.Elem().FieldByName("UUID").SetString(u)
			ms = append(ms, p.Interface())
		}
		return ms
	}
	paths := map[string]func() ([]interface{}, error){}
	for _, ptrs := range []bool{false, true} {
		ptrs := ptrs
		kind := "[]T"
		if ptrs {
			kind = "[]*T"
		}
		paths["List("+kind+")"] = func() ([]interface{}, error) {
			return listInto(ptrs, func(r interface{}) error { return a.c.List(a.ctx, r) })
		}
		paths["WhereCache(true).List("+kind+")"] = func() ([]interface{}, error) {
			return listInto(ptrs, func(r interface{}) error { return a.c.WhereCache(truePred).List(a.ctx, r) })
		}
		paths["Where(models by uuid).List("+kind+")"] = func() ([]interface{}, error) {
			if len(uuids) == 0 {
				return nil, nil
			}
			return listInto(ptrs, func(r interface{}) error { return a.c.Where(probes()...).List(a.ctx, r) })
		}
		paths["WhereAny(_uuid==).List("+kind+")"] = func() ([]interface{}, error) {
			if len(uuids) == 0 {
				return nil, nil
			}
			m := reflect.New(typ)
			var conds []model.Condition
			for _, u := range uuids {
				conds = append(conds, model.Condition{Field: m.Elem().FieldByName("UUID").Addr().Interface(), Function: ovsdb.ConditionEqual, Value: u})
			}
			return listInto(ptrs, func(r interface{}) error { return a.c.WhereAny(m.Interface(), conds...).List(a.ctx, r) })
		}
	}
	// conditionals built once and evaluated again and again: what an evaluation hands out
	// must not come back from the next one
	reused := map[string]client.ConditionalAPI{
		"reused WhereCache(true)": a.c.WhereCache(truePred),
	}
	if len(uuids) > 0 {
		reused["reused Where(models by uuid)"] = a.c.Where(probes()...)
		m := reflect.New(typ)
		var conds []model.Condition
		for _, u := range uuids {
			conds = append(conds, model.Condition{Field: m.Elem().FieldByName("UUID").Addr().Interface(), Function: ovsdb.ConditionEqual, Value: u})
		}
		reused["reused WhereAny(_uuid==)"] = a.c.WhereAny(m.Interface(), conds...)
	}
	for name, capi := range reused {
		capi := capi
		for _, ptrs := range []bool{false, true} {
			ptrs := ptrs
			kind := "[]T"
			if ptrs {
				kind = "[]*T"
			}
			paths[name+".List("+kind+")"] = func() ([]interface{}, error) {
				return listInto(ptrs, func(r interface{}) error { return capi.List(a.ctx, r) })
			}
		}
	}
	paths["Get(uuid)"] = func() ([]interface{}, error) {
		var out []interface{}
		for _, m := range probes() {
			if err := a.c.Get(a.ctx, m); err != nil {
				return nil, err
			}
			out = append(out, m)
		}
		return out, nil
	}
	paths["Cache().Table().Row"] = func() ([]interface{}, error) {
		var out []interface{}
		for _, u := range uuids {
			out = append(out, a.c.Cache().Table(table).Row(u))
		}
		return out, nil
	}
	paths["Cache().Table().Rows"] = func() ([]interface{}, error) {
		var out []interface{}
		for _, m := range a.c.Cache().Table(table).Rows() {
			out = append(out, m)
		}
		return out, nil
	}
	return paths
}

type c13APICase struct {
	Schema   json.RawMessage `json:"schema"`
	Rows     kit.Rows        `json:"rows"`
	ReadPath string          `json:"readPath"`
	Mutation string          `json:"mutation"`
}

// rowsOfModels converts API results; duplicate uuids are an error.
func rowsOfModels(w *kit.World, table string, ms []interface{}) (kit.Rows, error) {
	out := kit.Rows{}
	for _, m := range ms {
		if m == nil || reflect.ValueOf(m).IsNil() {
			return nil, fmt.Errorf("nil model in result")
		}
		u, r, err := w.RowFromModel(table, m)
		if err != nil {
			return nil, err
		}
		if _, dup := out[u]; dup {
			return nil, fmt.Errorf("row %s returned twice", u)
		}
		out[u] = r
	}
	return out, nil
}

// TestC13API: no model handed out by the client API (List into slices of structs or of
// pointers, conditional List, Get, the cache accessors) shares memory with the cache:
// whatever a caller does to a returned model, every read path keeps returning the
// stored rows.
func TestC13API(t *testing.T) {
	rapid.Check(t, func(t *rapid.T) {
		kit.PinUUIDs(1)
		tb := c08Table(t)
		s := kit.Schema{Name: "DB", Version: "1.0.0", Tables: []kit.Table{tb}}
		rows := kit.Rows{}
		n := rapid.IntRange(1, 4).Draw(t, "nrows")
		for i := 0; i < n; i++ {
			r := genIndexRow(t, tb)
			r["s0"] = kit.Scalar(kit.Str(fmt.Sprintf("n%d", i)))
			for c, v := range r {
				if hasZero(v) {
					r[c] = kit.Scalar(kit.UUID(kit.MkUUID(900 + i)))
				}
			}
			rows[kit.MkUUID(i+1)] = r
		}
		kase := c13APICase{Schema: s.JSON(), Rows: rows}
		fail := func(class, format string, args ...interface{}) {
			kit.Fail(t, "C13", class, kase, format, args...)
		}
		a, err := newAPIWorld(s, nil)
		if err != nil {
			t.Fatalf("harness: %v", err)
		}
		defer a.close()
		if err := a.load(tb.Name, rows); err != nil {
			t.Fatalf("harness: load: %v", err)
		}
		uuids := kit.SortedUUIDs(rows)
		paths := a.apiReadPaths(tb.Name, uuids)
		names := make([]string, 0, len(paths))
		for p := range paths {
			names = append(names, p)
		}
		sort.Strings(names)
		readAll := func(stage string) {
			for _, p := range names {
				ms, err := paths[p]()
				if err != nil {
					fail("api.read", "%s: %s failed: %v", stage, p, err)
				}
				got, err := rowsOfModels(a.w, tb.Name, ms)
				if err != nil {
					fail("api.read", "%s: %s: %v", stage, p, err)
				}
				if d := kit.DiffStates(kit.State{tb.Name: rows}, kit.State{tb.Name: got}); len(d) > 0 {
					fail("cache.leaks-reference", "%s: %s returns rows that differ from the stored ones:\n%s", stage, p, strings.Join(d, "\n"))
				}
			}
		}
		readAll("before any modification")
		victimPath := rapid.SampledFrom(names).Draw(t, "readpath")
		kase.ReadPath = victimPath
		victims, err := paths[victimPath]()
		if err != nil || len(victims) == 0 {
			fail("api.read", "%s returned %d models, %v", victimPath, len(victims), err)
		}
		shared := false
		var descs []string
		for i := 0; i < rapid.IntRange(1, 3).Draw(t, "nmutations"); i++ {
			v := victims[rapid.IntRange(0, len(victims)-1).Draw(t, "victim")]
			d, sh := mutateModel(t, v)
			descs = append(descs, d)
			shared = shared || sh
		}
		kase.Mutation = strings.Join(descs, "; ")
		readAll(fmt.Sprintf("after a caller modified (%s) models returned by %s", kase.Mutation, victimPath))
		kit.Record("C13", "api|"+victimPath+"|"+strings.SplitN(descs[0], ":", 2)[1], shared, func() interface{} { return kase }, "read:api:"+victimPath)
	})
}

// ---- C08: the conditional API ----

type c08APICase struct {
	Schema      json.RawMessage `json:"schema"`
	Config      string          `json:"indexConfig"`
	Rows        kit.Rows        `json:"rows"`
	Conditional string          `json:"conditional"`
	Action      string          `json:"action"`
}

// nativeCond turns a harness condition into a model.Condition on model m.
func nativeCond(w *kit.World, tb kit.Table, m interface{}, c kit.Cond) model.Condition {
	if c.Col == "_uuid" {
		return model.Condition{Field: reflect.ValueOf(m).Elem().FieldByName("UUID").Addr().Interface(), Function: ovsdb.ConditionFunction(c.Fn), Value: c.Val.K[0].S}
	}
	col := tb.ColOf(c.Col)
	return model.Condition{Field: fieldPtrByColumn(w, tb.Name, m, c.Col), Function: ovsdb.ConditionFunction(c.Fn), Value: kit.ToNative(*col, c.Val)}
}

// matchConds evaluates a list of conditions on a row with the reference evaluator.
func matchConds(s kit.Schema, tb kit.Table, rows kit.Rows, conds []kit.Cond) (map[string]bool, error) {
	res := refdb.Exec(s, kit.State{tb.Name: rows}, []kit.Op{{Op: "select", Table: tb.Name, Where: conds}}, nil)
	if res.FailedAt >= 0 {
		return nil, fmt.Errorf("conditions not well-typed: %+v", res.Results)
	}
	out := map[string]bool{}
	for _, r := range res.Results[0].Rows {
		out[r["_uuid"].K[0].S] = true
	}
	return out, nil
}

func setKey(m map[string]bool) string {
	var ks []string
	for k := range m {
		ks = append(ks, k[len(k)-3:])
	}
	sort.Strings(ks)
	return "{" + strings.Join(ks, ",") + "}"
}

// TestC08API: WhereAll selects the rows satisfying all conditions, WhereAny those
// satisfying any, WhereCache those the predicate accepts, Where(models) the rows of the
// first index (uuid, schema indexes, client indexes, in that order) that finds any; and
// executing the operations a conditional generates (Delete, Update, Mutate) affects
// exactly the rows its List reported.
func TestC08API(t *testing.T) {
	rapid.Check(t, func(t *rapid.T) { apiConditionalCase(t, "C08") })
}

// TestC03API: the same harness under C03's heading - operations built through the model
// API (Create, Where*.Update / Mutate / Delete) have, when executed, the effect RFC 7047
// gives to the operations the caller asked for.
func TestC03API(t *testing.T) {
	rapid.Check(t, func(t *rapid.T) { apiConditionalCase(t, "C03") })
}

func apiConditionalCase(t *rapid.T, prop string) {
	kit.PinUUIDs(1)
	tb := c08Table(t)
	configs := c08Configs(t)
	cfg := configs[rapid.IntRange(0, len(configs)-1).Draw(t, "config")]
	tb.Indexes = cfg.schema
	s := kit.Schema{Name: "DB", Version: "1.0.0", Tables: []kit.Table{tb}}
	var cidx map[string][]model.ClientIndex
	if len(cfg.client) > 0 {
		cidx = map[string][]model.ClientIndex{tb.Name: cfg.client}
	}
	rows := kit.Rows{}
	n := rapid.IntRange(0, 8).Draw(t, "nrows")
	for i := 0; i < n; i++ {
		r := genIndexRow(t, tb)
		r["s0"] = kit.Scalar(kit.Str(fmt.Sprintf("n%d", i)))
		if rapid.IntRange(0, 2).Draw(t, "copyrow") == 0 && i > 0 {
			src := rows[kit.MkUUID(rapid.IntRange(1, i).Draw(t, "src"))]
			for _, c := range tb.Cols {
				if c.Name != "s0" && rapid.IntRange(0, 3).Draw(t, "copycol") > 0 {
					r[c.Name] = src[c.Name].Clone()
				}
			}
		}
		for c, v := range r {
			if hasZero(v) {
				r[c] = kit.Scalar(kit.UUID(kit.MkUUID(900 + i)))
			}
		}
		rows[kit.MkUUID(i+1)] = r
	}
	kase := c08APICase{Schema: s.JSON(), Config: cfg.name, Rows: rows}
	fail := func(class, format string, args ...interface{}) {
		kit.Fail(t, prop, class, kase, format, args...)
	}
	a, err := newAPIWorld(s, cidx)
	if err != nil {
		t.Fatalf("harness: %v", err)
	}
	defer a.close()
	if err := a.load(tb.Name, rows); err != nil {
		t.Fatalf("harness: load: %v", err)
	}
	w := a.w
	typ := w.Types[tb.Name].Elem()
	g := kit.NewTxnGen(s, kit.TxnCfg{})
	pool := &kit.Pool{RowUUIDs: map[string][]string{}}
	genConds := func(min int) []kit.Cond {
		var conds []kit.Cond
		for len(conds) < min || (len(conds) < 3 && rapid.Bool().Draw(t, "morecond")) {
			c := genC08Cond(t, g, tb, rows, pool)
			if hasZero(c.Val) {
				continue
			}
			if col := tb.ColOf(c.Col); col != nil && col.IsEnum() && !enumCondOK {
				continue
			}
			conds = append(conds, c)
		}
		return conds
	}
	var capi client.ConditionalAPI
	var expected map[string]bool
	exact := true // expected is the exact answer (otherwise a superset rule is checked below)
	kind := rapid.SampledFrom([]string{"WhereAll", "WhereAll", "WhereAny", "WhereCache", "Where(model)", "Where(models)"}).Draw(t, "conditional")
	switch kind {
	case "WhereAll", "WhereAny":
		conds := genConds(1)
		if kind == "WhereAny" && n > 0 && rapid.Bool().Draw(t, "confusable") {
			// two conditions on one column whose values print alike (["a b"] and ["a","b"],
			// [] and [""], unset and ""): the second one is the value a stored row holds
			src := rows[kit.MkUUID(rapid.IntRange(1, n).Draw(t, "confrow"))]
			for _, c := range tb.Cols {
				if alike, ok := confusableValue(c, src[c.Name]); ok && rapid.Bool().Draw(t, "confcol") {
					conds = []kit.Cond{{Col: c.Name, Fn: "==", Val: alike}, {Col: c.Name, Fn: "==", Val: src[c.Name]}}
					kit.Label(prop, "api:where-any-confusable-values")
					break
				}
			}
		}
		m := reflect.New(typ).Interface()
		var mcs []model.Condition
		for _, c := range conds {
			mcs = append(mcs, nativeCond(w, tb, m, c))
		}
		kase.Conditional = fmt.Sprintf("%s %s", kind, kit.MustJSON(kit.Op{Op: "select", Table: tb.Name, Where: conds}.Wire(s)))
		if kind == "WhereAll" {
			capi = a.c.WhereAll(m, mcs...)
			expected, err = matchConds(s, tb, rows, conds)
		} else {
			capi = a.c.WhereAny(m, mcs...)
			expected = map[string]bool{}
			for _, c := range conds {
				one, e := matchConds(s, tb, rows, []kit.Cond{c})
				if e != nil {
					err = e
				}
				for u := range one {
					expected[u] = true
				}
			}
		}
		if err != nil {
			t.Fatalf("harness: %v", err)
		}
	case "WhereCache":
		conds := genConds(0)
		kase.Conditional = fmt.Sprintf("WhereCache(row satisfies %s)", kit.MustJSON(kit.Op{Op: "select", Table: tb.Name, Where: conds}.Wire(s)))
		expected, err = matchConds(s, tb, rows, conds)
		if err != nil {
			t.Fatalf("harness: %v", err)
		}
		pred := reflect.MakeFunc(reflect.FuncOf([]reflect.Type{reflect.PointerTo(typ)}, []reflect.Type{reflect.TypeOf(true)}, false),
			func(args []reflect.Value) []reflect.Value {
				u, r, err := w.RowFromModel(tb.Name, args[0].Interface())
				if err != nil {
					return []reflect.Value{reflect.ValueOf(false)}
				}
				one, err := matchConds(s, tb, kit.Rows{u: r}, conds)
				return []reflect.Value{reflect.ValueOf(err == nil && one[u])}
			}).Interface()
		capi = a.c.WhereCache(pred)
	default:
		// probes: copies of stored rows with some columns replaced, with or without uuid
		nm := 1
		if kind == "Where(models)" {
			nm = rapid.IntRange(2, 3).Draw(t, "nmodels")
		}
		var probes []model.Model
		var descr []string
		expected = map[string]bool{}
		for i := 0; i < nm; i++ {
			pr := genIndexRow(t, tb)
			if n > 0 && rapid.IntRange(0, 4).Draw(t, "fromrow") > 0 {
				src := rows[kit.MkUUID(rapid.IntRange(1, n).Draw(t, "src"))]
				for _, c := range tb.Cols {
					if rapid.IntRange(0, 3).Draw(t, "keepcol") > 0 {
						pr[c.Name] = src[c.Name].Clone()
					}
				}
			}
			for c, v := range pr {
				if hasZero(v) {
					pr[c] = kit.Scalar(kit.UUID(kit.MkUUID(950 + i)))
				}
			}
			pu := ""
			if n > 0 && rapid.IntRange(0, 3).Draw(t, "withuuid") == 0 {
				pu = kit.MkUUID(rapid.IntRange(1, n+1).Draw(t, "probeuuid"))
			}
			probes = append(probes, w.ModelFromRow(tb.Name, pu, pr))
			descr = append(descr, fmt.Sprintf("{uuid:%q %s}", pu, pr.Key()))
			for u := range whereModelExpected(tb, cfg, rows, pu, pr) {
				expected[u] = true
			}
		}
		kase.Conditional = fmt.Sprintf("Where(%s)", strings.Join(descr, ", "))
		capi = a.c.Where(probes...)
	}

	// ---- List ----
	listed := func() (map[string]bool, kit.Rows, error) {
		res := reflect.New(reflect.SliceOf(typ))
		if err := capi.List(a.ctx, res.Interface()); err != nil {
			return nil, nil, err
		}
		got, err := rowsOfModels(w, tb.Name, modelsOf(res.Elem()))
		if err != nil {
			return nil, nil, err
		}
		set := map[string]bool{}
		for u := range got {
			set[u] = true
		}
		return set, got, nil
	}
	gotSet, gotRows, err := listed()
	if err != nil {
		fail("api.list-error", "%s: List failed: %v", kase.Conditional, err)
	}
	for u, r := range gotRows {
		if r.Key() != rows[u].Key() {
			fail("api.list-content", "%s: List returned row %s as %s, stored %s", kase.Conditional, u, r.Key(), rows[u].Key())
		}
	}
	if exact && setKey(gotSet) != setKey(expected) {
		fail("api.list-wrong-rows", "%s: List returns rows %s, expected %s", kase.Conditional, setKey(gotSet), setKey(expected))
	}

	// ---- the generated operations affect exactly the listed rows ----
	// The expected effect is computed by the reference interpreter on one operation per
	// listed row (where _uuid == row): that is the set of rows the statement promises.
	action := rapid.SampledFrom([]string{"Delete", "Update", "Mutate", "Delete", "Update", "Mutate", "Wait"}).Draw(t, "action")
	kase.Action = action
	if action == "Wait" {
		apiWaitCase(t, prop, a, tb, rows, capi, kind, cfg.name, gotSet, &kase, fail)
		return
	}
	var ops []ovsdb.Operation
	listedUUIDs := make([]string, 0, len(gotSet))
	for u := range gotSet {
		listedUUIDs = append(listedUUIDs, u)
	}
	sort.Strings(listedUUIDs)
	var refOps []kit.Op
	byUUID := func(u string) []kit.Cond {
		return []kit.Cond{{Col: "_uuid", Fn: "==", Val: kit.Scalar(kit.UUID(u))}}
	}
	switch action {
	case "Delete":
		ops, err = capi.Delete()
		for _, u := range listedUUIDs {
			refOps = append(refOps, kit.Op{Op: "delete", Table: tb.Name, Where: byUUID(u)})
		}
	case "Update":
		// 1-2 drawn columns get drawn values through the model
		m := reflect.New(typ).Interface()
		row := kit.Row{}
		var fields []interface{}
		var names []string
		for _, ci := range rapid.Permutation([]int{1, 2, 3, 4, 5, 6}).Draw(t, "updcols")[:rapid.IntRange(1, 2).Draw(t, "nupd")] {
			c := tb.Cols[ci]
			var v kit.Val
			if c.Name == "m" {
				v = genIndexRow(t, tb)["m"]
			} else {
				v = kit.GenVal(t, c, nil)
			}
			if hasZero(v) {
				v = kit.Scalar(kit.UUID(kit.MkUUID(970)))
			}
			row[c.Name] = v
			reflect.ValueOf(m).Elem().FieldByName(kit.FieldName(ci)).Set(reflect.ValueOf(kit.ToNative(c, v)))
			fields = append(fields, fieldPtrByColumn(w, tb.Name, m, c.Name))
			names = append(names, c.Name+"="+v.Key())
		}
		kase.Action = "Update(" + strings.Join(names, ", ") + ")"
		ops, err = capi.Update(m, fields...)
		for _, u := range listedUUIDs {
			refOps = append(refOps, kit.Op{Op: "update", Table: tb.Name, Where: byUUID(u), Row: row})
		}
	default:
		// a mutation of the set, the map or a numeric scalar column through the model
		m := reflect.New(typ).Interface()
		var cands []kit.Col
		for _, c := range tb.Cols {
			numeric := c.Shape() == kit.ShScalar && len(c.Key.Enum) == 0 && (c.Key.T == kit.TInt || c.Key.T == kit.TReal)
			if c.Name == "set" || c.Name == "m" || (numeric && !inAnyIndex(cfg, c.Name)) {
				cands = append(cands, c)
			}
		}
		// 1-3 mutations; the same mutation may be asked for more than once (they apply in sequence)
		var muts []kit.Mut
		var mobjs []model.Mutation
		var descr []string
		for i, nmut := 0, rapid.IntRange(1, 3).Draw(t, "nmutations"); i < nmut; i++ {
			if i > 0 && rapid.IntRange(0, 2).Draw(t, "repeatmutation") == 0 {
				k := rapid.IntRange(0, len(muts)-1).Draw(t, "which")
				muts = append(muts, muts[k])
				mobjs = append(mobjs, mobjs[k])
				descr = append(descr, descr[k])
				continue
			}
			c := cands[rapid.IntRange(0, len(cands)-1).Draw(t, "mutcol")]
			var cur *kit.Val
			if len(listedUUIDs) > 0 {
				v := rows[listedUUIDs[0]][c.Name]
				cur = &v
			}
			var mut kit.Mut
			for tries := 0; ; tries++ {
				mut = g.GenMutation(t, c, cur, pool)
				mut.Bare = false
				if errk, may := refdb.CheckMutation(c, mut); errk == "" && may == "" && !hasZero(mut.Val) {
					break
				}
				if tries > 20 {
					t.Skip("no valid mutation drawn")
				}
			}
			var value interface{}
			if c.Shape() == kit.ShMap && !mut.Val.M {
				// delete by keys: a slice of the key type
				keys := reflect.MakeSlice(reflect.SliceOf(c.GoType().Key()), 0, len(mut.Val.K))
				for _, k := range mut.Val.K {
					keys = reflect.Append(keys, reflect.ValueOf(kit.ToNative(kit.Col{Name: "k", Key: c.Key, Min: 1, Max: 1}, kit.Scalar(k))))
				}
				value = keys.Interface()
			} else {
				value = kit.ToNative(c, mut.Val)
			}
			muts = append(muts, mut)
			mobjs = append(mobjs, model.Mutation{Field: fieldPtrByColumn(w, tb.Name, m, c.Name), Mutator: ovsdb.Mutator(mut.Mutator), Value: value})
			descr = append(descr, fmt.Sprintf("%s %s %s", c.Name, mut.Mutator, mut.Val.Key()))
		}
		kase.Action = "Mutate(" + strings.Join(descr, "; ") + ")"
		if len(muts) > 1 {
			kit.Label(prop, "api:mutate-several-mutations")
		}
		ops, err = capi.Mutate(m, mobjs...)
		for _, u := range listedUUIDs {
			refOps = append(refOps, kit.Op{Op: "mutate", Table: tb.Name, Where: byUUID(u), Mutations: muts})
		}
	}
	want := rows
	expectReject := ""
	if len(refOps) > 0 {
		ref := refdb.Exec(s, kit.State{tb.Name: rows}, refOps, nil)
		switch {
		case ref.FailedAt >= 0:
			expectReject = fmt.Sprintf("operation %d: %s %s", ref.FailedAt, ref.Results[ref.FailedAt].Err, ref.Results[ref.FailedAt].Detail)
		case ref.CommitErr != "":
			expectReject = "commit: " + ref.CommitErr + " " + ref.Detail
		case ref.NegativeZero:
			t.Skip("negative zero")
		default:
			want = ref.Post[tb.Name]
		}
		for _, r := range ref.Results {
			if r.MayReject != "" {
				t.Skip("may-reject form")
			}
		}
	}
	if err != nil {
		if len(gotSet) > 0 {
			fail("api.ops-error", "%s: List reports %s but %s() fails: %v", kase.Conditional, setKey(gotSet), action, err)
		}
		kit.Record(prop, "api|"+kind+"|"+action+"|no-ops", false, func() interface{} { return kase }, "api:"+kind, "api:"+action)
		return
	}
	if len(ops) == 0 {
		if len(gotSet) > 0 {
			fail("api.ops-error", "%s: List reports %s but %s() generates no operation", kase.Conditional, setKey(gotSet), action)
		}
		kit.Record(prop, "api|"+kind+"|"+action+"|no-ops", false, func() interface{} { return kase }, "api:"+kind, "api:"+action)
		return
	}
	res, err := a.c.Transact(a.ctx, ops...)
	if err != nil {
		if expectReject != "" {
			// refused on the client side already
			kit.Record(prop, "api|"+kind+"|"+action+"|refused", false, func() interface{} { return kase }, "api:"+kind, "api:"+action, "api:rejected-as-expected")
			return
		}
		fail("api.ops-error", "%s: transact of the %s operations failed: %v (%s)", kase.Conditional, kase.Action, err, kit.MustJSON(ops))
	}
	count := 0
	rejected := ""
	for i, r := range res {
		if r.Error != "" {
			rejected = fmt.Sprintf("operation %d: %s %s", i, r.Error, r.Details)
			break
		}
		count += r.Count
	}
	if rejected != "" && expectReject == "" {
		fail("api.ops-error", "%s: %s failed: %s (%s)", kase.Conditional, kase.Action, rejected, kit.MustJSON(ops))
	}
	if rejected == "" && expectReject != "" {
		fail("api.ops-missing-error", "%s: %s on rows %s must be rejected (%s) but was executed (%s)", kase.Conditional, kase.Action, setKey(gotSet), expectReject, kit.MustJSON(ops))
	}
	post, err := a.srv.Snapshot()
	if err != nil {
		t.Fatalf("harness: snapshot: %v", err)
	}
	if d := kit.DiffStates(kit.State{tb.Name: want}, post); len(d) > 0 {
		fail("api.ops-affect-other-rows", "%s: List reports %s, but executing %s (%s) leaves the database different from applying it to exactly those rows:\n%s", kase.Conditional, setKey(gotSet), kase.Action, kit.MustJSON(ops), strings.Join(d, "\n"))
	}
	if rejected == "" && count != len(gotSet) {
		fail("api.ops-count", "%s: List reports %d rows, the %s operations report %d affected rows (%s)", kase.Conditional, len(gotSet), action, count, kit.MustJSON(ops))
	}
	// the cache followed
	cached, err := kit.CacheRows(w, a.c, tb.Name)
	if err != nil {
		t.Fatalf("harness: %v", err)
	}
	if d := kit.DiffStates(post, kit.State{tb.Name: cached}); len(d) > 0 {
		fail("api.cache-differs", "after %s the cache differs from the database:\n%s", action, strings.Join(d, "\n"))
	}
	nontrivial := len(gotSet) > 0 && len(gotSet) < len(rows)
	outcome := "api:executed"
	if rejected != "" {
		outcome = "api:rejected-as-expected"
	}
	kit.Record(prop, fmt.Sprintf("api|%s|%s|%s|%d", kind, kase.Action, cfg.name, len(gotSet)), nontrivial, func() interface{} { return kase }, "api:"+kind, "api:"+action, outcome)
}

// confusableValue returns a different value of the column that renders like v when
// printed element by element with spaces in between.
func confusableValue(c kit.Col, v kit.Val) (kit.Val, bool) {
	if c.Key.T != kit.TStr || len(c.Key.Enum) > 0 {
		return kit.Val{}, false
	}
	switch c.Shape() {
	case kit.ShSet, kit.ShOpt:
		switch {
		case len(v.K) >= 2 && c.Shape() == kit.ShSet:
			var parts []string
			for _, a := range v.K {
				parts = append(parts, a.S)
			}
			return kit.SetOf(kit.Str(strings.Join(parts, " "))), true
		case len(v.K) == 1 && v.K[0].S == "":
			return kit.EmptySet(), true
		case len(v.K) == 0:
			return kit.SetOf(kit.Str("")), true
		}
	case kit.ShMap:
		if c.Value != nil && c.Value.T == kit.TStr && len(v.K) >= 2 {
			joined := v.V[0].S
			for i := 1; i < len(v.K); i++ {
				joined += " " + v.K[i].S + ":" + v.V[i].S
			}
			return kit.MapOf(v.K[0], kit.Str(joined)), true
		}
	}
	return kit.Val{}, false
}

func inAnyIndex(cfg c08Config, col string) bool {
	for _, idx := range cfg.schema {
		for _, c := range idx {
			if c == col {
				return true
			}
		}
	}
	return false
}

// enumCondOK: explicit conditions on enum columns are generated (mapper.NewCondition used
// to panic on them: see KNOWN_FINDINGS).
var enumCondOK = true

// whereModelExpected is the documented selection of Where(model) for one model: the row
// with the model's uuid if it exists, else the rows found through the first index, in
// the order schema indexes then client indexes, under which any row has the model's values.
func whereModelExpected(tb kit.Table, cfg c08Config, rows kit.Rows, uuid string, probe kit.Row) map[string]bool {
	out := map[string]bool{}
	if uuid != "" {
		if _, ok := rows[uuid]; ok {
			out[uuid] = true
			return out
		}
	}
	type colKey struct{ col, key string }
	var indexes [][]colKey
	for _, idx := range cfg.schema {
		var cks []colKey
		for _, c := range idx {
			cks = append(cks, colKey{col: c})
		}
		indexes = append(indexes, cks)
	}
	for _, ci := range cfg.client {
		var cks []colKey
		for _, ck := range ci.Columns {
			k := ""
			if ck.Key != nil {
				k = fmt.Sprint(ck.Key)
			}
			cks = append(cks, colKey{col: ck.Column, key: k})
		}
		indexes = append(indexes, cks)
	}
	tuple := func(r kit.Row, idx []colKey) (string, bool) {
		var parts []string
		for _, ck := range idx {
			v := r[ck.col]
			if ck.key != "" {
				// a missing key counts as the zero value of the map's value type (cache.valueFromMap)
				mv, ok := v.Get(kit.Str(ck.key))
				if !ok {
					mv = kit.Str("")
				}
				parts = append(parts, mv.Key())
				continue
			}
			parts = append(parts, v.Key())
		}
		return strings.Join(parts, "|"), true
	}
	for _, idx := range indexes {
		pt, ok := tuple(probe, idx)
		if !ok {
			continue
		}
		for u, r := range rows {
			if rt, ok := tuple(r, idx); ok && rt == pt {
				out[u] = true
			}
		}
		if len(out) > 0 {
			return out
		}
	}
	return out
}

// TestFixedC08APIEnumAndModelOrder pins two repaired defects of the conditional API.
func TestFixedC08APIEnumAndModelOrder(t *testing.T) {
	tb := kit.Table{Name: "T0", IsRoot: true, Cols: []kit.Col{
		{Name: "s0", Key: kit.Base{T: kit.TStr}, Min: 1, Max: 1},
		{Name: "s1", Key: kit.Base{T: kit.TStr}, Min: 1, Max: 1},
		{Name: "e", Key: kit.Base{T: kit.TStr, Enum: []kit.Atom{kit.Str("blue"), kit.Str("red")}}, Min: 1, Max: 1},
	}}
	s := kit.Schema{Name: "DB", Version: "1.0.0", Tables: []kit.Table{tb}}
	a, err := newAPIWorld(s, map[string][]model.ClientIndex{"T0": {{Columns: []model.ColumnKey{{Column: "s1"}}}}})
	if err != nil {
		t.Fatal(err)
	}
	defer a.close()
	mk := func(s0, s1, e string) kit.Row {
		return kit.Row{"s0": kit.Scalar(kit.Str(s0)), "s1": kit.Scalar(kit.Str(s1)), "e": kit.Scalar(kit.Str(e))}
	}
	rows := kit.Rows{u(1): mk("n1", "a", "blue"), u(2): mk("n2", "a", "red"), u(3): mk("n3", "b", "red")}
	if err := a.load("T0", rows); err != nil {
		t.Fatal(err)
	}
	typ := a.w.Types["T0"].Elem()
	list := func(c client.ConditionalAPI) (n int, err error) {
		defer func() {
			if r := recover(); r != nil {
				err = fmt.Errorf("panic: %v", r)
			}
		}()
		res := reflect.New(reflect.SliceOf(typ))
		if err := c.List(a.ctx, res.Interface()); err != nil {
			return 0, err
		}
		return res.Elem().Len(), nil
	}
	// a condition on an enum column
	func() {
		defer func() {
			if r := recover(); r != nil {
				t.Errorf("VERIF-FAIL property=C08 class=api.condition-panic: WhereAll with a condition on an enum column panicked: %v", r)
			}
		}()
		m := reflect.New(typ).Interface()
		n, err := list(a.c.WhereAll(m, model.Condition{Field: fieldPtrByColumn(a.w, "T0", m, "e"), Function: ovsdb.ConditionEqual, Value: "red"}))
		if err != nil || n != 2 {
			t.Errorf("VERIF-FAIL property=C08 class=api.list-wrong-rows: WhereAll(e == red) lists %d rows (%v), want 2", n, err)
		}
	}()
	// Where(models): a model naming row 1 by uuid selects row 1 whatever came before it
	byIndex := a.w.ModelFromRow("T0", "", mk("x", "zzz", "blue"))     // matches nothing
	first := a.w.ModelFromRow("T0", u(1), mk("x", "nomatch", "blue")) // row 1 by uuid
	again := a.w.ModelFromRow("T0", u(1), mk("y", "a", "blue"))       // row 1 by uuid; its s1 also names row 2
	for _, order := range [][]model.Model{{byIndex, first, again}, {again, first, byIndex}} {
		n, err := list(a.c.Where(order...))
		if err != nil || n != 1 {
			t.Errorf("VERIF-FAIL property=C08 class=api.list-wrong-rows: Where(models naming row 1 by uuid) lists %d rows (%v), want 1", n, err)
		}
	}
}
