package props

import (
	"context"
	"encoding/json"
	"fmt"
	"sort"
	"strings"
	"sync"
	"testing"
	"time"

	"github.com/ovn-org/libovsdb/model"
	"github.com/ovn-org/libovsdb/ovsdb"
	"github.com/ovn-org/libovsdb/server"
	"pgregory.net/rapid"

	"verif/pbt/kit"
	"verif/pbt/refdb"
)

const c17Schema = `{"name":"DB","version":"1.0.0","tables":{
 "Counter":{"isRoot":true,"indexes":[["name"]],"columns":{"name":{"type":"string"},"value":{"type":"integer"}}},
 "Item":{"isRoot":true,"indexes":[["key"]],"columns":{"key":{"type":"string"},"owner":{"type":"integer"}}},
 "Parent":{"isRoot":true,"indexes":[["name"]],"columns":{"name":{"type":"string"},"kids":{"type":{"key":{"type":"uuid","refTable":"Child","refType":"strong"},"min":0,"max":"unlimited"}}}},
 "Child":{"columns":{"name":{"type":"string"}}},
 "Scratch":{"isRoot":true,"indexes":[["id"]],"columns":{"id":{"type":"string"},"n":{"type":"integer"}}},
 "Log":{"isRoot":true,"columns":{"tag":{"type":"string"},"client":{"type":"integer"}}}}}`

type c17Txn struct {
	Tag  string   `json:"tag"`
	Kind string   `json:"kind"`
	Ops  []kit.Op `json:"-"`
	JSON string   `json:"ops"`
	// filled at run time
	Results []ovsdb.OperationResult `json:"-"`
	Err     string                  `json:"err,omitempty"`
	OK      bool                    `json:"ok"`
	Start   time.Duration           `json:"-"`
	End     time.Duration           `json:"-"`
	Client  int                     `json:"client"`
	Seq     int                     `json:"seq"`
}

type c17Case struct {
	Programs [][]*c17Txn `json:"programs"`
	Order    []string    `json:"observedOrder,omitempty"`
}

func eqStr(col, v string) kit.Cond { return kit.Cond{Col: col, Fn: "==", Val: kit.Scalar(kit.Str(v))} }

// genC17Program draws the transactions of one client.
func genC17Program(t *rapid.T, client int, uuidBase *int, children []string) []*c17Txn {
	n := rapid.IntRange(3, 14).Draw(t, "ntxn")
	var out []*c17Txn
	for i := 0; i < n; i++ {
		tag := fmt.Sprintf("c%d-t%d", client, i)
		*uuidBase++
		logOp := kit.Op{Op: "insert", Table: "Log", UUID: kit.MkUUID(*uuidBase), Row: kit.Row{"tag": kit.Scalar(kit.Str(tag)), "client": kit.Scalar(kit.Int(int64(client)))}}
		tx := &c17Txn{Tag: tag, Client: client, Seq: i}
		switch rapid.SampledFrom([]string{"incr", "incr", "insert-if-absent", "insert-if-absent", "move", "cas", "detach", "detach+claim", "retire+claim", "incr-scratch", "own+list"}).Draw(t, "kind") {
		case "own+list":
			// an item changes hands and the same transaction lists the items of the others: the
			// item just taken is not among them
			k := rapid.SampledFrom([]string{"k1", "k2", "k3", "k4"}).Draw(t, "key")
			tx.Kind = "own+list"
			tx.Ops = []kit.Op{{Op: "update", Table: "Item", Where: []kit.Cond{eqStr("key", k)}, Row: kit.Row{"owner": kit.Scalar(kit.Int(int64(client)))}},
				{Op: "select", Table: "Item", Where: []kit.Cond{{Col: "owner", Fn: "!=", Val: kit.Scalar(kit.Int(int64(client)))}}}, logOp}
		case "retire+claim":
			// a scratch row is deleted and a contested key claimed: when the claim fails the row
			// is still there for everybody who comes later
			*uuidBase++
			sid := rapid.SampledFrom([]string{"s1", "s2", "s3"}).Draw(t, "scratch")
			k := rapid.SampledFrom([]string{"k1", "k2", "k3", "k4"}).Draw(t, "key")
			tx.Kind = "retire+claim"
			tx.Ops = []kit.Op{{Op: "delete", Table: "Scratch", Where: []kit.Cond{eqStr("id", sid)}},
				{Op: "insert", Table: "Item", UUID: kit.MkUUID(*uuidBase), Row: kit.Row{"key": kit.Scalar(kit.Str(k)), "owner": kit.Scalar(kit.Int(int64(client)))}}, logOp}
		case "incr-scratch":
			sid := rapid.SampledFrom([]string{"s1", "s2", "s3"}).Draw(t, "scratch")
			tx.Kind = "incr-scratch"
			tx.Ops = []kit.Op{{Op: "mutate", Table: "Scratch", Where: []kit.Cond{eqStr("id", sid)}, Mutations: []kit.Mut{{Col: "n", Mutator: "+=", Val: kit.Scalar(kit.Int(1))}}}, logOp}
		case "detach", "detach+claim":
			// a child leaves a parent (when no parent holds it any more it is garbage collected);
			// the second form also claims a contested key: when that fails nothing may remain of
			// the detachment either
			ch := rapid.SampledFrom(children).Draw(t, "child")
			from := rapid.SampledFrom([]string{"p1", "p2"}).Draw(t, "from")
			tx.Kind = "detach"
			tx.Ops = []kit.Op{{Op: "mutate", Table: "Parent", Where: []kit.Cond{eqStr("name", from)}, Mutations: []kit.Mut{{Col: "kids", Mutator: "delete", Val: kit.SetOf(kit.UUID(ch))}}}}
			if rapid.Bool().Draw(t, "claim") {
				tx.Kind = "detach+claim"
				*uuidBase++
				k := rapid.SampledFrom([]string{"k1", "k2", "k3", "k4"}).Draw(t, "key")
				tx.Ops = append(tx.Ops, kit.Op{Op: "insert", Table: "Item", UUID: kit.MkUUID(*uuidBase), Row: kit.Row{"key": kit.Scalar(kit.Str(k)), "owner": kit.Scalar(kit.Int(int64(client)))}})
			}
			tx.Ops = append(tx.Ops, logOp)
		case "incr":
			tx.Kind = "incr"
			d := rapid.IntRange(1, 3).Draw(t, "delta")
			c := rapid.SampledFrom([]string{"a", "b"}).Draw(t, "counter")
			tx.Ops = []kit.Op{{Op: "mutate", Table: "Counter", Where: []kit.Cond{eqStr("name", c)}, Mutations: []kit.Mut{{Col: "value", Mutator: "+=", Val: kit.Scalar(kit.Int(int64(d)))}}}, logOp}
		case "insert-if-absent":
			tx.Kind = "insert-if-absent"
			*uuidBase++
			k := rapid.SampledFrom([]string{"k1", "k2", "k3", "k4"}).Draw(t, "key")
			tx.Ops = []kit.Op{{Op: "insert", Table: "Item", UUID: kit.MkUUID(*uuidBase), Row: kit.Row{"key": kit.Scalar(kit.Str(k)), "owner": kit.Scalar(kit.Int(int64(client)))}}, logOp}
		case "move":
			tx.Kind = "move"
			ch := rapid.SampledFrom(children).Draw(t, "child")
			from := rapid.SampledFrom([]string{"p1", "p2"}).Draw(t, "from")
			to := "p2"
			if from == "p2" {
				to = "p1"
			}
			tx.Ops = []kit.Op{
				{Op: "mutate", Table: "Parent", Where: []kit.Cond{eqStr("name", from)}, Mutations: []kit.Mut{{Col: "kids", Mutator: "delete", Val: kit.SetOf(kit.UUID(ch))}}},
				{Op: "mutate", Table: "Parent", Where: []kit.Cond{eqStr("name", to)}, Mutations: []kit.Mut{{Col: "kids", Mutator: "insert", Val: kit.SetOf(kit.UUID(ch))}}},
				logOp}
		default:
			// compare-and-set on counter "a": succeeds only if the value is the expected one
			tx.Kind = "cas"
			zero := 0
			exp := rapid.IntRange(0, 6).Draw(t, "expected")
			tx.Ops = []kit.Op{
				{Op: "wait", Table: "Counter", Timeout: &zero, Until: "==", HasColumns: true, Columns: []string{"name", "value"}, Where: []kit.Cond{eqStr("name", "a")},
					Rows: []kit.Row{{"name": kit.Scalar(kit.Str("a")), "value": kit.Scalar(kit.Int(int64(exp) + 100))}}},
				{Op: "update", Table: "Counter", Where: []kit.Cond{eqStr("name", "a")}, Row: kit.Row{"value": kit.Scalar(kit.Int(int64(exp) + 101))}},
				logOp}
		}
		out = append(out, tx)
	}
	return out
}

func c17World(tb testing.TB) *kit.World { return c17WorldWith(tb, nil) }

// c17WorldWith: the database model (the server's as well as the clients') also declares the
// given client indexes.
func c17WorldWith(tb testing.TB, indexes map[string][]model.ClientIndex) *kit.World {
	s, err := parseSchemaJSON([]byte(c17Schema))
	if err != nil {
		tb.Fatalf("schema: %v", err)
	}
	w, err := kit.BuildWorld(s, indexes)
	if err != nil {
		tb.Fatalf("world: %v", err)
	}
	return w
}

// TestC17 (built with -race): N clients run their programs concurrently against one
// server while raw peers and a caching client monitor everything. The order of the log
// rows in a monitor's stream must be a serial order that explains every result.
func TestC17(t *testing.T) { c17Test(t, false) }

// TestC17Aged: the same on a server instance that has already committed more than 66000
// row changes (more than any bounded internal buffer holds: the cache behind the database
// has an event buffer of 65536 entries that nobody drains on the server side).
func TestC17Aged(t *testing.T) { c17Test(t, true) }

func c17Test(t *testing.T, aged bool) {
	w := c17World(t)
	if aged {
		// this variant's database model declares client indexes over the columns of the schema
		// indexes (and one more): the keys stay unique all the same
		w = c17WorldWith(t, map[string][]model.ClientIndex{
			"Item":    {{Columns: []model.ColumnKey{{Column: "key"}}}, {Columns: []model.ColumnKey{{Column: "owner"}}}},
			"Counter": {{Columns: []model.ColumnKey{{Column: "name"}}}},
		})
	}
	s := w.S
	rapid.Check(t, func(t *rapid.T) {
		kit.PinUUIDs(1)
		srv, err := kit.StartServer(w)
		if err != nil {
			t.Fatalf("server: %v", err)
		}
		defer srv.Close()
		bg := context.Background()
		setup, err := kit.NewClient(w, srv.Endpoint())
		if err != nil {
			t.Fatal(err)
		}
		if err := setup.Connect(bg); err != nil {
			t.Fatal(err)
		}
		defer setup.Close()
		children := []string{kit.MkUUID(11), kit.MkUUID(12), kit.MkUUID(13)}
		initOps := []kit.Op{
			{Op: "insert", Table: "Counter", UUID: kit.MkUUID(1), Row: kit.Row{"name": kit.Scalar(kit.Str("a")), "value": kit.Scalar(kit.Int(100))}},
			{Op: "insert", Table: "Counter", UUID: kit.MkUUID(2), Row: kit.Row{"name": kit.Scalar(kit.Str("b")), "value": kit.Scalar(kit.Int(0))}},
			{Op: "insert", Table: "Child", UUID: children[0], Row: kit.Row{"name": kit.Scalar(kit.Str("x"))}},
			{Op: "insert", Table: "Child", UUID: children[1], Row: kit.Row{"name": kit.Scalar(kit.Str("y"))}},
			{Op: "insert", Table: "Child", UUID: children[2], Row: kit.Row{"name": kit.Scalar(kit.Str("z"))}},
			{Op: "insert", Table: "Parent", UUID: kit.MkUUID(21), Row: kit.Row{"name": kit.Scalar(kit.Str("p1")), "kids": kit.SetOf(kit.UUID(children[0]), kit.UUID(children[1]), kit.UUID(children[2]))}},
			{Op: "insert", Table: "Parent", UUID: kit.MkUUID(22), Row: kit.Row{"name": kit.Scalar(kit.Str("p2"))}},
			{Op: "insert", Table: "Scratch", UUID: kit.MkUUID(31), Row: kit.Row{"id": kit.Scalar(kit.Str("s1"))}},
			{Op: "insert", Table: "Scratch", UUID: kit.MkUUID(32), Row: kit.Row{"id": kit.Scalar(kit.Str("s2"))}},
			{Op: "insert", Table: "Scratch", UUID: kit.MkUUID(33), Row: kit.Row{"id": kit.Scalar(kit.Str("s3"))}},
		}
		if res, err := kit.TransactOps(bg, w, setup, initOps); err != nil || len(res) != len(initOps) {
			t.Fatalf("init: %v %v", res, err)
		}
		if aged {
			ager, err := kit.DialRaw(srv.Sock)
			if err != nil {
				t.Fatal(err)
			}
			for round := 0; round < 3; round++ {
				var ins []json.RawMessage
				for i := 0; i < 11000; i++ {
					ins = append(ins, json.RawMessage(fmt.Sprintf(`{"op":"insert","table":"Log","row":{"tag":"aging-%d-%d","client":-1}}`, round, i)))
				}
				if reply, err := ager.Transact(s.Name, ins); err != nil || strings.Contains(string(reply), `"error"`) {
					t.Fatalf("harness: aging insert: %.200s %v", reply, err)
				}
				if reply, err := ager.Transact(s.Name, []json.RawMessage{json.RawMessage(`{"op":"delete","table":"Log","where":[["client","==",-1]]}`)}); err != nil || strings.Contains(string(reply), `"error"`) {
					t.Fatalf("harness: aging delete: %.200s %v", reply, err)
				}
			}
			ager.Close()
			kit.Label("C17", "server-aged-by-66000-row-changes")
		}
		// some children belong to both parents from the start (second transaction: p2 becomes
		// their second referrer)
		var shared []kit.Atom
		for _, ch := range children {
			if rapid.Bool().Draw(t, "sharedchild") {
				shared = append(shared, kit.UUID(ch))
			}
		}
		if len(shared) > 0 {
			if res, err := kit.TransactOps(bg, w, setup, []kit.Op{{Op: "update", Table: "Parent", Where: []kit.Cond{eqStr("name", "p2")}, Row: kit.Row{"kids": kit.SetOf(shared...)}}}); err != nil || len(res) != 1 || res[0].Error != "" {
				t.Fatalf("init: %v %v", res, err)
			}
		}
		initial, err := srv.Snapshot()
		if err != nil {
			t.Fatal(err)
		}
		// monitors
		npeers := rapid.IntRange(1, 3).Draw(t, "npeers")
		var peers []*kit.RawPeer
		allTables := map[string]interface{}{}
		for _, tb := range s.Tables {
			allTables[tb.Name] = map[string]interface{}{}
		}
		// often a bystander monitors a few columns only (its stream is not looked at): what the
		// other monitors are told must not depend on it
		if rapid.IntRange(0, 2).Draw(t, "narrowpeer") > 0 {
			rp, err := kit.DialRaw(srv.Sock)
			if err != nil {
				t.Fatal(err)
			}
			defer rp.Close()
			narrow := map[string]interface{}{
				"Counter": map[string]interface{}{"columns": []string{"name"}}, "Item": map[string]interface{}{"columns": []string{"key"}},
				"Parent": map[string]interface{}{"columns": []string{"name"}}, "Log": map[string]interface{}{"columns": []string{"client"}}, "Child": map[string]interface{}{"columns": []string{}},
			}
			var reply json.RawMessage
			if err := rp.Call(rapid.SampledFrom([]string{"monitor", "monitor_cond"}).Draw(t, "narrowmethod"), []interface{}{s.Name, "narrow", narrow}, &reply); err != nil {
				t.Fatalf("monitor: %v", err)
			}
			kit.Label("C17", "column-selecting-bystander")
			// half of the bystanders leave at once: the server keeps their monitors (it never
			// removes them) and fails to notify them from then on - the others must not suffer
			if rapid.Bool().Draw(t, "narrowleaves") {
				rp.Close()
				kit.Label("C17", "bystander-gone-before-the-transactions")
			}
		}
		for i := 0; i < npeers; i++ {
			rp, err := kit.DialRaw(srv.Sock)
			if err != nil {
				t.Fatal(err)
			}
			defer rp.Close()
			var reply json.RawMessage
			method := rapid.SampledFrom([]string{"monitor", "monitor_cond"}).Draw(t, "method")
			if err := rp.Call(method, []interface{}{s.Name, fmt.Sprintf("m%d", i), allTables}, &reply); err != nil {
				t.Fatalf("monitor: %v", err)
			}
			peers = append(peers, rp)
		}
		cacher, err := kit.NewClient(w, srv.Endpoint())
		if err != nil {
			t.Fatal(err)
		}
		if err := cacher.Connect(bg); err != nil {
			t.Fatal(err)
		}
		defer cacher.Close()
		if _, err := cacher.MonitorAll(bg); err != nil {
			t.Fatalf("MonitorAll: %v", err)
		}
		// programs
		nclients := rapid.IntRange(2, 5).Draw(t, "nclients")
		uuidBase := 1000
		kase := c17Case{}
		for c := 0; c < nclients; c++ {
			prog := genC17Program(t, c, &uuidBase, children)
			for _, tx := range prog {
				tx.JSON = string(kit.OpsJSON(s, tx.Ops))
			}
			kase.Programs = append(kase.Programs, prog)
		}
		fail := func(class, format string, args ...interface{}) {
			kit.Fail(t, "C17", class, kase, format, args...)
		}
		// run
		start := time.Now()
		var wg sync.WaitGroup
		gate := make(chan struct{})
		errs := make(chan string, nclients)
		for c := 0; c < nclients; c++ {
			cl, err := kit.NewClient(w, srv.Endpoint())
			if err != nil {
				t.Fatal(err)
			}
			if err := cl.Connect(bg); err != nil {
				t.Fatal(err)
			}
			defer cl.Close()
			wg.Add(1)
			go func(c int) {
				defer wg.Done()
				<-gate
				for _, tx := range kase.Programs[c] {
					ctx, cancel := context.WithTimeout(bg, 30*time.Second)
					tx.Start = time.Since(start)
					res, err := kit.TransactOps(ctx, w, cl, tx.Ops)
					tx.End = time.Since(start)
					cancel()
					tx.Results = res
					if err != nil {
						tx.Err = err.Error()
						errs <- fmt.Sprintf("%s: %v", tx.Tag, err)
						return
					}
					tx.OK = true
					for _, r := range res {
						if r.Error != "" {
							tx.OK = false
						}
					}
				}
			}(c)
		}
		close(gate)
		wg.Wait()
		select {
		case e := <-errs:
			fail("transact.rpc-error", "a transaction failed at RPC level: %s", e)
		default:
		}
		// a final barrier so that every monitor has everything
		if _, err := kit.TransactOps(bg, w, setup, []kit.Op{{Op: "insert", Table: "Log", UUID: kit.MkUUID(999999), Row: kit.Row{"tag": kit.Scalar(kit.Str("barrier"))}}}); err != nil {
			fail("harness", "barrier: %v", err)
		}
		// ---- (a) the observed order ----
		byTag := map[string]*c17Txn{}
		committed := 0
		for _, prog := range kase.Programs {
			for _, tx := range prog {
				byTag[tx.Tag] = tx
				if tx.OK {
					committed++
				}
			}
		}
		var orders [][]string
		for pi, rp := range peers {
			var order []string
			for _, n := range rp.Take() {
				rows, err := decodeNotification(w, n)
				if err != nil {
					fail("notify.malformed", "peer %d: %v", pi, err)
				}
				tags := []string{}
				for _, rn := range rows["Log"] {
					if rn.kind == "insert" {
						tags = append(tags, rn.new["tag"].K[0].S)
					}
				}
				if len(tags) > 1 {
					fail("notify.merged", "peer %d: one notification carries the log rows of %d transactions: %v", pi, len(tags), tags)
				}
				if len(tags) == 1 && tags[0] != "barrier" {
					order = append(order, tags[0])
				}
			}
			orders = append(orders, order)
		}
		pi0 := orders[0]
		kase.Order = pi0
		for i, o := range orders[1:] {
			if strings.Join(o, ",") != strings.Join(pi0, ",") {
				fail("order.monitors-disagree", "monitor %d saw the transactions in another order than monitor 0:\n%v\n%v", i+1, o, pi0)
			}
		}
		seen := map[string]bool{}
		for _, tag := range pi0 {
			tx, ok := byTag[tag]
			if !ok || seen[tag] {
				fail("order.unknown-or-duplicate", "monitor stream contains %q twice or it was never issued", tag)
			}
			seen[tag] = true
			if !tx.OK {
				fail("order.failed-transaction-notified", "transaction %s failed (%v) but monitors were notified of it", tag, tx.Results)
			}
		}
		if len(pi0) != committed {
			fail("order.missing", "%d transactions committed, the monitor stream shows %d", committed, len(pi0))
		}
		// per client program order is preserved
		lastSeq := map[int]int{}
		for _, tag := range pi0 {
			tx := byTag[tag]
			if prev, ok := lastSeq[tx.Client]; ok && tx.Seq < prev {
				fail("order.program-order", "client %d: %s notified after a later transaction of the same client", tx.Client, tag)
			}
			lastSeq[tx.Client] = tx.Seq
		}
		// real-time order: if A returned before B was sent, A precedes B
		pos := map[string]int{}
		for i, tag := range pi0 {
			pos[tag] = i
		}
		for _, a := range pi0 {
			for _, b := range pi0 {
				if byTag[a].End < byTag[b].Start && pos[a] > pos[b] {
					fail("order.real-time", "%s returned before %s was sent but is ordered after it", a, b)
				}
			}
		}
		// ---- (b) replay in that order on the reference model ----
		st := initial
		states := []kit.State{st}
		for _, tag := range pi0 {
			tx := byTag[tag]
			res := refdb.Exec(s, st, tx.Ops, nil)
			if !res.Committed {
				fail("serial.unexplained-commit", "in the observed order %v, transaction %s (%s) cannot have committed: %v %s", pi0, tag, tx.JSON, res.Results, res.CommitErr)
			}
			for i, op := range tx.Ops {
				switch op.Op {
				case "mutate", "update", "delete":
					if tx.Results[i].Count != res.Results[i].Count {
						fail("serial.result", "transaction %s op %d: count %d, serial execution in the observed order gives %d", tag, i, tx.Results[i].Count, res.Results[i].Count)
					}
				case "select":
					got, want := []string{}, []string{}
					for _, r := range tx.Results[i].Rows {
						u, _ := r["_uuid"].(ovsdb.UUID)
						var owner interface{} = 0 // select leaves out columns that hold their default
						if o, ok := r["owner"]; ok {
							owner = o
						}
						got = append(got, fmt.Sprintf("%s owner=%v", u.GoUUID, owner))
					}
					for _, r := range res.Results[i].Rows {
						want = append(want, fmt.Sprintf("%s owner=%v", r["_uuid"].K[0].S, r["owner"].K[0].I))
					}
					sort.Strings(got)
					sort.Strings(want)
					if fmt.Sprint(got) != fmt.Sprint(want) {
						fail("serial.result", "transaction %s op %d: select returned %v, serial execution in the observed order gives %v", tag, i, got, want)
					}
				case "insert":
					if tx.Results[i].UUID.GoUUID != res.Results[i].UUID {
						fail("serial.result", "transaction %s op %d: uuid %s, want %s", tag, i, tx.Results[i].UUID.GoUUID, res.Results[i].UUID)
					}
				}
			}
			st = res.Post
			states = append(states, st)
		}
		// failed transactions must be explained at some position compatible with their client's order
		for _, prog := range kase.Programs {
			lo := 0
			for _, tx := range prog {
				if tx.OK {
					lo = pos[tx.Tag] + 1
					continue
				}
				hi := len(pi0)
				for _, later := range prog[tx.Seq+1:] {
					if later.OK {
						hi = pos[later.Tag]
						break
					}
				}
				explained := false
				for j := lo; j <= hi && !explained; j++ {
					res := refdb.Exec(s, states[j], tx.Ops, nil)
					if !res.Committed {
						explained = true
					}
				}
				if !explained {
					fail("serial.unexplained-failure", "transaction %s failed (%v) but would have succeeded at every position between %d and %d of the observed order", tx.Tag, tx.Results, lo, hi)
				}
			}
		}
		final, err := srv.Snapshot()
		if err != nil {
			fail("harness", "%v", err)
		}
		delete(final["Log"], kit.MkUUID(999999))
		if d := kit.DiffStates(st, final); len(d) > 0 {
			fail("serial.final-state", "the database differs from the serial execution in the observed order:\n%s", strings.Join(d, "\n"))
		}
		// ---- (c) closed forms ----
		sum := map[string]int64{"a": 100, "b": 0}
		winners := map[string]int{}
		casOK := 0
		for _, tag := range pi0 {
			tx := byTag[tag]
			switch tx.Kind {
			case "incr":
				sum[tx.Ops[0].Where[0].Val.K[0].S] += tx.Ops[0].Mutations[0].Val.K[0].I
			case "insert-if-absent":
				winners[tx.Ops[0].Row["key"].K[0].S]++
			case "detach+claim", "retire+claim":
				winners[tx.Ops[1].Row["key"].K[0].S]++
			case "cas":
				casOK++
				sum["a"] = tx.Ops[1].Row["value"].K[0].I
			}
		}
		for _, r := range final["Counter"] {
			name := r["name"].K[0].S
			if r["value"].K[0].I != sum[name] {
				fail("counter.lost-update", "counter %s is %d, the committed transactions in the observed order give %d", name, r["value"].K[0].I, sum[name])
			}
		}
		attempted := map[string]int{}
		for _, prog := range kase.Programs {
			for _, tx := range prog {
				if tx.Kind == "insert-if-absent" {
					attempted[tx.Ops[0].Row["key"].K[0].S]++
				}
				if tx.Kind == "detach+claim" || tx.Kind == "retire+claim" {
					attempted[tx.Ops[1].Row["key"].K[0].S]++
				}
			}
		}
		for k, n := range attempted {
			if n > 0 && winners[k] != 1 {
				fail("index.winners", "%d inserts competed for key %s, %d succeeded (want exactly 1)", n, k, winners[k])
			}
		}
		// ---- (d) the caching client converged ----
		for _, tb := range s.Tables {
			rows, err := kit.CacheRows(w, cacher, tb.Name)
			if err != nil {
				fail("cache.unreadable", "%v", err)
			}
			full, _ := srv.Snapshot()
			if d := kit.DiffStates(kit.State{tb.Name: full[tb.Name]}, kit.State{tb.Name: rows}); len(d) > 0 {
				fail("cache.differs", "the monitoring client's cache differs from the database at the end:\n%s", strings.Join(d, "\n"))
			}
		}
		// non-trivial: transactions overlapped in time
		overlap := 0
		var all []*c17Txn
		for _, prog := range kase.Programs {
			all = append(all, prog...)
		}
		sort.Slice(all, func(i, j int) bool { return all[i].Start < all[j].Start })
		for i := 1; i < len(all); i++ {
			if all[i].Start < all[i-1].End && all[i].Client != all[i-1].Client {
				overlap++
			}
		}
		kit.Record("C17", strings.Join(pi0, ","), overlap >= 2, func() interface{} { return kase }, fmt.Sprintf("clients:%d", nclients), fmt.Sprintf("overlapping>=2:%v", overlap >= 2))
	})
}

// TestC17MonitorWindow pins the window between "monitors notified" and "committed" with
// the server-side verif hook: a monitor set up inside it must still end up with the
// transaction's effect.
func TestC17MonitorWindow(t *testing.T) {
	w := c17World(t)
	s := w.S
	for round := 0; round < 12; round++ {
		srv, err := kit.StartServer(w)
		if err != nil {
			t.Fatal(err)
		}
		bg := context.Background()
		writer, _ := kit.NewClient(w, srv.Endpoint())
		if err := writer.Connect(bg); err != nil {
			t.Fatal(err)
		}
		parked := make(chan struct{})
		release := make(chan struct{})
		var once sync.Once
		server.SetVerifHook(func(o *server.OvsdbServer, point string) {
			if o == srv.Srv && point == "transact:notified" {
				once.Do(func() { close(parked); <-release })
			}
		})
		done := make(chan error, 1)
		go func() {
			_, err := kit.TransactOps(bg, w, writer, []kit.Op{{Op: "insert", Table: "Counter", UUID: kit.MkUUID(1), Row: kit.Row{"name": kit.Scalar(kit.Str("a")), "value": kit.Scalar(kit.Int(int64(round)))}}})
			done <- err
		}()
		<-parked
		rp, err := kit.DialRaw(srv.Sock)
		if err != nil {
			t.Fatal(err)
		}
		monDone := make(chan json.RawMessage, 1)
		go func() {
			var reply json.RawMessage
			method := []string{"monitor", "monitor_cond", "monitor_cond_since"}[round%3]
			args := []interface{}{s.Name, "m", map[string]interface{}{"Counter": map[string]interface{}{}}}
			if method == "monitor_cond_since" {
				args = append(args, kit.ZeroUUID)
			}
			_ = rp.Call(method, args, &reply)
			monDone <- reply
		}()
		time.Sleep(5 * time.Millisecond)
		close(release)
		server.SetVerifHook(nil)
		if err := <-done; err != nil {
			t.Fatalf("transact: %v", err)
		}
		reply := <-monDone
		// barrier
		if _, err := kit.TransactOps(bg, w, writer, []kit.Op{{Op: "insert", Table: "Log", Row: kit.Row{"tag": kit.Scalar(kit.Str("barrier"))}}}); err != nil {
			t.Fatal(err)
		}
		notes := rp.Take()
		got := strings.Contains(string(reply), kit.MkUUID(1))
		for _, n := range notes {
			if strings.Contains(string(n.Params[len(n.Params)-1]), kit.MkUUID(1)) {
				got = true
			}
		}
		rp.Close()
		writer.Close()
		srv.Close()
		kit.Record("C17", fmt.Sprintf("window-%d", round), true, nil, "monitor-window")
		if !got {
			kit.Fail(t, "C17", "monitor.missed-transaction", map[string]interface{}{"round": round, "reply": string(reply)}, "a monitor set up between notification and commit of a transaction neither got the row in its initial contents nor in a notification (reply %s)", reply)
		}
	}
}

type c17TokenCase struct {
	Tokens   int      `json:"tokens"`
	Clients  int      `json:"clients"`
	Monitors []string `json:"monitors"`
	Shape    string   `json:"transactionShape"`
	Takers   []string `json:"takers,omitempty"`
}

// TestC17Tokens (built with -race): transactions that only delete (optionally after a
// select or a wait) are transactions like any other. Clients race to take tokens by
// deleting them while monitoring peers acknowledge slowly: each token is taken by exactly
// one transaction, nobody gets an RPC error, every monitor is told of each deletion once.
func TestC17Tokens(t *testing.T) {
	w := c17World(t)
	rapid.Check(t, func(t *rapid.T) {
		srv, err := kit.StartServer(w)
		if err != nil {
			t.Fatalf("server: %v", err)
		}
		defer srv.Close()
		ntok := rapid.IntRange(1, 4).Draw(t, "ntokens")
		ncl := rapid.IntRange(2, 5).Draw(t, "nclients")
		shape := rapid.SampledFrom([]string{"delete", "select+delete", "wait+delete"}).Draw(t, "shape")
		kase := c17TokenCase{Tokens: ntok, Clients: ncl, Shape: shape}
		fail := func(class, format string, args ...interface{}) {
			kit.Fail(t, "C17", class, kase, format, args...)
		}
		setup, err := kit.DialRaw(srv.Sock)
		if err != nil {
			t.Fatalf("dial: %v", err)
		}
		defer setup.Close()
		var ins []json.RawMessage
		for i := 0; i < ntok; i++ {
			ins = append(ins, json.RawMessage(fmt.Sprintf(`{"op":"insert","table":"Item","row":{"key":"tok%d","owner":0}}`, i)))
		}
		if _, err := setup.Transact("DB", ins); err != nil {
			t.Fatalf("harness: %v", err)
		}
		var mons []*kit.RawPeer
		for i, nm := 0, rapid.IntRange(1, 2).Draw(t, "nmonitors"); i < nm; i++ {
			method := rapid.SampledFrom([]string{"monitor", "monitor_cond"}).Draw(t, "method")
			delay := time.Duration(rapid.SampledFrom([]int{0, 2, 5, 10}).Draw(t, "ackdelayms")) * time.Millisecond
			kase.Monitors = append(kase.Monitors, fmt.Sprintf("%s ack-delay=%v", method, delay))
			p, err := kit.DialRaw(srv.Sock)
			if err != nil {
				t.Fatalf("dial: %v", err)
			}
			defer p.Close()
			if delay > 0 {
				p.Hold = func(kit.Notification) { time.Sleep(delay) }
			}
			var reply json.RawMessage
			if err := p.Call(method, []interface{}{"DB", fmt.Sprintf("m%d", i), map[string]interface{}{"Item": map[string]interface{}{}}}, &reply); err != nil {
				fail("monitor.error", "%s: %v", method, err)
			}
			mons = append(mons, p)
		}
		type take struct {
			client, token int
			count         int
			err           error
			reply         string
		}
		results := make(chan take, ncl*ntok)
		start := make(chan struct{})
		var wg sync.WaitGroup
		for c := 0; c < ncl; c++ {
			p, err := kit.DialRaw(srv.Sock)
			if err != nil {
				t.Fatalf("dial: %v", err)
			}
			defer p.Close()
			order := rapid.Permutation(seqInts(ntok)).Draw(t, "tokenorder")
			wg.Add(1)
			go func(c int, p *kit.RawPeer, order []int) {
				defer wg.Done()
				<-start
				for _, k := range order {
					where := fmt.Sprintf(`[["key","==","tok%d"]]`, k)
					var ops []json.RawMessage
					switch shape {
					case "select+delete":
						ops = append(ops, json.RawMessage(`{"op":"select","table":"Item","where":`+where+`}`))
					case "wait+delete":
						ops = append(ops, json.RawMessage(`{"op":"wait","table":"Counter","timeout":0,"until":"==","columns":["name"],"rows":[],"where":[]}`))
					}
					ops = append(ops, json.RawMessage(`{"op":"delete","table":"Item","where":`+where+`}`))
					reply, err := p.Transact("DB", ops)
					tk := take{client: c, token: k, err: err, reply: string(reply)}
					if err == nil {
						var rs []ovsdb.OperationResult
						if json.Unmarshal(reply, &rs) == nil && len(rs) == len(ops) && rs[len(rs)-1].Error == "" {
							tk.count = rs[len(rs)-1].Count
						} else {
							tk.err = fmt.Errorf("reply %s", reply)
						}
					}
					results <- tk
				}
			}(c, p, order)
		}
		close(start)
		wg.Wait()
		close(results)
		taken := map[int]int{}
		for tk := range results {
			if tk.err != nil {
				fail("transact.rpc-error", "client %d taking token %d: %v", tk.client, tk.token, tk.err)
			}
			if tk.count > 1 {
				fail("result.count", "client %d deleted token %d %d times: %s", tk.client, tk.token, tk.count, tk.reply)
			}
			if tk.count == 1 {
				taken[tk.token]++
				kase.Takers = append(kase.Takers, fmt.Sprintf("token %d: client %d", tk.token, tk.client))
			}
		}
		sort.Strings(kase.Takers)
		for k := 0; k < ntok; k++ {
			if taken[k] != 1 {
				fail("serial.token-taken-not-once", "token %d was taken by %d transactions (every client tried): %v", k, taken[k], kase.Takers)
			}
		}
		for i, p := range mons {
			deletes := 0
			for _, n := range p.Take() {
				notes, err := decodeNotification(w, n)
				if err != nil {
					fail("notification.malformed", "monitor %d: %v", i, err)
				}
				for _, rn := range notes["Item"] {
					if rn.kind == "delete" {
						deletes++
					}
				}
			}
			if deletes != ntok {
				fail("notification.count", "monitor %d (%s) was told of %d deletions, %d tokens were deleted once each", i, kase.Monitors[i], deletes, ntok)
			}
		}
		kit.Record("C17", fmt.Sprintf("tokens|%d|%d|%s|%v", ntok, ncl, shape, kase.Monitors), ncl >= 3, func() interface{} { return kase }, "tokens:"+shape)
	})
}

func seqInts(n int) []int {
	out := make([]int, n)
	for i := range out {
		out[i] = i
	}
	return out
}
