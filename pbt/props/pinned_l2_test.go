package props

import (
	"context"
	"encoding/json"
	"errors"
	"fmt"
	"github.com/ovn-org/libovsdb/cache"
	"reflect"
	"strings"
	"sync"
	"testing"
	"time"

	"github.com/cenkalti/backoff/v4"
	"github.com/ovn-org/libovsdb/client"
	"github.com/ovn-org/libovsdb/modelgen"
	"github.com/ovn-org/libovsdb/ovsdb"

	"verif/pbt/kit"
)

type l2Env struct {
	t      *testing.T
	w      *kit.World
	srv    *kit.Server
	writer client.Client
}

func newL2Env(t *testing.T, w *kit.World) *l2Env {
	srv, err := kit.StartServer(w)
	if err != nil {
		t.Fatal(err)
	}
	writer, err := kit.NewClient(w, srv.Endpoint())
	if err != nil {
		t.Fatal(err)
	}
	if err := writer.Connect(context.Background()); err != nil {
		t.Fatal(err)
	}
	t.Cleanup(func() { writer.Close(); srv.Close() })
	return &l2Env{t: t, w: w, srv: srv, writer: writer}
}

func (e *l2Env) write(ops ...kit.Op) {
	e.t.Helper()
	ctx, cancel := context.WithTimeout(context.Background(), 10*time.Second)
	defer cancel()
	res, err := kit.TransactOps(ctx, e.w, e.writer, ops)
	if err != nil {
		e.t.Fatalf("write: %v", err)
	}
	for _, r := range res {
		if r.Error != "" {
			e.t.Fatalf("write: %s %s", r.Error, r.Details)
		}
	}
}

func (e *l2Env) cacheDiff(c client.Client, tables ...string) []string {
	db, err := e.srv.Snapshot()
	if err != nil {
		e.t.Fatal(err)
	}
	var out []string
	for _, tn := range tables {
		rows, err := kit.CacheRows(e.w, c, tn)
		if err != nil {
			return []string{err.Error()}
		}
		out = append(out, kit.DiffStates(kit.State{tn: db[tn]}, kit.State{tn: rows})...)
	}
	return out
}

func insT0(n int, marker string) kit.Op {
	return kit.Op{Op: "insert", Table: "T0", UUID: u(n), Row: kit.Row{"marker": kit.Scalar(kit.Str(marker)), "n": kit.Scalar(kit.Int(int64(n))), "tags": kit.SetOf(kit.Str("a"))}}
}

func TestFixedC01PlainMonitor(t *testing.T) {
	e := newL2Env(t, c16World(t))
	e.write(insT0(1, "one"))
	c, _ := kit.NewClient(e.w, e.srv.Endpoint())
	if err := c.Connect(context.Background()); err != nil {
		t.Fatal(err)
	}
	defer c.Close()
	m := c.NewMonitor(client.WithTable(e.w.NewModel("T0")))
	m.Method = ovsdb.MonitorRPC
	if _, err := c.Monitor(context.Background(), m); err != nil {
		t.Fatal(err)
	}
	e.write(insT0(2, "two"), kit.Op{Op: "update", Table: "T0", Where: []kit.Cond{{Col: "_uuid", Fn: "==", Val: kit.Scalar(kit.UUID(u(1)))}}, Row: kit.Row{"n": kit.Scalar(kit.Int(7))}})
	e.write(kit.Op{Op: "delete", Table: "T0", Where: []kit.Cond{{Col: "_uuid", Fn: "==", Val: kit.Scalar(kit.UUID(u(2)))}}})
	if !c.Connected() {
		t.Fatalf("VERIF-FAIL property=C01 class=client.disconnected: a client using the plain monitor method is disconnected by the first notification")
	}
	if d := e.cacheDiff(c, "T0"); len(d) > 0 {
		t.Fatalf("VERIF-FAIL property=C01 class=cache.differs: %s", strings.Join(d, "; "))
	}
}

func TestFixedC01AdditionalMonitorWindow(t *testing.T) {
	e := newL2Env(t, c16World(t))
	e.write(insT0(1, "one"), kit.Op{Op: "insert", Table: "T2", UUID: u(50), Row: kit.Row{"v": kit.Scalar(kit.Real(1))}})
	c, _ := kit.NewClient(e.w, e.srv.Endpoint())
	if err := c.Connect(context.Background()); err != nil {
		t.Fatal(err)
	}
	defer c.Close()
	if _, err := c.Monitor(context.Background(), c.NewMonitor(client.WithTable(e.w.NewModel("T2")))); err != nil {
		t.Fatal(err)
	}
	parked, release := make(chan struct{}), make(chan struct{})
	var once sync.Once
	client.SetVerifHook(func(cl client.Client, point string) {
		if cl == c && point == "monitor:reply" {
			once.Do(func() { close(parked); <-release })
		}
	})
	defer client.SetVerifHook(nil)
	errc := make(chan error, 1)
	go func() {
		_, err := c.Monitor(context.Background(), c.NewMonitor(client.WithTable(e.w.NewModel("T0"))))
		errc <- err
	}()
	<-parked
	// modifies and deletes a row that is in the (not yet applied) initial contents, inserts another
	e.write(kit.Op{Op: "delete", Table: "T0", Where: []kit.Cond{}}, insT0(2, "two"))
	close(release)
	if err := <-errc; err != nil {
		t.Fatalf("VERIF-FAIL property=C01 class=monitor.error: %v", err)
	}
	e.write(kit.Op{Op: "insert", Table: "T2", Row: kit.Row{"v": kit.Scalar(kit.Real(2))}})
	if !c.Connected() {
		t.Fatalf("VERIF-FAIL property=C01 class=client.disconnected: notification inside the set-up window of an additional monitor disconnected the client")
	}
	if d := e.cacheDiff(c, "T0", "T2"); len(d) > 0 {
		t.Fatalf("VERIF-FAIL property=C01 class=cache.differs: %s", strings.Join(d, "; "))
	}
}

func TestFixedC16TwoMonitorsReconnect(t *testing.T) {
	e := newL2Env(t, c16World(t))
	e.write(insT0(1, "one"), kit.Op{Op: "insert", Table: "T2", UUID: u(50), Row: kit.Row{"v": kit.Scalar(kit.Real(1))}})
	px, err := kit.StartProxy(e.srv.Sock)
	if err != nil {
		t.Fatal(err)
	}
	defer px.Close()
	c, _ := kit.NewClient(e.w, px.Endpoint(), client.WithReconnect(2*time.Second, backoff.NewConstantBackOff(2*time.Millisecond)))
	if err := c.Connect(context.Background()); err != nil {
		t.Fatal(err)
	}
	defer c.Close()
	for _, tn := range []string{"T0", "T2"} {
		if _, err := c.Monitor(context.Background(), c.NewMonitor(client.WithTable(e.w.NewModel(tn)))); err != nil {
			t.Fatal(err)
		}
	}
	for round := 0; round < 3; round++ {
		px.CutAll()
		e.write(insT0(10+round, "while-away"))
		time.Sleep(5 * time.Millisecond)
		if !waitConnected(c, 20*time.Second) {
			t.Fatalf("VERIF-FAIL property=C16 class=reconnect.never: round %d", round)
		}
		e.write(kit.Op{Op: "insert", Table: "T2", Row: kit.Row{"v": kit.Scalar(kit.Real(float64(round)))}})
		var d []string
		for i := 0; i < 200; i++ {
			if d = e.cacheDiff(c, "T0", "T2"); len(d) == 0 {
				break
			}
			time.Sleep(5 * time.Millisecond)
		}
		if len(d) > 0 {
			t.Fatalf("VERIF-FAIL property=C16 class=resync.cache-differs: after reconnect %d with two monitors: %s", round, strings.Join(d, "; "))
		}
	}
}

func TestFixedC18MonitorErrorThenReconnect(t *testing.T) {
	e := newL2Env(t, c16World(t))
	c, _ := kit.NewClient(e.w, e.srv.Endpoint())
	if err := c.Connect(context.Background()); err != nil {
		t.Fatal(err)
	}
	m := c.NewMonitor()
	m.Tables = []client.TableMonitor{{Table: "NoSuchTable"}}
	if _, err := c.Monitor(context.Background(), m); err == nil {
		t.Fatal("monitor of an unknown table accepted")
	}
	ok, stacks := watchdog(15*time.Second, func() {
		c.Disconnect()
		ctx, cancel := context.WithTimeout(context.Background(), 5*time.Second)
		defer cancel()
		for i := 0; i < 300 && !(c.Connect(ctx) == nil && c.Connected()); i++ {
			time.Sleep(time.Millisecond)
		}
	})
	if !ok {
		t.Fatalf("VERIF-FAIL property=C18 class=liveness.hang: Disconnect+Connect after a failed Monitor never returns\n%s", firstBlocked(stacks))
	}
	c.Close()
}

func TestFixedC18MonitorDuringReconnect(t *testing.T) {
	e := newL2Env(t, c16World(t))
	px, err := kit.StartProxy(e.srv.Sock)
	if err != nil {
		t.Fatal(err)
	}
	defer px.Close()
	for round := 0; round < 40; round++ {
		c, _ := kit.NewClient(e.w, px.Endpoint(), client.WithReconnect(2*time.Second, backoff.NewConstantBackOff(time.Millisecond)))
		if err := c.Connect(context.Background()); err != nil {
			t.Fatal(err)
		}
		if _, err := c.Monitor(context.Background(), c.NewMonitor(client.WithTable(e.w.NewModel("T2")))); err != nil {
			t.Fatal(err)
		}
		px.CutAll()
		ok, stacks := watchdog(15*time.Second, func() {
			for i := 0; i < 20; i++ {
				ctx, cancel := context.WithTimeout(context.Background(), time.Second)
				_, _ = c.Monitor(ctx, c.NewMonitor())
				cancel()
			}
		})
		if !ok {
			t.Fatalf("VERIF-FAIL property=C18 class=liveness.hang: Monitor called while the client reconnects never returns (round %d)\n%s", round, firstBlocked(stacks))
		}
		c.Close()
	}
}

func TestFixedC07MonitorRequestDefaults(t *testing.T) {
	e := newL2Env(t, c16World(t))
	e.write(insT0(1, "one"))
	rp, err := kit.DialRaw(e.srv.Sock)
	if err != nil {
		t.Fatal(err)
	}
	defer rp.Close()
	var reply json.RawMessage
	// no select, no columns; another table only for column n; a third one with initial false
	req := map[string]interface{}{"T0": map[string]interface{}{}, "T1": nil}
	if err := rp.Call("monitor_cond", []interface{}{"DB", "ck", req}, &reply); err != nil {
		t.Fatalf("VERIF-FAIL property=C07 class=monitor.error: %v", err)
	}
	if !strings.Contains(string(reply), u(1)) {
		t.Fatalf("VERIF-FAIL property=C07 class=monitor.initial: %s", reply)
	}
	rp2, _ := kit.DialRaw(e.srv.Sock)
	defer rp2.Close()
	if err := rp2.Call("monitor_cond", []interface{}{"DB", "ck2", map[string]interface{}{"T0": map[string]interface{}{"columns": []string{"n"}, "select": map[string]interface{}{"initial": false}}}}, &reply); err != nil {
		t.Fatal(err)
	}
	if strings.Contains(string(reply), u(1)) {
		t.Fatalf("VERIF-FAIL property=C07 class=monitor.initial-flag: initial contents sent although initial is false: %s", reply)
	}
	// the next commit must not crash the server; a change outside the monitored column must not be reported
	e.write(kit.Op{Op: "update", Table: "T0", Where: []kit.Cond{}, Row: kit.Row{"marker": kit.Scalar(kit.Str("changed"))}})
	if n := rp.Take(); len(n) != 1 || n[0].Method != "update2" {
		t.Fatalf("VERIF-FAIL property=C07 class=notify.count: peer without select/columns got %d notifications", len(n))
	}
	if n := rp2.Take(); len(n) != 0 {
		t.Fatalf("VERIF-FAIL property=C07 class=notify.spurious: a change confined to unmonitored columns was reported: %s", n[0].Params[1])
	}
}

// TestFixedC07SetOrderOnly: a transaction takes an element out of a set and puts it back
// (the elements end up in another order) and changes another column: a plain monitor of the
// set column has nothing to be told; a change of the set's membership is still reported.
func TestFixedC07SetOrderOnly(t *testing.T) {
	e := newL2Env(t, c16World(t))
	e.write(kit.Op{Op: "insert", Table: "T0", UUID: u(1), Row: kit.Row{"marker": kit.Scalar(kit.Str("one")), "tags": kit.SetOf(kit.Str("a"), kit.Str("b"))}})
	rp, err := kit.DialRaw(e.srv.Sock)
	if err != nil {
		t.Fatal(err)
	}
	defer rp.Close()
	var reply json.RawMessage
	if err := rp.Call("monitor", []interface{}{"DB", "ck", map[string]interface{}{"T0": map[string]interface{}{"columns": []string{"tags"}}}}, &reply); err != nil {
		t.Fatal(err)
	}
	e.write(kit.Op{Op: "mutate", Table: "T0", Where: []kit.Cond{}, Mutations: []kit.Mut{
		{Col: "tags", Mutator: "delete", Val: kit.SetOf(kit.Str("a"))},
		{Col: "tags", Mutator: "insert", Val: kit.SetOf(kit.Str("a"))},
		{Col: "n", Mutator: "+=", Val: kit.Scalar(kit.Int(1))}}})
	if n := rp.Take(); len(n) != 0 {
		t.Fatalf("VERIF-FAIL property=C07 class=notify.spurious: a set whose elements only changed their order was reported: %s", n[0].Params[1])
	}
	e.write(kit.Op{Op: "mutate", Table: "T0", Where: []kit.Cond{}, Mutations: []kit.Mut{{Col: "tags", Mutator: "insert", Val: kit.SetOf(kit.Str("c"))}}})
	if n := rp.Take(); len(n) != 1 || !strings.Contains(string(n[0].Params[1]), `"c"`) {
		t.Fatalf("VERIF-FAIL property=C07 class=notify.count: a new element of the monitored set gave %d notifications", len(n))
	}
}

func TestFixedC20EnumNames(t *testing.T) {
	text := `{"name":"DB","version":"1.0.0","tables":{"T0":{"columns":{
	 "mode":{"type":{"key":{"type":"string","enum":["set",["802.1q","a b","say \"hi\"","dot1q-tunnel"]]}}},
	 "level":{"type":{"key":{"type":"integer","enum":["set",[1,2,5]]},"min":0,"max":1}},
	 "ratio":{"type":{"key":{"type":"real","enum":["set",[0.5,2]]},"min":0,"max":"unlimited"}}}}}}`
	var schema ovsdb.DatabaseSchema
	if err := json.Unmarshal([]byte(text), &schema); err != nil {
		t.Fatal(err)
	}
	gen, _ := modelgen.NewGenerator()
	table := schema.Tables["T0"]
	for _, enumTypes := range []bool{true, false} {
		args := modelgen.GetTableTemplateData("p", "T0", &table)
		args.WithExtendedGen(true)
		args.WithEnumTypes(enumTypes)
		if _, err := gen.Format(modelgen.NewTableTemplate(), args); err != nil {
			t.Fatalf("VERIF-FAIL property=C20 class=generate.error: enum types %v: %v", enumTypes, err)
		}
	}
}

// TestFixedC20EnumSeparators: single-word enum values with leading or trailing separator
// characters, and a schema containing a back quote.
func TestFixedC20EnumSeparators(t *testing.T) {
	text := "{\"name\":\"DB\",\"version\":\"1.0.0\",\"tables\":{\"T0\":{\"columns\":{" +
		"\"mode\":{\"type\":{\"key\":{\"type\":\"string\",\"enum\":[\"set\",[\"~tilde\",\"$var\",\"up-\",\"`tick`\",\"rx+tx\"]]}}}}}}}"
	var schema ovsdb.DatabaseSchema
	if err := json.Unmarshal([]byte(text), &schema); err != nil {
		t.Fatal(err)
	}
	gen, _ := modelgen.NewGenerator()
	table := schema.Tables["T0"]
	args := modelgen.GetTableTemplateData("p", "T0", &table)
	args.WithEnumTypes(true)
	if _, err := gen.Format(modelgen.NewTableTemplate(), args); err != nil {
		t.Errorf("VERIF-FAIL property=C20 class=generate.error: table with enum values carrying separators: %v", err)
	}
	if _, err := gen.Format(modelgen.NewDBTemplate(), modelgen.GetDBTemplateData("p", schema)); err != nil {
		t.Errorf("VERIF-FAIL property=C20 class=generate.error: model.go for a schema containing a back quote: %v", err)
	}
}

// ---- open finding ----

func TestFindingC01V1DefaultReset(t *testing.T) {
	e := newL2Env(t, c16World(t))
	e.write(insT0(1, "one"))
	c, _ := kit.NewClient(e.w, e.srv.Endpoint())
	if err := c.Connect(context.Background()); err != nil {
		t.Fatal(err)
	}
	defer c.Close()
	m := c.NewMonitor(client.WithTable(e.w.NewModel("T0")))
	m.Method = ovsdb.MonitorRPC
	if _, err := c.Monitor(context.Background(), m); err != nil {
		t.Fatal(err)
	}
	// n: 1 -> 0 (the type's default), tags {a} -> {}
	e.write(kit.Op{Op: "update", Table: "T0", Where: []kit.Cond{}, Row: kit.Row{"n": kit.Scalar(kit.Int(0)), "tags": kit.EmptySet()}})
	if d := e.cacheDiff(c, "T0"); len(d) > 0 {
		t.Fatalf("VERIF-FAIL property=C01 class=v1-default-reset: a column returning to its default is not propagated to a client using the plain monitor method: %s", strings.Join(d, "; "))
	}
}

var _ = fmt.Sprint

// TestFixedC18CloseConnectRace (run with -race): Close/Disconnect immediately followed by
// Connect, Monitor and reads from other goroutines, repeated.
func TestFixedC18CloseConnectRace(t *testing.T) {
	e := newL2Env(t, c16World(t))
	e.write(insT0(1, "one"))
	c, _ := kit.NewClient(e.w, e.srv.Endpoint())
	defer c.Close()
	for round := 0; round < 60; round++ {
		ctx, cancel := context.WithTimeout(context.Background(), 5*time.Second)
		for i := 0; i < 500 && !(c.Connect(ctx) == nil && c.Connected()); i++ {
			time.Sleep(200 * time.Microsecond)
		}
		var wg sync.WaitGroup
		wg.Add(2)
		go func() {
			defer wg.Done()
			m := e.w.ModelFromRow("T0", u(1), kit.Row{})
			_ = c.Where(m)
			_, _ = c.Create(e.w.ModelFromRow("T0", u(9), kit.Row{}))
			_ = c.NewMonitor(client.WithTable(e.w.NewModel("T0")))
		}()
		go func() {
			defer wg.Done()
			gctx, gcancel := context.WithTimeout(context.Background(), 200*time.Millisecond)
			_ = c.Get(gctx, e.w.ModelFromRow("T0", u(1), kit.Row{}))
			gcancel()
		}()
		if _, err := c.Monitor(ctx, c.NewMonitor(client.WithTable(e.w.NewModel("T0")))); err != nil && strings.Contains(err.Error(), "already exists") {
			t.Fatalf("VERIF-FAIL property=C18 class=liveness.unusable-afterwards: round %d: Monitor on a freshly connected client: %v", round, err)
		}
		cancel()
		wg.Wait()
		if round%2 == 0 {
			c.Close()
		} else {
			c.Disconnect()
		}
	}
}

// TestFixedC18PurgeAccessorRace (run with -race): the cache's database model is replaced by
// Purge (what a reconnect does) while API calls read it through DatabaseModel()/Mapper().
func TestFixedC18PurgeAccessorRace(t *testing.T) {
	w := c16World(t)
	tc, err := cache.NewTableCache(w.DBModel, nil, nil)
	if err != nil {
		t.Fatal(err)
	}
	done := make(chan struct{})
	go func() {
		defer close(done)
		for i := 0; i < 200; i++ {
			tc.Purge(w.DBModel)
		}
	}()
	for i := 0; i < 200; i++ {
		_ = tc.DatabaseModel().FindTable(reflect.TypeOf(w.NewModel("T0")))
		_ = tc.Mapper().Schema.Name
	}
	<-done
}

// TestFixedC18FailedCallReply: a call that ends with its context must report that, and
// must not look at a reply the read loop may still be writing (the data race itself needs
// the late reply to arrive at the right moment; the wrong error is the deterministic symptom).
func TestFixedC18FailedCallReply(t *testing.T) {
	e := newL2Env(t, c16World(t))
	e.write(insT0(1, "one"))
	c, _ := kit.NewClient(e.w, e.srv.Endpoint())
	if err := c.Connect(context.Background()); err != nil {
		t.Fatal(err)
	}
	defer c.Close()
	ctx, cancel := context.WithCancel(context.Background())
	cancel()
	if err := c.Echo(ctx); !errors.Is(err, context.Canceled) {
		t.Errorf("VERIF-FAIL property=C18 class=call.wrong-error: Echo with a cancelled context returns %v", err)
	}
}

// TestFixedC18TrafficSeenClosed: with the inactivity probe configured, transact() told the
// prober about the reply with a blocking send on a channel that the disconnect handler
// closes: a connection lost right after a reply made Transact panic in the caller's
// goroutine ("send on closed channel"; reported first as a data race by TestC18Concurrent in
// inactivity mode). The connection is cut right after the transact reply, 150 times.
func TestFixedC18TrafficSeenClosed(t *testing.T) {
	e := newL2Env(t, c16World(t))
	for i := 0; i < 150; i++ {
		px, err := kit.StartProxy(e.srv.Sock)
		if err != nil {
			t.Fatal(err)
		}
		c, _ := kit.NewClient(e.w, px.Endpoint(), client.WithInactivityCheck(30*time.Second, 2*time.Second, backoff.NewConstantBackOff(2*time.Millisecond)))
		if err := c.Connect(context.Background()); err != nil {
			t.Fatal(err)
		}
		px.AddFault(kit.Fault{Dir: kit.S2C, K: 0, Mode: "after"})
		var pval interface{}
		func() {
			defer func() { pval = recover() }()
			ctx, cancel := context.WithTimeout(context.Background(), 5*time.Second)
			defer cancel()
			_, _ = c.Transact(ctx, ovsdb.Operation{Op: "select", Table: "T0", Where: []ovsdb.Condition{}})
		}()
		if pval != nil {
			t.Fatalf("VERIF-FAIL property=C18 class=panic.transact: iteration %d: Transact panicked when the connection was lost right after its reply: %v", i, pval)
		}
		for j := 0; j < 400 && !c.Connected(); j++ {
			time.Sleep(5 * time.Millisecond)
		}
		c.Close()
		px.Close()
	}
}

// TestFixedC18UpdateOfUnknownRow: a Monitor call with the plain 'monitor' method is given up
// by its context; the server has registered the monitor all the same and notifies it. The
// first 'update' that modifies a row of that table (which the cache never received) made
// the cache clone a nil model: the read loop panicked and took the process down. Now the
// cache reports an inconsistency (the client drops the connection). The cache-level input
// comes first (no process at stake), then the client-level history.
func TestFixedC18UpdateOfUnknownRow(t *testing.T) {
	w := c16World(t)
	tc, err := cache.NewTableCache(w.DBModel, nil, nil)
	if err != nil {
		t.Fatal(err)
	}
	tb := w.S.Table("T0")
	o, _ := tb.OvsRow(kit.Row{"n": kit.Scalar(kit.Int(4))}, false)
	n, _ := tb.OvsRow(kit.Row{"n": kit.Scalar(kit.Int(5))}, false)
	var pval interface{}
	var uerr error
	func() {
		defer func() { pval = recover() }()
		uerr = tc.Update(nil, ovsdb.TableUpdates{"T0": {kit.MkUUID(9): &ovsdb.RowUpdate{Old: &o, New: &n}}})
	}()
	if pval != nil || uerr == nil {
		t.Fatalf("VERIF-FAIL property=C18 class=panic.notification: an update notification modifying a row the cache does not hold: panic %v, error %v (want an error)", pval, uerr)
	}
	e := newL2Env(t, w)
	e.write(insT0(1, "one"))
	c, _ := kit.NewClient(e.w, e.srv.Endpoint())
	if err := c.Connect(context.Background()); err != nil {
		t.Fatal(err)
	}
	defer c.Close()
	if _, err := c.Monitor(context.Background(), c.NewMonitor(client.WithTable(w.NewModel("T2")))); err != nil {
		t.Fatal(err)
	}
	ctx, cancel := context.WithCancel(context.Background())
	cancel()
	m := c.NewMonitor(client.WithTable(w.NewModel("T0")))
	m.Method = ovsdb.MonitorRPC
	if _, err := c.Monitor(ctx, m); err == nil {
		t.Fatal("harness: Monitor with a cancelled context succeeded")
	}
	time.Sleep(50 * time.Millisecond)
	e.write(kit.Op{Op: "update", Table: "T0", Where: []kit.Cond{}, Row: kit.Row{"n": kit.Scalar(kit.Int(7))}})
	// the process is still here; the client either ignored the notification or dropped the connection
	ectx, ecancel := context.WithTimeout(context.Background(), 2*time.Second)
	defer ecancel()
	_ = c.Echo(ectx)
}

// TestFixedC18EndpointListRace (run with -race): when the connection of a reconnecting
// client is lost, the disconnect handler released the client lock and then read the
// endpoint list for a log line, while a Connect call of the application rewrites that
// list under the lock (found by TestC18Concurrent on a busy machine, about one shard run
// in fifteen). The pause point disconnect:unlocked parks the handler right after it
// released the lock, Connect runs, the handler goes on.
func TestFixedC18EndpointListRace(t *testing.T) {
	e := newL2Env(t, c16World(t))
	px, err := kit.StartProxy(e.srv.Sock)
	if err != nil {
		t.Fatal(err)
	}
	defer px.Close()
	c, _ := kit.NewClient(e.w, px.Endpoint(), client.WithReconnect(2*time.Second, backoff.NewConstantBackOff(50*time.Millisecond)))
	if err := c.Connect(context.Background()); err != nil {
		t.Fatal(err)
	}
	defer c.Close()
	// the handler is held back by a plain sleep: releasing it through a channel would order
	// the two accesses for the race detector
	parked := make(chan struct{})
	var once sync.Once
	client.SetVerifHook(func(cl client.Client, point string) {
		if cl == c && point == "disconnect:unlocked" {
			once.Do(func() { close(parked); time.Sleep(400 * time.Millisecond) })
		}
	})
	defer client.SetVerifHook(nil)
	px.CutAll()
	select {
	case <-parked:
	case <-time.After(10 * time.Second):
		t.Fatal("harness: pause point disconnect:unlocked not reached")
	}
	ctx, cancel := context.WithTimeout(context.Background(), 5*time.Second)
	err = c.Connect(ctx)
	cancel()
	if err != nil {
		t.Fatalf("harness: Connect while the disconnect handler is held back: %v", err)
	}
	time.Sleep(600 * time.Millisecond)
}
