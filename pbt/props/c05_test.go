package props

import (
	"encoding/json"
	"fmt"
	"reflect"
	"sort"
	"strings"
	"testing"

	"github.com/ovn-org/libovsdb/cache"
	"github.com/ovn-org/libovsdb/model"
	"github.com/ovn-org/libovsdb/ovsdb"
	"pgregory.net/rapid"

	"verif/pbt/kit"
	"verif/pbt/refdb"
)

// indexCfg is a generated index configuration of one table.
type indexCfg struct {
	Schema [][]string    `json:"schema"`
	Client [][]c05ColKey `json:"client"`
}

type c05ColKey struct {
	Col string `json:"col"`
	Key string `json:"key,omitempty"`
}

// genIndexTable draws a table with scalar, optional, set and map columns and an index configuration.
func genIndexTable(t *rapid.T) (kit.Schema, indexCfg, map[string][]model.ClientIndex) {
	tb := kit.Table{Name: "T0", IsRoot: true}
	ns := rapid.IntRange(2, 4).Draw(t, "nscalar")
	var scalars, plain []string
	for i := 0; i < ns; i++ {
		at := rapid.SampledFrom([]kit.AT{kit.TStr, kit.TStr, kit.TInt, kit.TBool, kit.TUUID, kit.TReal}).Draw(t, "stype")
		c := kit.Col{Name: fmt.Sprintf("s%d", i), Key: kit.Base{T: at}, Min: 1, Max: 1}
		tb.Cols = append(tb.Cols, c)
		scalars = append(scalars, c.Name)
		plain = append(plain, c.Name)
	}
	tb.Cols = append(tb.Cols, kit.Col{Name: "opt", Key: kit.Base{T: rapid.SampledFrom([]kit.AT{kit.TStr, kit.TInt, kit.TReal, kit.TBool, kit.TUUID}).Draw(t, "otype")}, Min: 0, Max: 1})
	tb.Cols = append(tb.Cols, kit.Col{Name: "opt2", Key: kit.Base{T: kit.TStr}, Min: 0, Max: 1})
	tb.Cols = append(tb.Cols, kit.Col{Name: "m", Key: kit.Base{T: kit.TStr}, Value: &kit.Base{T: kit.TStr}, Min: 0, Max: -1})
	tb.Cols = append(tb.Cols, kit.Col{Name: "set", Key: kit.Base{T: kit.TStr}, Min: 0, Max: -1})
	plain = append(plain, "opt", "opt2")
	cfg := indexCfg{}
	kind := rapid.SampledFrom([]string{"schema", "client", "mixed", "mixed"}).Draw(t, "cfgkind")
	if kind != "client" {
		n := rapid.IntRange(1, 2).Draw(t, "nschemaidx")
		seen := map[string]bool{}
		for i := 0; i < n; i++ {
			w := 1
			if rapid.Bool().Draw(t, "multi") {
				w = 2
			}
			perm := rapid.Permutation(scalars).Draw(t, "sidx")
			idx := append([]string{}, perm[:w]...)
			k := append([]string{}, idx...)
			sort.Strings(k)
			if seen[fmt.Sprint(k)] {
				continue
			}
			seen[fmt.Sprint(k)] = true
			cfg.Schema = append(cfg.Schema, idx)
		}
		tb.Indexes = cfg.Schema
	}
	var cis []model.ClientIndex
	if kind != "schema" {
		n := rapid.IntRange(1, 3).Draw(t, "nclientidx")
		for i := 0; i < n; i++ {
			var cols []c05ColKey
			w := rapid.IntRange(1, 2).Draw(t, "cwidth")
			for j := 0; j < w; j++ {
				if rapid.IntRange(0, 3).Draw(t, "mapkey") == 0 {
					cols = append(cols, c05ColKey{Col: "m", Key: rapid.SampledFrom([]string{"k1", "k2"}).Draw(t, "key")})
				} else {
					cols = append(cols, c05ColKey{Col: rapid.SampledFrom(plain).Draw(t, "ccol")})
				}
			}
			if len(cols) == 2 && cols[0] == cols[1] {
				cols = cols[:1]
			}
			cfg.Client = append(cfg.Client, cols)
			ci := model.ClientIndex{}
			for _, ck := range cols {
				k := model.ColumnKey{Column: ck.Col}
				if ck.Key != "" {
					k.Key = ck.Key
				}
				ci.Columns = append(ci.Columns, k)
			}
			cis = append(cis, ci)
		}
	}
	s := kit.Schema{Name: "DB", Version: "1.0.0", Tables: []kit.Table{tb}}
	var indexes map[string][]model.ClientIndex
	if len(cis) > 0 {
		indexes = map[string][]model.ClientIndex{"T0": cis}
	}
	if rapid.IntRange(0, 2).Draw(t, "secondtable") == 0 {
		// a second table with the same columns and client indexes of its own: the index
		// configuration of one table is nobody else's
		tb1 := kit.Table{Name: "T1", IsRoot: true, Cols: append([]kit.Col{}, tb.Cols...)}
		s.Tables = append(s.Tables, tb1)
		var cis1 []model.ClientIndex
		for i, n := 0, rapid.IntRange(1, 3).Draw(t, "nclientidx1"); i < n; i++ {
			if rapid.IntRange(0, 3).Draw(t, "mapkey1") == 0 {
				cis1 = append(cis1, model.ClientIndex{Columns: []model.ColumnKey{{Column: "m", Key: rapid.SampledFrom([]string{"k1", "k2", "k3"}).Draw(t, "key1")}}})
			} else {
				cis1 = append(cis1, model.ClientIndex{Columns: []model.ColumnKey{{Column: rapid.SampledFrom(plain).Draw(t, "ccol1")}}})
			}
		}
		if indexes == nil {
			indexes = map[string][]model.ClientIndex{}
		}
		indexes["T1"] = cis1
		kit.Label("C05", "config:second-table-with-client-indexes")
	}
	return s, cfg, indexes
}

var c05Strings = []string{"", "a", "b", "c"}

func genIndexRow(t *rapid.T, tb kit.Table) kit.Row {
	r := kit.Row{}
	for _, c := range tb.Cols {
		switch {
		case c.Name == "m":
			v := kit.EmptyMap()
			for _, k := range []string{"k1", "k2", "other"} {
				if rapid.Bool().Draw(t, "haskey") {
					v = v.WithPair(kit.Str(k), kit.Str(rapid.SampledFrom(c05Strings).Draw(t, "mv")))
				}
			}
			r[c.Name] = v
		default:
			r[c.Name] = kit.GenVal(t, c, nil)
		}
	}
	return r
}

func idxTuple(tb kit.Table, cols []c05ColKey, r kit.Row) string {
	var parts []string
	for _, ck := range cols {
		v := r[ck.Col]
		if ck.Key != "" {
			if mv, ok := v.Get(kit.Str(ck.Key)); ok {
				parts = append(parts, mv.Key())
			} else {
				parts = append(parts, kit.Str("").Key()) // zero value of the map's value type
			}
			continue
		}
		parts = append(parts, v.Key())
	}
	return strings.Join(parts, "|")
}

func schemaTuple(idx []string, r kit.Row) string {
	var parts []string
	for _, c := range idx {
		parts = append(parts, r[c].Key())
	}
	return strings.Join(parts, "|")
}

func validContent(tb kit.Table, rows kit.Rows) bool {
	for _, idx := range tb.Indexes {
		seen := map[string]bool{}
		for _, r := range rows {
			k := schemaTuple(idx, r)
			if seen[k] {
				return false
			}
			seen[k] = true
		}
	}
	return true
}

// nextContent draws the content after the batch: hand-overs, swaps, deletes, creations.
func nextContent(t *rapid.T, tb kit.Table, cur kit.Rows, fresh *int) (kit.Rows, bool) {
	next := cur.Clone()
	uuids := kit.SortedUUIDs(cur)
	handover := false
	nchanges := rapid.IntRange(1, 4).Draw(t, "nchanges")
	for i := 0; i < nchanges; i++ {
		uuids = kit.SortedUUIDs(next)
		kind := rapid.SampledFrom([]string{"create", "create", "delete", "modify", "handover", "handover", "swap", "recreate"}).Draw(t, "change")
		if len(uuids) == 0 {
			kind = "create"
		}
		switch kind {
		case "create":
			*fresh++
			next[kit.MkUUID(*fresh)] = genIndexRow(t, tb)
		case "delete":
			delete(next, rapid.SampledFrom(uuids).Draw(t, "victim"))
		case "modify":
			u := rapid.SampledFrom(uuids).Draw(t, "target")
			nr := genIndexRow(t, tb)
			for _, c := range tb.Cols {
				if rapid.Bool().Draw(t, "keepcol") {
					nr[c.Name] = next[u][c.Name]
				}
			}
			next[u] = nr
		case "handover":
			// B takes A's values, A gets fresh ones or is deleted
			if len(uuids) < 2 {
				continue
			}
			p := rapid.Permutation(uuids).Draw(t, "pair")
			a, b := p[0], p[1]
			next[b] = next[a].Clone()
			if rapid.Bool().Draw(t, "deleteA") {
				delete(next, a)
			} else {
				next[a] = genIndexRow(t, tb)
			}
			handover = true
		case "swap":
			if len(uuids) < 2 {
				continue
			}
			p := rapid.Permutation(uuids).Draw(t, "pair")
			next[p[0]], next[p[1]] = next[p[1]], next[p[0]]
			handover = true
		case "recreate":
			// delete a row and create a new one with the same values
			a := rapid.SampledFrom(uuids).Draw(t, "victim")
			*fresh++
			next[kit.MkUUID(*fresh)] = next[a].Clone()
			delete(next, a)
			handover = true
		}
	}
	return next, handover
}

type c05Case struct {
	Schema  json.RawMessage `json:"schema"`
	Indexes indexCfg        `json:"indexes"`
	Batches []string        `json:"batches"`
}

// checkCacheIndexes compares every index and lookup of a row cache with a full scan.
func checkCacheIndexes(w *kit.World, tb kit.Table, cfg indexCfg, rc *cache.RowCache, want kit.Rows, gone []kit.Row) *mismatch {
	rows, err := w.RowsFromModels(tb.Name, rc.Rows())
	if err != nil {
		return mm("cache.unreadable", "%v", err)
	}
	if d := kit.DiffStates(kit.State{tb.Name: want}, kit.State{tb.Name: rows}); len(d) > 0 {
		return mm("cache.contents", "cache contents differ from the applied changes:\n%s", strings.Join(d, "\n"))
	}
	if rc.Len() != len(want) {
		return mm("cache.contents", "Len() = %d, want %d", rc.Len(), len(want))
	}
	// Where-style lookups: conditions naming the values of an index (alone, and together
	// with a _uuid condition naming the same or another row) select what a scan selects.
	// They run first: a selection must also leave the indexes as they are.
	{
		var specs [][]c05ColKey
		for _, idx := range cfg.Schema {
			var cks []c05ColKey
			for _, c := range idx {
				cks = append(cks, c05ColKey{Col: c})
			}
			specs = append(specs, cks)
		}
		specs = append(specs, cfg.Client...)
		uuids := kit.SortedUUIDs(want)
		for ui, u := range uuids {
			if ui >= 4 {
				break
			}
			for _, spec := range specs {
				var conds []kit.Cond
				ok := true
				for _, ck := range spec {
					v := want[u][ck.Col]
					if ck.Key != "" {
						mv, has := v.Get(kit.Str(ck.Key))
						if !has {
							ok = false
							break
						}
						conds = append(conds, kit.Cond{Col: ck.Col, Fn: "includes", Val: kit.MapOf(kit.Str(ck.Key), mv)})
						continue
					}
					if hasZero(v) {
						ok = false
						break
					}
					conds = append(conds, kit.Cond{Col: ck.Col, Fn: "==", Val: v})
				}
				if !ok {
					continue
				}
				other := uuids[(ui+1)%len(uuids)]
				for _, variant := range [][]kit.Cond{conds,
					append([]kit.Cond{{Col: "_uuid", Fn: "==", Val: kit.Scalar(kit.UUID(other))}}, conds...),
					append(append([]kit.Cond{}, conds...), kit.Cond{Col: "_uuid", Fn: "==", Val: kit.Scalar(kit.UUID(u))})} {
					op := kit.Op{Op: "select", Table: tb.Name, Where: variant}
					ref := refdb.Exec(w.S, kit.State{tb.Name: want}, []kit.Op{op}, nil)
					if ref.FailedAt >= 0 || ref.Results[0].MayReject != "" {
						continue
					}
					dec, err := kit.DecodeOps(w.S, []kit.Op{op})
					if err != nil {
						continue
					}
					got, err := rc.RowsByCondition(dec[0].Where)
					if err != nil {
						return mm("lookup.where", "RowsByCondition(%s): %v", kit.MustJSON(op.Wire(w.S)), err)
					}
					exp := map[string]bool{}
					for _, r := range ref.Results[0].Rows {
						exp[r["_uuid"].K[0].S] = true
					}
					same := len(got) == len(exp)
					for gu := range got {
						same = same && exp[gu]
					}
					if !same {
						return mm("lookup.where", "RowsByCondition(%s) returns %d rows, a scan finds %d", kit.MustJSON(op.Wire(w.S)), len(got), len(exp))
					}
				}
			}
		}
	}
	// Index(): addressed by plain column names
	check := func(cols []string, unique bool, tuple func(kit.Row) string) *mismatch {
		idx, err := rc.Index(cols...)
		if err != nil {
			return mm("index.missing", "Index(%v): %v", cols, err)
		}
		seen := map[string]string{}
		tupleOfKey := map[string]string{}
		for k, uuids := range idx {
			ks := fmt.Sprintf("%#v", k)
			if len(uuids) == 0 {
				return mm("index.empty-entry", "index %v holds an empty entry for %v", cols, k)
			}
			if unique && len(uuids) > 1 {
				return mm("index.duplicate", "schema index %v lists %v under one value", cols, uuids)
			}
			for _, u := range uuids {
				r, ok := want[u]
				if !ok {
					return mm("index.stale-entry", "index %v lists row %s which is not cached (value %v)", cols, u, k)
				}
				if prev, dup := seen[u]; dup {
					return mm("index.row-twice", "index %v lists row %s under two values (%s and %s)", cols, u, prev, ks)
				}
				seen[u] = ks
				tp := tuple(r)
				if prev, ok := tupleOfKey[ks]; ok && prev != tp {
					return mm("index.mixed-entry", "index %v: rows under one value disagree on the index columns (%s vs %s)", cols, prev, tp)
				}
				tupleOfKey[ks] = tp
			}
		}
		byTuple := map[string]string{}
		for ks, tp := range tupleOfKey {
			if other, ok := byTuple[tp]; ok && other != ks {
				return mm("index.split-entry", "index %v: rows with equal index columns (%s) are filed under two values", cols, tp)
			}
			byTuple[tp] = ks
		}
		for u := range want {
			if _, ok := seen[u]; !ok {
				return mm("index.unreachable-row", "cached row %s (index columns %s) is not reachable through index %v", u, tuple(want[u]), cols)
			}
		}
		return nil
	}
	for _, idx := range cfg.Schema {
		idx := idx
		if m := check(idx, true, func(r kit.Row) string { return schemaTuple(idx, r) }); m != nil {
			return m
		}
	}
	schemaSets := map[string]bool{}
	for _, idx := range cfg.Schema {
		k := append([]string{}, idx...)
		sort.Strings(k)
		schemaSets[fmt.Sprint(k)] = true
	}
	for _, ci := range cfg.Client {
		plainOnly := true
		var cols []string
		for _, ck := range ci {
			if ck.Key != "" {
				plainOnly = false
			}
			cols = append(cols, ck.Col)
		}
		k := append([]string{}, cols...)
		sort.Strings(k)
		if !plainOnly || schemaSets[fmt.Sprint(k)] {
			continue // map-key indexes cannot be addressed through Index(); same columns as a schema index: already checked
		}
		ci := ci
		if m := check(cols, false, func(r kit.Row) string { return idxTuple(tb, ci, r) }); m != nil {
			return m
		}
	}
	// lookups
	for _, u := range kit.SortedUUIDs(want) {
		r := want[u]
		// by uuid only
		probe := w.ModelFromRow(tb.Name, u, tb.FillDefaults(nil))
		gu, gm, err := rc.RowByModel(probe)
		if err != nil || gu != u || gm == nil {
			return mm("lookup.by-uuid", "RowByModel by uuid %s returned %q %v %v", u, gu, gm, err)
		}
		if got := rc.Row(u); got == nil {
			return mm("lookup.by-uuid", "Row(%s) returned nil", u)
		}
		// by index values (full copy of the row without uuid)
		probe = w.ModelFromRow(tb.Name, "", r)
		if len(cfg.Schema) > 0 {
			gu, gm, err = rc.RowByModel(probe)
			if err != nil || gu != u {
				return mm("lookup.schema-index", "RowByModel with the index values of row %s returned %q (%v)", u, gu, err)
			}
			_, grow, _ := w.RowFromModel(tb.Name, gm)
			if grow.Key() != r.Key() {
				return mm("lookup.schema-index", "RowByModel returned different contents for %s", u)
			}
			got, err := rc.RowsByModels([]model.Model{probe})
			if err != nil || len(got) != 1 || got[u] == nil {
				return mm("lookup.schema-index", "RowsByModels with the index values of row %s returned %d rows (%v)", u, len(got), err)
			}
		} else if len(cfg.Client) > 0 {
			got, err := rc.RowsByModels([]model.Model{probe})
			if err != nil {
				return mm("lookup.client-index", "RowsByModels: %v", err)
			}
			// the first client index yields the rows that agree with r on its columns
			first := cfg.Client[0]
			wantSet := map[string]bool{}
			for u2, r2 := range want {
				if idxTuple(tb, first, r2) == idxTuple(tb, first, r) {
					wantSet[u2] = true
				}
			}
			if len(got) != len(wantSet) {
				return mm("lookup.client-index", "RowsByModels with the values of row %s on client index %v returned %d rows, a scan finds %d", u, first, len(got), len(wantSet))
			}
			for gu := range got {
				if !wantSet[gu] {
					return mm("lookup.client-index", "RowsByModels returned row %s which does not hold the values of %s on index %v", gu, u, first)
				}
			}
		}
	}
	// values that left the cache lead nowhere
	for _, old := range gone {
		if len(cfg.Schema) == 0 {
			break
		}
		stillThere := false
		for _, r := range want {
			for _, idx := range cfg.Schema {
				if schemaTuple(idx, r) == schemaTuple(idx, old) {
					stillThere = true
				}
			}
		}
		if stillThere {
			continue
		}
		probe := w.ModelFromRow(tb.Name, "", old)
		gu, _, err := rc.RowByModel(probe)
		if err != nil || gu != "" {
			return mm("lookup.stale", "RowByModel with index values no cached row holds returned row %q (%v)", gu, err)
		}
	}
	return nil
}

// TestC05: cache level. Batches of row changes are applied row by row in a drawn
// order (the order Go's map iteration would pick arbitrarily), through the three code
// paths (direct Create/Update/Delete, update2 notifications, update notifications);
// at the end of every batch all indexes and lookups must agree with a scan.
func TestC05(t *testing.T) {
	rapid.Check(t, func(t *rapid.T) {
		s, cfg, cidx := genIndexTable(t)
		w, err := kit.BuildWorld(s, cidx)
		if err != nil {
			t.Fatalf("world: %v (%+v)", err, cfg)
		}
		tb := s.Tables[0]
		tc, err := cache.NewTableCache(w.DBModel, nil, nil)
		if err != nil {
			t.Fatalf("cache: %v", err)
		}
		twin, _ := cache.NewTableCache(w.DBModel, nil, nil)
		rc := tc.Table(tb.Name)
		cur := kit.Rows{}
		fresh := 0
		kase := c05Case{Schema: s.JSON(), Indexes: cfg}
		nb := rapid.IntRange(1, 8).Draw(t, "nbatches")
		nontrivial := false
		var sig []string
		for b := 0; b < nb; b++ {
			if b > 0 && rapid.IntRange(0, 5).Draw(t, "purge") == 0 {
				// the cache is purged with a database model of the same schema whose client indexes
				// are others: from here on these are the indexes of the (empty) cache
				var plain []string
				for _, c := range tb.Cols {
					if c.Shape() == kit.ShScalar || c.Shape() == kit.ShOpt {
						plain = append(plain, c.Name)
					}
				}
				var newClient [][]c05ColKey
				var cis []model.ClientIndex
				for i, n := 0, rapid.IntRange(0, 3).Draw(t, "purgeclientidx"); i < n; i++ {
					var cols []c05ColKey
					for j, wd := 0, rapid.IntRange(1, 2).Draw(t, "purgecwidth"); j < wd; j++ {
						if rapid.IntRange(0, 3).Draw(t, "purgemapkey") == 0 {
							cols = append(cols, c05ColKey{Col: "m", Key: rapid.SampledFrom([]string{"k1", "k2"}).Draw(t, "purgekey")})
						} else {
							cols = append(cols, c05ColKey{Col: rapid.SampledFrom(plain).Draw(t, "purgeccol")})
						}
					}
					if len(cols) == 2 && cols[0] == cols[1] {
						cols = cols[:1]
					}
					newClient = append(newClient, cols)
					ci := model.ClientIndex{}
					for _, ck := range cols {
						k := model.ColumnKey{Column: ck.Col}
						if ck.Key != "" {
							k.Key = ck.Key
						}
						ci.Columns = append(ci.Columns, k)
					}
					cis = append(cis, ci)
				}
				cidx2 := map[string][]model.ClientIndex{}
				for tn, v := range cidx {
					if tn != tb.Name {
						cidx2[tn] = v
					}
				}
				if len(cis) > 0 {
					cidx2[tb.Name] = cis
				}
				w2, err := kit.BuildWorld(s, cidx2)
				if err != nil {
					t.Fatalf("world: %v", err)
				}
				tc.Purge(w2.DBModel)
				twin.Purge(w2.DBModel)
				w, cidx, rc, cur = w2, cidx2, tc.Table(tb.Name), kit.Rows{}
				cfg.Client = newClient
				kase.Indexes = cfg
				kase.Batches = append(kase.Batches, fmt.Sprintf("purge with client indexes %v", newClient))
				kit.Label("C05", "purged-with-other-client-indexes")
				if m := checkCacheIndexes(w, tb, cfg, rc, cur, nil); m != nil {
					kit.Fail(t, "C05", m.Class, kase, "right after the purge: %s", m.Msg)
				}
			}
			var next kit.Rows
			handover := false
			for tries := 0; ; tries++ {
				next, handover = nextContent(t, tb, cur, &fresh)
				if validContent(tb, next) {
					break
				}
				if tries > 8 {
					next, handover = cur.Clone(), false
					break
				}
			}
			// the batch: rows that differ
			var changed []string
			for u := range cur {
				if n, ok := next[u]; !ok || n.Key() != cur[u].Key() {
					changed = append(changed, u)
				}
			}
			for u := range next {
				if _, ok := cur[u]; !ok {
					changed = append(changed, u)
				}
			}
			sort.Strings(changed)
			if len(changed) == 0 {
				continue
			}
			order := rapid.Permutation(changed).Draw(t, "applyorder")
			path := rapid.SampledFrom([]string{"direct", "update2", "update"}).Draw(t, "path")
			var desc []string
			var gone []kit.Row
			multi := ovsdb.TableUpdates2{tb.Name: ovsdb.TableUpdate2{}}
			for _, u := range order {
				o, had := cur[u]
				n, has := next[u]
				var ru2 ovsdb.RowUpdate2
				var ru ovsdb.RowUpdate
				switch {
				case !had:
					row, err := tb.OvsRow(n, true)
					if err != nil {
						t.Fatalf("harness: %v", err)
					}
					ru2.Insert, ru.New = &row, &row
					desc = append(desc, "insert "+u)
				case !has:
					empty := ovsdb.Row{}
					orow, _ := tb.OvsRow(o, true)
					ru2.Delete, ru.Old = &empty, &orow
					gone = append(gone, o)
					desc = append(desc, "delete "+u)
				default:
					diff, err := tb.OvsRow(tb.Update2Diff(o, n), false)
					if err != nil {
						t.Fatalf("harness: %v", err)
					}
					ru2.Modify = &diff
					nrow, _ := tb.OvsRow(n, false)
					orow, _ := tb.OvsRow(o, false)
					ru.New, ru.Old = &nrow, &orow
					gone = append(gone, o)
					desc = append(desc, "modify "+u)
				}
				cp := ru2
				multi[tb.Name][u] = &cp
				var aerr error
				switch path {
				case "direct":
					switch {
					case !had:
						aerr = rc.Create(u, w.ModelFromRow(tb.Name, u, n), false)
					case !has:
						aerr = rc.Delete(u)
					default:
						_, aerr = rc.Update(u, w.ModelFromRow(tb.Name, u, n), false)
					}
				case "update2":
					aerr = tc.Populate2(ovsdb.TableUpdates2{tb.Name: ovsdb.TableUpdate2{u: &ru2}})
				default:
					aerr = tc.Populate(ovsdb.TableUpdates{tb.Name: ovsdb.TableUpdate{u: &ru}})
				}
				if aerr != nil {
					kase.Batches = append(kase.Batches, fmt.Sprintf("%s via %s: %s", path, u, strings.Join(desc, ", ")))
					kit.Fail(t, "C05", "cache.apply-error", kase, "applying %s failed: %v", desc[len(desc)-1], aerr)
				}
			}
			kase.Batches = append(kase.Batches, path+": "+strings.Join(desc, ", "))
			if m := checkCacheIndexes(w, tb, cfg, rc, next, gone); m != nil {
				kit.Fail(t, "C05", m.Class, kase, "after batch %d (%s, order %v): %s", b, path, order, m.Msg)
			}
			// the genuine multi-row batch on a twin (order picked by Go's map iteration)
			if err := twin.Populate2(multi); err != nil {
				kit.Fail(t, "C05", "cache.apply-error", kase, "multi-row update2 batch failed on the twin: %v", err)
			}
			if m := checkCacheIndexes(w, tb, cfg, twin.Table(tb.Name), next, gone); m != nil {
				kit.Fail(t, "C05", "twin."+m.Class, kase, "after multi-row batch %d on the twin: %s", b, m.Msg)
			}
			cur = next
			nontrivial = nontrivial || handover
			sig = append(sig, fmt.Sprintf("%s%d%v", path, len(changed), handover))
			// a checked write that has to be refused (it would give a second row the values of a
			// schema index of a cached row) must leave the cache and every index as they were
			if len(cfg.Schema) > 0 && len(cur) > 0 && rapid.IntRange(0, 2).Draw(t, "refusedwrite") == 0 {
				uuids := kit.SortedUUIDs(cur)
				holder := rapid.SampledFrom(uuids).Draw(t, "refusedholder")
				idx := cfg.Schema[rapid.IntRange(0, len(cfg.Schema)-1).Draw(t, "refusedindex")]
				clash := genIndexRow(t, tb)
				for _, cn := range idx {
					clash[cn] = cur[holder][cn].Clone()
				}
				var rerr error
				what := ""
				if len(uuids) > 1 && rapid.Bool().Draw(t, "refusedupdate") {
					victim := uuids[0]
					if victim == holder {
						victim = uuids[1]
					}
					what = fmt.Sprintf("Update(%s, checked) to the values of index %v of %s", victim, idx, holder)
					_, rerr = rc.Update(victim, w.ModelFromRow(tb.Name, victim, clash), true)
				} else {
					fresh++
					nu := kit.MkUUID(fresh)
					what = fmt.Sprintf("Create(%s, checked) with the values of index %v of %s", nu, idx, holder)
					rerr = rc.Create(nu, w.ModelFromRow(tb.Name, nu, clash), true)
				}
				kase.Batches = append(kase.Batches, "refused: "+what)
				if rerr == nil {
					kit.Fail(t, "C05", "index.duplicate-accepted", kase, "%s was accepted", what)
				}
				if m := checkCacheIndexes(w, tb, cfg, rc, cur, nil); m != nil {
					kit.Fail(t, "C05", m.Class, kase, "after the refused %s: %s", what, m.Msg)
				}
				kit.Label("C05", "refused-checked-write")
			}
		}
		kit.Record("C05", fmt.Sprint(cfg)+strings.Join(sig, "|"), nontrivial, func() interface{} { return kase }, "batches")
	})
}

func TestFixedC05IndexHandOver(t *testing.T) {
	s := kit.Schema{Name: "DB", Version: "1.0.0", Tables: []kit.Table{{Name: "T0", IsRoot: true, Indexes: [][]string{{"name"}},
		Cols: []kit.Col{{Name: "name", Key: kit.Base{T: kit.TStr}, Min: 1, Max: 1}}}}}
	w, err := kit.BuildWorld(s, nil)
	if err != nil {
		t.Fatal(err)
	}
	tc, _ := cache.NewTableCache(w.DBModel, nil, nil)
	rc := tc.Table("T0")
	mk := func(u, name string) interface{} {
		return w.ModelFromRow("T0", u, kit.Row{"name": kit.Scalar(kit.Str(name))})
	}
	_ = rc.Create(u(1), mk(u(1), "x"), false)
	_ = rc.Create(u(2), mk(u(2), "y"), false)
	// swap, row 2 first
	_, _ = rc.Update(u(2), mk(u(2), "x"), false)
	_, _ = rc.Update(u(1), mk(u(1), "y"), false)
	idx, _ := rc.Index("name")
	if !reflect.DeepEqual(idx["x"], []string{u(2)}) || !reflect.DeepEqual(idx["y"], []string{u(1)}) {
		t.Fatalf("VERIF-FAIL property=C05 class=index.unreachable-row: after swapping two index values the index is %v", idx)
	}
}

func TestFixedC05OptionalTuple(t *testing.T) {
	s := kit.Schema{Name: "DB", Version: "1.0.0", Tables: []kit.Table{{Name: "T0", IsRoot: true,
		Cols: []kit.Col{{Name: "a", Key: kit.Base{T: kit.TStr}, Min: 0, Max: 1}, {Name: "b", Key: kit.Base{T: kit.TStr}, Min: 0, Max: 1}}}}}
	w, err := kit.BuildWorld(s, map[string][]model.ClientIndex{"T0": {{Columns: []model.ColumnKey{{Column: "a"}, {Column: "b"}}}}})
	if err != nil {
		t.Fatal(err)
	}
	tc, _ := cache.NewTableCache(w.DBModel, nil, nil)
	rc := tc.Table("T0")
	_ = rc.Create(u(1), w.ModelFromRow("T0", u(1), kit.Row{"a": kit.Scalar(kit.Str("x")), "b": kit.EmptySet()}), false)
	_ = rc.Create(u(2), w.ModelFromRow("T0", u(2), kit.Row{"a": kit.EmptySet(), "b": kit.Scalar(kit.Str("x"))}), false)
	got, err := rc.RowsByModels([]model.Model{w.ModelFromRow("T0", "", kit.Row{"a": kit.Scalar(kit.Str("x")), "b": kit.EmptySet()})})
	if err != nil || len(got) != 1 || got[u(1)] == nil {
		t.Fatalf("VERIF-FAIL property=C05 class=lookup.client-index: lookup of (a=x, b unset) returns %d rows (%v)", len(got), err)
	}
}
