package props

import (
	"fmt"
	"testing"

	"pgregory.net/rapid"

	"verif/pbt/kit"
)

var cfgC15 = kit.TxnCfg{MaxOps: 4, Named: true, NameBias: true, NameClash: true, OmitUUID: true, RefBias: true, MaxRows: 5}

// nameUses lists where symbolic names are used in a transaction:
// "<op>:<position>:<shape>:<forward|backward>".
func nameUses(s kit.Schema, ops []kit.Op) []string {
	defAt := map[string]int{}
	for i, op := range ops {
		if op.Op == "insert" && op.UUIDName != "" {
			if _, ok := defAt[op.UUIDName]; !ok {
				defAt[op.UUIDName] = i
			}
		}
	}
	var out []string
	note := func(i int, op kit.Op, pos, col string, v kit.Val) {
		t := s.Table(op.Table)
		if t == nil {
			return
		}
		c := t.ColOf(col)
		if c == nil {
			return
		}
		atoms := append(append([]kit.Atom{}, v.K...), v.V...)
		for j, a := range atoms {
			if a.T != kit.TUUID || kit.IsUUID(a.S) {
				continue
			}
			d, ok := defAt[a.S]
			if !ok {
				continue
			}
			dir := "backward"
			if i < d {
				dir = "forward"
			} else if i == d {
				dir = "self"
			}
			shape := c.Shape().String()
			if c.Shape() == kit.ShMap {
				if j < len(v.K) {
					shape = "map-key"
				} else {
					shape = "map-value"
				}
			}
			out = append(out, fmt.Sprintf("name:%s:%s:%s:%s", op.Op, pos, shape, dir))
		}
	}
	for i, op := range ops {
		for col, v := range op.Row {
			note(i, op, "row", col, v)
		}
		for _, r := range op.Rows {
			for col, v := range r {
				note(i, op, "rows", col, v)
			}
		}
		for _, c := range op.Where {
			note(i, op, "where", c.Col, c.Val)
		}
		for _, m := range op.Mutations {
			note(i, op, "mutation", m.Col, m.Val)
		}
	}
	return out
}

func c15After(l *l1, info *stepInfo) ([]string, bool, *mismatch) {
	// no stored uuid-typed value may still be a symbolic name; the uuid reported for an
	// insert is the key the row is stored under (state equality with the model, which binds
	// names to the reported uuids, covers both; this is the direct statement of it)
	st, err := l.DB.Snapshot()
	if err != nil {
		return nil, false, mm("state.unreadable", "%v", err)
	}
	for _, t := range l.W.S.Tables {
		for u, row := range st[t.Name] {
			if !kit.IsUUID(u) {
				return nil, false, mm("named.row-key", "row of %s stored under %q", t.Name, u)
			}
			for _, c := range t.Cols {
				v := row[c.Name]
				for _, a := range append(append([]kit.Atom{}, v.K...), v.V...) {
					if a.T == kit.TUUID && !kit.IsUUID(a.S) {
						return nil, false, mm("named.unresolved", "%s.%s of row %s still holds the symbolic name %q", t.Name, c.Name, u, a.S)
					}
				}
			}
		}
	}
	uses := nameUses(l.W.S, info.Ops)
	nt := false
	for _, u := range uses {
		if u != "" {
			nt = nt || !(len(u) > 0 && (contains(u, ":row:scalar:backward")))
		}
	}
	if info.Model.PreValidation {
		uses = append(uses, "name:clash")
	}
	return uses, nt && info.Excluded == "", nil
}

func contains(s, sub string) bool {
	return len(s) >= len(sub) && (len(sub) == 0 || indexOf(s, sub) >= 0)
}

func indexOf(s, sub string) int {
	for i := 0; i+len(sub) <= len(s); i++ {
		if s[i:i+len(sub)] == sub {
			return i
		}
	}
	return -1
}

func TestC15(t *testing.T) {
	p := kit.ProfileRefs
	p.MinTables = 1
	p.Refs = 6
	rapid.Check(t, func(t *rapid.T) {
		runHistory(t, "C15", p, cfgC15, 8, c15After)
	})
}
