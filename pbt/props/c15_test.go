package props

import (
	"encoding/json"
	"fmt"
	"reflect"
	"strings"
	"testing"

	"github.com/ovn-org/libovsdb/model"
	"github.com/ovn-org/libovsdb/ovsdb"
	"pgregory.net/rapid"

	"verif/pbt/kit"
)

var cfgC15 = kit.TxnCfg{MaxOps: 4, Named: true, NameBias: true, NameClash: true, OmitUUID: true, RefBias: true, MaxRows: 5}

// nameUses lists where symbolic names are used in a transaction:
// "<op>:<position>:<shape>:<forward|backward>".
func nameUses(s kit.Schema, ops []kit.Op) []string {
	defAt := map[string]int{}
	for i, op := range ops {
		if op.Op == "insert" && op.UUIDName != "" {
			if _, ok := defAt[op.UUIDName]; !ok {
				defAt[op.UUIDName] = i
			}
		}
	}
	var out []string
	note := func(i int, op kit.Op, pos, col string, v kit.Val) {
		t := s.Table(op.Table)
		if t == nil {
			return
		}
		c := t.ColOf(col)
		if c == nil {
			return
		}
		atoms := append(append([]kit.Atom{}, v.K...), v.V...)
		for j, a := range atoms {
			if a.T != kit.TUUID || kit.IsUUID(a.S) {
				continue
			}
			d, ok := defAt[a.S]
			if !ok {
				continue
			}
			dir := "backward"
			if i < d {
				dir = "forward"
			} else if i == d {
				dir = "self"
			}
			shape := c.Shape().String()
			if c.Shape() == kit.ShMap {
				if j < len(v.K) {
					shape = "map-key"
				} else {
					shape = "map-value"
				}
			}
			out = append(out, fmt.Sprintf("name:%s:%s:%s:%s", op.Op, pos, shape, dir))
		}
	}
	for i, op := range ops {
		for col, v := range op.Row {
			note(i, op, "row", col, v)
		}
		for _, r := range op.Rows {
			for col, v := range r {
				note(i, op, "rows", col, v)
			}
		}
		for _, c := range op.Where {
			note(i, op, "where", c.Col, c.Val)
		}
		for _, m := range op.Mutations {
			note(i, op, "mutation", m.Col, m.Val)
		}
	}
	return out
}

func c15After(l *l1, info *stepInfo) ([]string, bool, *mismatch) {
	// no stored uuid-typed value may still be a symbolic name; the uuid reported for an
	// insert is the key the row is stored under (state equality with the model, which binds
	// names to the reported uuids, covers both; this is the direct statement of it)
	st, err := l.DB.Snapshot()
	if err != nil {
		return nil, false, mm("state.unreadable", "%v", err)
	}
	for _, t := range l.W.S.Tables {
		for u, row := range st[t.Name] {
			if !kit.IsUUID(u) {
				return nil, false, mm("named.row-key", "row of %s stored under %q", t.Name, u)
			}
			for _, c := range t.Cols {
				v := row[c.Name]
				for _, a := range append(append([]kit.Atom{}, v.K...), v.V...) {
					if a.T == kit.TUUID && !kit.IsUUID(a.S) {
						return nil, false, mm("named.unresolved", "%s.%s of row %s still holds the symbolic name %q", t.Name, c.Name, u, a.S)
					}
				}
			}
		}
	}
	uses := nameUses(l.W.S, info.Ops)
	nt := false
	for _, u := range uses {
		if u != "" {
			nt = nt || !(len(u) > 0 && (contains(u, ":row:scalar:backward")))
		}
	}
	if info.Model.PreValidation {
		uses = append(uses, "name:clash")
	}
	return uses, nt && info.Excluded == "", nil
}

func contains(s, sub string) bool {
	return len(s) >= len(sub) && (len(sub) == 0 || indexOf(s, sub) >= 0)
}

func indexOf(s, sub string) int {
	for i := 0; i+len(sub) <= len(s); i++ {
		if s[i:i+len(sub)] == sub {
			return i
		}
	}
	return -1
}

func TestC15(t *testing.T) {
	p := kit.ProfileRefs
	p.MinTables = 1
	p.Refs = 6
	rapid.Check(t, func(t *rapid.T) {
		runHistory(t, "C15", p, cfgC15, 8, c15After)
	})
}

type c15APICase struct {
	Models  []string `json:"models"` // table, _uuid field as given, reference
	Results string   `json:"results,omitempty"`
}

// TestC15API: Create() with several models in one call - models whose _uuid field holds a
// symbolic name (which other models of the call use as a reference), a real uuid, or
// nothing. Each model must become its own row: a name denotes exactly the row inserted
// under it, every reference resolves to the row it named, real uuids are kept, rows
// without name or uuid get fresh uuids of their own.
func TestC15API(t *testing.T) {
	w := c16World(t)
	rapid.Check(t, func(t *rapid.T) {
		kit.PinUUIDs(1)
		a, err := newAPIWorld(w.S, nil)
		if err != nil {
			t.Fatalf("harness: %v", err)
		}
		defer a.close()
		kase := c15APICase{}
		fail := func(class, format string, args ...interface{}) {
			kit.Fail(t, "C15", class, kase, format, args...)
		}
		type spec struct {
			table  string
			field  string // what the model's _uuid field holds
			marker string
			peer   string // T1 only: the _uuid field of the T0 model it points at ("" = none)
		}
		n := rapid.IntRange(2, 6).Draw(t, "nmodels")
		var specs []spec
		var t0fields []string
		for i := 0; i < n; i++ {
			sp := spec{marker: fmt.Sprintf("m%d", i)}
			switch rapid.IntRange(0, 2).Draw(t, "uuidform") {
			case 0:
				sp.field = fmt.Sprintf("name%d", i)
				switch rapid.IntRange(0, 4).Draw(t, "hexname") {
				case 0:
					// a legal <id> that looks like the hex digits of a uuid without dashes
					sp.field = fmt.Sprintf("c4ca4238a0b923820dcc509a6f7584%02x", i)
				case 1:
					// one exactly as long as a uuid
					sp.field = fmt.Sprintf("row_c4ca4238a0b923820dcc509a6f7584%02x", i)
				case 2:
					sp.field = fmt.Sprintf("Row_Name%d", i)
				}
			case 1:
				sp.field = kit.MkUUID(3000 + i)
			}
			if len(t0fields) > 0 && rapid.IntRange(0, 2).Draw(t, "t1") == 0 {
				sp.table = "T1"
				sp.peer = rapid.SampledFrom(t0fields).Draw(t, "peer")
			} else {
				sp.table = "T0"
				if sp.field != "" {
					t0fields = append(t0fields, sp.field)
				}
			}
			specs = append(specs, sp)
		}
		// T1 models may also come before the T0 model they reference
		specs = rapid.Permutation(specs).Draw(t, "order")
		var models []model.Model
		for _, sp := range specs {
			kase.Models = append(kase.Models, fmt.Sprintf("%s _uuid=%q marker=%s peer=%q", sp.table, sp.field, sp.marker, sp.peer))
			if sp.table == "T0" {
				models = append(models, a.w.ModelFromRow("T0", sp.field, kit.Row{"marker": kit.Scalar(kit.Str(sp.marker))}))
				continue
			}
			row := kit.Row{"name": kit.Scalar(kit.Str(sp.marker))}
			m := a.w.ModelFromRow("T1", sp.field, row)
			// the reference is the other model's _uuid field, verbatim (a name or a uuid)
			peer := sp.peer
			reflect.ValueOf(fieldPtrByColumn(a.w, "T1", m, "peer")).Elem().Set(reflect.ValueOf(&peer))
			models = append(models, m)
		}
		ops, err := a.c.Create(models...)
		if err != nil {
			fail("api.create-error", "Create: %v", err)
		}
		if len(ops) != len(models) {
			fail("api.create-ops", "Create of %d models returned %d operations", len(models), len(ops))
		}
		// on the wire a symbolic name is tagged "named-uuid" wherever it appears, a uuid "uuid"
		wire := string(kit.MustJSON(ops))
		for _, sp := range specs {
			if sp.field == "" {
				continue
			}
			wrongTag, rightTag := `["uuid","`+sp.field+`"]`, `["named-uuid","`+sp.field+`"]`
			if kit.IsUUID(sp.field) {
				wrongTag, rightTag = rightTag, wrongTag
			}
			if strings.Contains(wire, wrongTag) {
				fail("wire.uuid-tag", "the operations encode %q as %s: %s", sp.field, wrongTag, wire)
			}
			_ = rightTag
		}
		res, err := a.c.Transact(a.ctx, ops...)
		kase.Results = kit.ResultsJSON(resultPtrs(res))
		if err != nil {
			fail("api.create-rejected", "the operations Create built are rejected: %v (%s)", err, kit.MustJSON(ops))
		}
		for i, r := range res {
			if r.Error != "" {
				fail("api.create-rejected", "the operations Create built are rejected: operation %d: %s %s (%s)", i, r.Error, r.Details, kit.MustJSON(ops))
			}
		}
		db, err := a.srv.Snapshot()
		if err != nil {
			t.Fatalf("snapshot: %v", err)
		}
		uuidOf := map[string]string{} // _uuid field -> uuid of the inserted row
		seen := map[string]bool{}
		for i, sp := range specs {
			u := res[i].UUID.GoUUID
			if seen[u] {
				fail("create.shared-uuid", "two models of one Create call were inserted under the same uuid %s", u)
			}
			seen[u] = true
			if kit.IsUUID(sp.field) && u != sp.field {
				fail("create.real-uuid", "model %d asked for uuid %s and was inserted as %s", i, sp.field, u)
			}
			if sp.field != "" {
				uuidOf[sp.field] = u
			}
			row, ok := db[sp.table][u]
			col := map[string]string{"T0": "marker", "T1": "name"}[sp.table]
			if !ok || row[col].K[0].S != sp.marker {
				fail("create.wrong-row", "model %d (%s) is not the row stored under the uuid its insert reported (%s)", i, sp.marker, u)
			}
		}
		if len(db["T0"])+len(db["T1"]) != len(specs) {
			fail("create.row-count", "%d models created %d rows", len(specs), len(db["T0"])+len(db["T1"]))
		}
		refs := 0
		for i, sp := range specs {
			if sp.table != "T1" {
				continue
			}
			refs++
			got := db["T1"][res[i].UUID.GoUUID]["peer"]
			if len(got.K) != 1 || got.K[0].S != uuidOf[sp.peer] {
				fail("name.resolution", "model %d refers to %q, which was inserted as %s, but stores peer=%s", i, sp.peer, uuidOf[sp.peer], got.Key())
			}
		}
		kit.Record("C15", "api|"+strings.Join(kase.Models, ";"), refs > 0, func() interface{} { return kase }, "api:create", fmt.Sprintf("api:create-references:%d", refs))
	})
}

func resultPtrs(rs []ovsdb.OperationResult) []*ovsdb.OperationResult {
	out := make([]*ovsdb.OperationResult, len(rs))
	for i := range rs {
		out[i] = &rs[i]
	}
	return out
}

// TestC15Large: transactions of several hundred operations. Every insert without "uuid"
// gets a uuid of its own from the server, so every name denotes its own row, also when the
// inserts are 256 or more operations apart.
func TestC15Large(t *testing.T) {
	w := c16World(t)
	for _, n := range []int{257, 300, 520} {
		db, err := kit.NewDB(w)
		if err != nil {
			t.Fatal(err)
		}
		var ops []json.RawMessage
		for i := 0; i < n; i++ {
			table, col := "T0", "marker"
			if i%3 == 1 {
				table, col = "T2", ""
			}
			row := "{}"
			if col != "" {
				row = fmt.Sprintf(`{"%s":"r%d"}`, col, i)
			}
			ops = append(ops, json.RawMessage(fmt.Sprintf(`{"op":"insert","table":"%s","uuid-name":"n%d","row":%s}`, table, i, row)))
		}
		// references by name to the first and the last T0 row
		last := n - 1
		for last%3 == 1 {
			last--
		}
		ops = append(ops, json.RawMessage(fmt.Sprintf(`{"op":"insert","table":"T1","row":{"name":"first","peer":["named-uuid","n0"]}}`)))
		ops = append(ops, json.RawMessage(fmt.Sprintf(`{"op":"insert","table":"T1","row":{"name":"last","peer":["named-uuid","n%d"]}}`, last)))
		out := db.TransactViaServer(ops)
		kase := map[string]interface{}{"operations": n + 2}
		if !out.Committed {
			kit.Fail(t, "C15", "large.rejected", kase, "a transaction of %d named inserts without uuid is rejected: %s %v", n, kit.ResultsJSON(out.Results)[:300], out.CommitErr)
		}
		seen := map[string]int{}
		for i := 0; i < n; i++ {
			u := out.Results[i].UUID.GoUUID
			if j, dup := seen[u]; dup {
				kit.Fail(t, "C15", "large.shared-uuid", kase, "inserts %d and %d of one transaction were given the same uuid %s", j, i, u)
			}
			seen[u] = i
		}
		st, err := db.Snapshot()
		if err != nil {
			t.Fatal(err)
		}
		for _, r := range st["T1"] {
			want := out.Results[0].UUID.GoUUID
			if r["name"].K[0].S == "last" {
				want = out.Results[last].UUID.GoUUID
			}
			if len(r["peer"].K) != 1 || r["peer"].K[0].S != want {
				kit.Fail(t, "C15", "name.resolution", kase, "row %s refers to %s, its name denotes %s", r["name"].K[0].S, r["peer"].Key(), want)
			}
		}
		kit.Record("C15", fmt.Sprintf("large|%d", n), true, func() interface{} { return kase }, "large-transaction")
	}
}
