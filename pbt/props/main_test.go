package props

import (
	"io"
	"log"
	"os"
	"strings"
	"testing"

	"github.com/go-logr/stdr"

	"verif/pbt/kit"
)

// TestMain silences libovsdb's loggers (they are built around os.Stderr at
// construction time, verbosity 5) and flushes the coverage statistics.
func TestMain(m *testing.M) {
	// the coordinator of a native fuzzing campaign reports its progress on stderr
	coordinator := false
	for _, a := range os.Args {
		if strings.HasPrefix(a, "-test.fuzz=") {
			coordinator = true
		}
	}
	for _, a := range os.Args {
		if strings.HasPrefix(a, "-test.fuzzworker") {
			coordinator = false
		}
	}
	if os.Getenv("VERIF_KEEP_STDERR") == "" && !coordinator {
		if null, err := os.OpenFile(os.DevNull, os.O_WRONLY, 0); err == nil {
			os.Stderr = null
		}
	}
	stdr.SetVerbosity(0)
	log.SetOutput(io.Discard)
	code := m.Run()
	kit.Flush()
	os.Exit(code)
}
