package props

import (
	"io"
	"log"
	"os"
	"testing"

	"github.com/go-logr/stdr"

	"verif/pbt/kit"
)

// TestMain silences libovsdb's loggers (they are built around os.Stderr at
// construction time, verbosity 5) and flushes the coverage statistics.
func TestMain(m *testing.M) {
	if os.Getenv("VERIF_KEEP_STDERR") == "" {
		if null, err := os.OpenFile(os.DevNull, os.O_WRONLY, 0); err == nil {
			os.Stderr = null
		}
	}
	stdr.SetVerbosity(0)
	log.SetOutput(io.Discard)
	code := m.Run()
	kit.Flush()
	os.Exit(code)
}
