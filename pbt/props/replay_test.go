package props

import (
	"encoding/json"
	"fmt"
	"os"
	"testing"

	"verif/pbt/kit"
)

// parseSchemaJSON converts RFC 7047 schema text (as written by kit.Schema.JSON)
// back into the harness form. Only the subset the harness emits is understood.
func parseSchemaJSON(text []byte) (kit.Schema, error) {
	var raw struct {
		Name    string `json:"name"`
		Version string `json:"version"`
		Tables  map[string]struct {
			Columns map[string]struct {
				Type      json.RawMessage `json:"type"`
				Mutable   *bool           `json:"mutable"`
				Ephemeral *bool           `json:"ephemeral"`
			} `json:"columns"`
			Indexes [][]string `json:"indexes"`
			IsRoot  bool       `json:"isRoot"`
		} `json:"tables"`
	}
	if err := json.Unmarshal(text, &raw); err != nil {
		return kit.Schema{}, err
	}
	atype := func(s string) (kit.AT, error) {
		for _, t := range kit.AllAT {
			if t.String() == s {
				return t, nil
			}
		}
		return 0, fmt.Errorf("unknown atomic type %q", s)
	}
	var parseBase func(r json.RawMessage) (kit.Base, error)
	parseBase = func(r json.RawMessage) (kit.Base, error) {
		var s string
		if json.Unmarshal(r, &s) == nil {
			t, err := atype(s)
			return kit.Base{T: t}, err
		}
		var o struct {
			Type       string          `json:"type"`
			Enum       json.RawMessage `json:"enum"`
			RefTable   *string         `json:"refTable"`
			RefType    *string         `json:"refType"`
			MinInteger *int64          `json:"minInteger"`
			MaxInteger *int64          `json:"maxInteger"`
			MinReal    *float64        `json:"minReal"`
			MaxReal    *float64        `json:"maxReal"`
			MinLength  *int64          `json:"minLength"`
			MaxLength  *int64          `json:"maxLength"`
		}
		if err := json.Unmarshal(r, &o); err != nil {
			return kit.Base{}, err
		}
		t, err := atype(o.Type)
		if err != nil {
			return kit.Base{}, err
		}
		b := kit.Base{T: t, MinInteger: o.MinInteger, MaxInteger: o.MaxInteger, MinReal: o.MinReal, MaxReal: o.MaxReal, MinLength: o.MinLength, MaxLength: o.MaxLength}
		if o.RefTable != nil || o.RefType != nil {
			b.Ref = &kit.Ref{}
			if o.RefTable != nil {
				b.Ref.Table = *o.RefTable
			}
			b.Ref.Weak = o.RefType != nil && *o.RefType == "weak"
		}
		if o.Enum != nil {
			var elems []interface{}
			var arr []json.RawMessage
			if json.Unmarshal(o.Enum, &arr) == nil && len(arr) == 2 {
				var tag string
				if json.Unmarshal(arr[0], &tag) == nil && tag == "set" {
					_ = json.Unmarshal(arr[1], &elems)
				}
			}
			if elems == nil {
				var one interface{}
				_ = json.Unmarshal(o.Enum, &one)
				elems = []interface{}{one}
			}
			for _, e := range elems {
				switch v := e.(type) {
				case string:
					b.Enum = append(b.Enum, kit.Str(v))
				case float64:
					if t == kit.TInt {
						b.Enum = append(b.Enum, kit.Int(int64(v)))
					} else {
						b.Enum = append(b.Enum, kit.Real(v))
					}
				case bool:
					b.Enum = append(b.Enum, kit.Bool(v))
				}
			}
		}
		return b, nil
	}
	s := kit.Schema{Name: raw.Name, Version: raw.Version}
	var tnames []string
	for n := range raw.Tables {
		tnames = append(tnames, n)
	}
	sortStrings(tnames)
	for _, tn := range tnames {
		rt := raw.Tables[tn]
		tb := kit.Table{Name: tn, Indexes: rt.Indexes, IsRoot: rt.IsRoot}
		var cnames []string
		for n := range rt.Columns {
			cnames = append(cnames, n)
		}
		sortStrings(cnames)
		for _, cn := range cnames {
			rc := rt.Columns[cn]
			c := kit.Col{Name: cn, Min: 1, Max: 1}
			c.Immutable = rc.Mutable != nil && !*rc.Mutable
			c.Ephemeral = rc.Ephemeral != nil && *rc.Ephemeral
			var short string
			if json.Unmarshal(rc.Type, &short) == nil {
				t, err := atype(short)
				if err != nil {
					return s, err
				}
				c.Key = kit.Base{T: t}
			} else {
				var o struct {
					Key   json.RawMessage `json:"key"`
					Value json.RawMessage `json:"value"`
					Min   *int            `json:"min"`
					Max   interface{}     `json:"max"`
				}
				if err := json.Unmarshal(rc.Type, &o); err != nil {
					return s, err
				}
				k, err := parseBase(o.Key)
				if err != nil {
					return s, err
				}
				c.Key = k
				if o.Value != nil {
					v, err := parseBase(o.Value)
					if err != nil {
						return s, err
					}
					c.Value = &v
				}
				if o.Min != nil {
					c.Min = *o.Min
				}
				switch m := o.Max.(type) {
				case string:
					c.Max = -1
				case float64:
					c.Max = int(m)
				}
			}
			tb.Cols = append(tb.Cols, c)
		}
		s.Tables = append(s.Tables, tb)
	}
	return s, nil
}

func sortStrings(s []string) {
	for i := 1; i < len(s); i++ {
		for j := i; j > 0 && s[j] < s[j-1]; j-- {
			s[j], s[j-1] = s[j-1], s[j]
		}
	}
}

// TestReplayRawHistory replays a recorded history (schema + transactions as JSON
// text) against the implementation only, VERIF_REPLAY_N times, and prints the
// outcome of the last transaction each time. A development aid for order
// dependent behaviour; it asserts nothing.
func TestReplayRawHistory(t *testing.T) {
	path := os.Getenv("VERIF_REPLAY_CASE")
	if path == "" {
		t.Skip("VERIF_REPLAY_CASE not set")
	}
	b, err := os.ReadFile(path)
	if err != nil {
		t.Fatal(err)
	}
	var rec struct {
		Case histCase `json:"case"`
	}
	if err := json.Unmarshal(b, &rec); err != nil {
		t.Fatal(err)
	}
	s, err := parseSchemaJSON(rec.Case.Schema)
	if err != nil {
		t.Fatal(err)
	}
	outcomes := map[string]int{}
	for i := 0; i < 30; i++ {
		kit.PinUUIDs(1)
		w, err := kit.BuildWorld(s, nil)
		if err != nil {
			t.Fatal(err)
		}
		db, err := kit.NewDB(w)
		if err != nil {
			t.Fatal(err)
		}
		last := ""
		for _, txn := range rec.Case.History {
			var raw []json.RawMessage
			_ = json.Unmarshal([]byte(txn), &raw)
			ops, err := kit.DecodeRawOps(raw)
			if err != nil {
				t.Fatal(err)
			}
			out := db.Transact(ops)
			last = kit.ResultsJSON(out.Results)
		}
		outcomes[last]++
	}
	for k, v := range outcomes {
		fmt.Printf("%3d x %s\n", v, k)
	}
}
