package props

// Pinned regression inputs: one plain test (no generator involved) per confirmed
// finding or repaired defect. The driver runs the tests named in
// KNOWN_FINDINGS.txt before the generated search ("replay tier").

import (
	"encoding/json"
	"reflect"
	"testing"

	"github.com/ovn-org/libovsdb/ovsdb"
)

func TestFixedC12MinLength(t *testing.T) {
	text := `{"name":"DB","version":"1.0.0","tables":{"T0":{"columns":{"c0":{"type":{"key":{"type":"string","minLength":1,"maxLength":3}}},"c1":{"type":{"key":{"type":"string","maxLength":3}}}}}}}`
	var s ovsdb.DatabaseSchema
	if err := json.Unmarshal([]byte(text), &s); err != nil {
		t.Fatal(err)
	}
	for i := 0; i < 2; i++ {
		if v, _ := s.Table("T0").Column("c0").TypeObj.Key.MinLength(); v != 1 {
			t.Fatalf("VERIF-FAIL property=C12 class=schema.decode: minLength 1 decoded as %d (pass %d)", v, i)
		}
		if v, _ := s.Table("T0").Column("c1").TypeObj.Key.MinLength(); v != 0 {
			t.Fatalf("VERIF-FAIL property=C12 class=schema.decode: absent minLength decoded as %d (pass %d)", v, i)
		}
		b, err := json.Marshal(s)
		if err != nil {
			t.Fatal(err)
		}
		s = ovsdb.DatabaseSchema{}
		if err := json.Unmarshal(b, &s); err != nil {
			t.Fatal(err)
		}
	}
}

func TestFixedC19Decoders(t *testing.T) {
	inputs := map[string][]string{
		"OvsSet":         {`[]`, `["uuid"]`, `["uuid",1]`, `["set"]`, `["set",1]`, `["set",null]`, `[1,2]`, `["set",[[]]]`, `["named-uuid",null]`},
		"OvsMap":         {`["map",1]`, `["map",[1]]`, `["map",[[1]]]`, `["map",[[]]]`, `["map",[[["set",[]],1]]]`, `["map",[[[1,2],1]]]`, `["map",[[{"a":1},1]]]`, `["map",[[1,2,3]]]`, `["map",[null]]`},
		"UUID":           {`[]`, `["uuid"]`, `[1]`, `null`, `["x","y"]`},
		"Row":            {`{"a":[]}`, `{"a":["uuid"]}`, `{"a":["set",1]}`, `{"a":["map",[[1]]]}`},
		"Condition":      {`[1,"==",1]`, `["a",1,1]`, `["a","==",[]]`, `["a","==",["uuid"]]`, `[null,null,null]`},
		"Mutation":       {`[1,"insert",1]`, `["a","insert",[]]`, `["a","insert",["map",[[1]]]]`},
		"Operation":      {`{"op":"select","where":[[1,"==",1]]}`, `{"op":"insert","row":{"a":[]}}`, `{"op":"mutate","mutations":[["a","insert",["set",1]]]}`},
		"ColumnSchema":   {`{}`, `{"type":null}`, `{"type":{}}`, `{"type":{"key":null}}`, `{"type":{"key":{}}}`, `{"type":{"key":{"type":"string","enum":[]}}}`, `{"type":{"key":{"type":"string","enum":["set"]}}}`, `{"type":{"key":{"type":"string","enum":["set",1]}}}`, `{"type":{"key":{"maxReal":41}}}`},
		"ColumnType":     {`{}`, `{"columns":{"a":null}}`, `{"key":null}`},
		"BaseType":       {`{}`, `{"type":"string","enum":[]}`, `{"enum":["set",[]]}`},
		"DatabaseSchema": {`{"tables":{"T":{"columns":{"a":{}}}}}`, `{"tables":{"T":{"columns":{"a":{"type":{}}}}}}`},
	}
	for _, tg := range decodeTargets {
		for _, in := range inputs[tg.name] {
			if _, stage, pval, stack := tryDecode(tg.typ, []byte(in)); pval != nil {
				t.Errorf("VERIF-FAIL property=C19 class=panic.%s: %s of %s into %s panicked: %v", panicSite(stack), stage, in, tg.name, pval)
			}
		}
	}
	// the repaired decoders must still accept what they accepted before
	var s ovsdb.OvsSet
	if err := json.Unmarshal([]byte(`["uuid","00000000-0000-4000-8000-000000000001"]`), &s); err != nil || !reflect.DeepEqual(s.GoSet, []interface{}{ovsdb.UUID{GoUUID: "00000000-0000-4000-8000-000000000001"}}) {
		t.Errorf("VERIF-FAIL property=C19 class=decode.regression: single uuid set: %v %v", s, err)
	}
	var m ovsdb.OvsMap
	if err := json.Unmarshal([]byte(`["map",[[["uuid","00000000-0000-4000-8000-000000000001"],["named-uuid","x"]],["k",1]]]`), &m); err != nil || len(m.GoMap) != 2 {
		t.Errorf("VERIF-FAIL property=C19 class=decode.regression: map: %v %v", m, err)
	}
}
