package props

import (
	"context"
	"encoding/json"
	"fmt"
	"sort"
	"strings"
	"sync"
	"testing"
	"time"

	"github.com/ovn-org/libovsdb/ovsdb"
	"pgregory.net/rapid"

	"verif/pbt/kit"
	"verif/pbt/refdb"
)

// peerSpec is the generated monitor request of one raw peer.
type peerSpec struct {
	Method  string                 `json:"method"`
	Request map[string]interface{} `json:"request"` // as sent
	// decoded meaning, per table: columns (nil = all) and the four flags
	Cols    map[string][]string `json:"-"`
	Initial map[string]bool     `json:"-"`
	Insert  map[string]bool     `json:"-"`
	Delete  map[string]bool     `json:"-"`
	Modify  map[string]bool     `json:"-"`
}

func genPeer(t *rapid.T, s kit.Schema, allTrue bool) peerSpec {
	p := peerSpec{Method: rapid.SampledFrom([]string{"monitor", "monitor_cond", "monitor_cond_since"}).Draw(t, "method"),
		Request: map[string]interface{}{}, Cols: map[string][]string{}, Initial: map[string]bool{}, Insert: map[string]bool{}, Delete: map[string]bool{}, Modify: map[string]bool{}}
	var tables []string
	for _, tb := range s.Tables {
		if allTrue || rapid.IntRange(0, 3).Draw(t, "montable") > 0 {
			tables = append(tables, tb.Name)
		}
	}
	if len(tables) == 0 {
		tables = []string{s.Tables[0].Name}
	}
	for _, tn := range tables {
		tb := s.Table(tn)
		req := map[string]interface{}{}
		// columns: omitted (= all) or a subset
		if !allTrue && rapid.IntRange(0, 2).Draw(t, "columns?") > 0 {
			cols := []string{}
			for _, c := range tb.Cols {
				if rapid.Bool().Draw(t, "col") {
					cols = append(cols, c.Name)
				}
			}
			req["columns"] = cols
			p.Cols[tn] = cols
		} else {
			p.Cols[tn] = nil
		}
		flag := func(name string, dst map[string]bool, sel map[string]interface{}) {
			dst[tn] = true
			if allTrue {
				return
			}
			switch rapid.IntRange(0, 3).Draw(t, name) {
			case 0:
				sel[name] = false
				dst[tn] = false
			case 1:
				sel[name] = true
			}
		}
		if allTrue || rapid.IntRange(0, 3).Draw(t, "select?") == 0 {
			// select omitted: everything
			p.Initial[tn], p.Insert[tn], p.Delete[tn], p.Modify[tn] = true, true, true, true
		} else {
			sel := map[string]interface{}{}
			flag("initial", p.Initial, sel)
			flag("insert", p.Insert, sel)
			flag("delete", p.Delete, sel)
			flag("modify", p.Modify, sel)
			req["select"] = sel
		}
		// a conditional monitor may come with a where clause (libovsdb's server serves every
		// row whatever it says): two conditions of which every row satisfies exactly one, on a
		// column that need not be among the selected ones
		if p.Method != "monitor" && !allTrue && rapid.IntRange(0, 2).Draw(t, "where?") == 0 {
			var cands []kit.Col
			for _, c := range tb.Cols {
				if c.Shape() == kit.ShScalar && len(c.Key.Enum) == 0 && (c.Key.T == kit.TInt || c.Key.T == kit.TStr || c.Key.T == kit.TBool) {
					cands = append(cands, c)
				}
			}
			if len(cands) > 0 {
				c := cands[rapid.IntRange(0, len(cands)-1).Draw(t, "wherecol")]
				v := kit.AtomWire(kit.ZeroAtom(c.Key.T))
				req["where"] = []interface{}{[]interface{}{c.Name, "==", v}, []interface{}{c.Name, "!=", v}}
				kit.Label("C07", "monitor-request-with-where")
			}
		}
		p.Request[tn] = req
	}
	return p
}

func (p peerSpec) columns(tb *kit.Table) []string {
	if cols := p.Cols[tb.Name]; cols != nil {
		return cols
	}
	var all []string
	for _, c := range tb.Cols {
		all = append(all, c.Name)
	}
	return all
}

func projectRow(r kit.Row, cols []string) kit.Row {
	out := kit.Row{}
	for _, c := range cols {
		out[c] = r[c]
	}
	return out
}

type rawPeerState struct {
	spec    peerSpec
	peer    *kit.RawPeer
	replica kit.State // only maintained (and compared) when all four flags are set for the table
}

type c07Case struct {
	Schema  json.RawMessage `json:"schema"`
	Peers   []peerSpec      `json:"peers"`
	History []string        `json:"history"`
	Message string          `json:"message,omitempty"`
}

// decodeNotification turns a raw update/update2 message into per-row changes.
type rowNote struct {
	kind     string // insert modify delete
	new, old kit.Row
	diff     kit.Row
}

func decodeNotification(w *kit.World, n kit.Notification) (map[string]map[string]rowNote, error) {
	out := map[string]map[string]rowNote{}
	payload := n.Params[len(n.Params)-1]
	switch n.Method {
	case "update":
		var tu ovsdb.TableUpdates
		if err := json.Unmarshal(payload, &tu); err != nil {
			return nil, err
		}
		for tn, rows := range tu {
			if w.S.Table(tn) == nil {
				return nil, fmt.Errorf("unknown table %s", tn)
			}
			out[tn] = map[string]rowNote{}
			for u, ru := range rows {
				var rn rowNote
				var err error
				if ru.New != nil {
					if rn.new, err = w.RowFromOvs(tn, *ru.New); err != nil {
						return nil, err
					}
				}
				if ru.Old != nil {
					if rn.old, err = w.RowFromOvs(tn, *ru.Old); err != nil {
						return nil, err
					}
				}
				switch {
				case ru.New != nil && ru.Old == nil:
					rn.kind = "insert"
				case ru.New != nil && ru.Old != nil:
					rn.kind = "modify"
				case ru.Old != nil:
					rn.kind = "delete"
				default:
					return nil, fmt.Errorf("row update of %s without old and new", u)
				}
				out[tn][u] = rn
			}
		}
	default:
		var tu ovsdb.TableUpdates2
		if err := json.Unmarshal(payload, &tu); err != nil {
			return nil, err
		}
		for tn, rows := range tu {
			if w.S.Table(tn) == nil {
				return nil, fmt.Errorf("unknown table %s", tn)
			}
			out[tn] = map[string]rowNote{}
			for u, ru := range rows {
				var rn rowNote
				var err error
				n := 0
				if ru.Insert != nil {
					rn.kind = "insert"
					n++
					if rn.new, err = w.RowFromOvs(tn, *ru.Insert); err != nil {
						return nil, err
					}
				}
				if ru.Modify != nil {
					rn.kind = "modify"
					n++
					if rn.diff, err = w.RowFromOvs(tn, *ru.Modify); err != nil {
						return nil, err
					}
				}
				if ru.Delete != nil {
					rn.kind = "delete"
					n++
				}
				if n != 1 || ru.Initial != nil {
					return nil, fmt.Errorf("update2 row %s must carry exactly one of insert/modify/delete", u)
				}
				out[tn][u] = rn
			}
		}
	}
	return out, nil
}

// TestC07: wire level. 2-4 raw JSON-RPC peers register monitors (every method; table and
// column subsets, omitted columns and select, every combination of the four flags) and a
// history of transactions is committed by a writer peer. After every transaction each
// peer must have received exactly the message the difference between the states before
// and after prescribes for its request (none if nothing it monitors changed).
func TestC07(t *testing.T) {
	rapid.Check(t, func(t *rapid.T) {
		kit.PinUUIDs(1)
		s := kit.GenSchema(t, kit.ProfileDB)
		w, err := kit.BuildWorld(s, nil)
		if err != nil {
			t.Fatalf("world: %v", err)
		}
		srv, err := kit.StartServer(w)
		if err != nil {
			t.Fatalf("server: %v", err)
		}
		defer srv.Close()
		kase := c07Case{Schema: s.JSON()}
		fail := func(class, format string, args ...interface{}) {
			kit.Fail(t, "C07", class, kase, format, args...)
		}
		writer, err := kit.NewClient(w, srv.Endpoint())
		if err != nil {
			t.Fatalf("client: %v", err)
		}
		ctx, cancel := context.WithTimeout(context.Background(), 120*time.Second)
		defer cancel()
		if err := writer.Connect(ctx); err != nil {
			t.Fatalf("connect: %v", err)
		}
		defer writer.Close()
		g := kit.NewTxnGen(s, withBig(t, kit.TxnCfg{MaxOps: 3, Named: true, RefBias: true, IndexBias: true, MaxRows: 5}))
		state := func() kit.State {
			st, err := srv.Snapshot()
			if err != nil {
				fail("harness", "%v", err)
			}
			return st
		}
		commit := func() (kit.State, kit.State, bool) {
			pre := state()
			ops := g.GenTxn(t, pre)
			kase.History = append(kase.History, string(kit.OpsJSON(s, ops)))
			res, err := kit.TransactOps(ctx, w, writer, ops)
			if err != nil {
				return pre, pre, false
			}
			for _, r := range res {
				if r.Error != "" {
					return pre, pre, false
				}
			}
			return pre, state(), true
		}
		// some history before the monitors exist
		for i, n := 0, rapid.IntRange(0, 4).Draw(t, "nbefore"); i < n; i++ {
			commit()
		}
		np := rapid.IntRange(2, 4).Draw(t, "npeers")
		var peers []*rawPeerState
		for i := 0; i < np; i++ {
			spec := genPeer(t, s, i == 0)
			kase.Peers = append(kase.Peers, spec)
			rp, err := kit.DialRaw(srv.Sock)
			if err != nil {
				t.Fatalf("dial: %v", err)
			}
			defer rp.Close()
			args := []interface{}{s.Name, fmt.Sprintf("cookie-%d", i), spec.Request}
			if spec.Method == "monitor_cond_since" {
				args = append(args, kit.ZeroUUID)
			}
			var reply json.RawMessage
			if err := rp.Call(spec.Method, args, &reply); err != nil {
				fail("monitor.error", "peer %d: %s %s: %v", i, spec.Method, kit.MustJSON(spec.Request), err)
			}
			ps := &rawPeerState{spec: spec, peer: rp, replica: kit.State{}}
			// initial contents
			initial := map[string]map[string]kit.Row{}
			switch spec.Method {
			case "monitor":
				var tu ovsdb.TableUpdates
				if err := json.Unmarshal(reply, &tu); err != nil {
					fail("monitor.reply", "peer %d: reply %s: %v", i, reply, err)
				}
				for tn, rows := range tu {
					initial[tn] = map[string]kit.Row{}
					for u, ru := range rows {
						if ru.New == nil || ru.Old != nil {
							fail("monitor.reply", "peer %d: initial row %s must carry only new", i, u)
						}
						r, err := w.RowFromOvs(tn, *ru.New)
						if err != nil {
							fail("monitor.reply", "peer %d: %v", i, err)
						}
						initial[tn][u] = r
					}
				}
			default:
				var payload json.RawMessage = reply
				if spec.Method == "monitor_cond_since" {
					var arr []json.RawMessage
					if err := json.Unmarshal(reply, &arr); err != nil || len(arr) != 3 {
						fail("monitor.reply", "peer %d: monitor_cond_since reply %s", i, reply)
					}
					payload = arr[2]
				}
				var tu ovsdb.TableUpdates2
				if err := json.Unmarshal(payload, &tu); err != nil {
					fail("monitor.reply", "peer %d: reply %s: %v", i, reply, err)
				}
				for tn, rows := range tu {
					initial[tn] = map[string]kit.Row{}
					for u, ru := range rows {
						if ru.Initial == nil {
							fail("monitor.reply", "peer %d: initial row %s must carry initial", i, u)
						}
						r, err := w.RowFromOvs(tn, *ru.Initial)
						if err != nil {
							fail("monitor.reply", "peer %d: %v", i, err)
						}
						initial[tn][u] = r
					}
				}
			}
			now := state()
			for tn := range initial {
				if _, ok := spec.Request[tn]; !ok {
					fail("monitor.reply", "peer %d: initial contents for table %s which was not requested", i, tn)
				}
			}
			for tn := range spec.Request {
				tb := s.Table(tn)
				cols := spec.columns(tb)
				if !spec.Initial[tn] {
					if len(initial[tn]) != 0 {
						fail("monitor.initial-flag", "peer %d: %d initial rows for %s although select.initial is false", i, len(initial[tn]), tn)
					}
				} else {
					want := kit.Rows{}
					for u, r := range now[tn] {
						want[u] = projectRow(r, cols)
					}
					got := kit.Rows{}
					for u, r := range initial[tn] {
						delete(r, "_uuid")
						got[u] = projectRow(tb.FillDefaults(r), cols)
					}
					if d := kit.DiffStates(kit.State{tn: want}, kit.State{tn: got}); len(d) > 0 {
						fail("monitor.initial", "peer %d: initial contents of %s differ from the database:\n%s", i, tn, strings.Join(d, "\n"))
					}
				}
				ps.replica[tn] = kit.Rows{}
				for u, r := range now[tn] {
					ps.replica[tn][u] = projectRow(r, cols)
				}
			}
			peers = append(peers, ps)
		}
		// sometimes a peer sets up a second monitor on its connection (any method, another id, all
		// tables): what its first monitor is told must not depend on that; the second monitor's
		// messages are left aside
		second := map[int]bool{}
		if rapid.IntRange(0, 2).Draw(t, "secondmonitor") == 0 {
			pi := rapid.IntRange(0, len(peers)-1).Draw(t, "secondmonitorpeer")
			method := rapid.SampledFrom([]string{"monitor", "monitor", "monitor_cond", "monitor_cond_since"}).Draw(t, "secondmonitormethod")
			all := map[string]interface{}{}
			for _, tb := range s.Tables {
				all[tb.Name] = map[string]interface{}{}
			}
			args := []interface{}{s.Name, fmt.Sprintf("second-%d", pi), all}
			if method == "monitor_cond_since" {
				args = append(args, kit.ZeroUUID)
			}
			var reply json.RawMessage
			if err := peers[pi].peer.Call(method, args, &reply); err != nil {
				fail("monitor.error", "peer %d: second monitor (%s): %v", pi, method, err)
			}
			second[pi] = true
			kase.History = append(kase.History, fmt.Sprintf("peer %d sets up a second monitor (%s, all tables) on its connection", pi, method))
		}
		n := rapid.IntRange(1, 12).Draw(t, "ntxn")
		nontrivial := false
		var labels []string
		if len(second) > 0 {
			labels = append(labels, "second-monitor-on-one-connection")
		}
		for step := 0; step < n; step++ {
			// a peer may answer a notification with an error (it is still connected and still
			// monitoring: what it is told afterwards does not depend on that)
			if rapid.IntRange(0, 5).Draw(t, "refusal") == 0 {
				pi := rapid.IntRange(0, len(peers)-1).Draw(t, "refusingpeer")
				peers[pi].peer.RefuseNext(1)
				kase.History = append(kase.History, fmt.Sprintf("peer %d answers its next notification with an error", pi))
				labels = append(labels, "peer-refuses-a-notification")
			}
			pre, post, ok := commit()
			changes := refdb.Diff(s, pre, post)
			if !ok {
				changes = nil
			}
			for pi, ps := range peers {
				msgs := ps.peer.Take()
				if second[pi] {
					var own []kit.Notification
					for _, m := range msgs {
						var cookie string
						if len(m.Params) > 0 && json.Unmarshal(m.Params[0], &cookie) == nil && strings.HasPrefix(cookie, "second-") {
							continue
						}
						own = append(own, m)
					}
					msgs = own
				}
				// what this peer must be told
				expect := map[string]map[string]refdb.RowChange{}
				for _, c := range changes {
					if _, monitored := ps.spec.Request[c.Table]; !monitored {
						continue
					}
					tb := s.Table(c.Table)
					cols := ps.spec.columns(tb)
					switch {
					case c.Old == nil:
						if !ps.spec.Insert[c.Table] {
							continue
						}
					case c.New == nil:
						if !ps.spec.Delete[c.Table] {
							continue
						}
					default:
						if !ps.spec.Modify[c.Table] || projectRow(c.Old, cols).Key() == projectRow(c.New, cols).Key() {
							continue
						}
					}
					if expect[c.Table] == nil {
						expect[c.Table] = map[string]refdb.RowChange{}
					}
					expect[c.Table][c.UUID] = c
				}
				where := fmt.Sprintf("step %d peer %d (%s %s)", step, pi, ps.spec.Method, kit.MustJSON(ps.spec.Request))
				if len(expect) == 0 {
					if len(msgs) != 0 {
						kase.Message = string(msgs[0].Params[len(msgs[0].Params)-1])
						fail("notify.spurious", "%s: a transaction without effect on what the peer monitors produced %d notification(s): %s", where, len(msgs), kase.Message)
					}
					continue
				}
				if len(msgs) != 1 {
					fail("notify.count", "%s: %d notifications for one committed transaction, want exactly 1", where, len(msgs))
				}
				msg := msgs[0]
				kase.Message = string(msg.Params[len(msg.Params)-1])
				wantMethod := "update2"
				if ps.spec.Method == "monitor" {
					wantMethod = "update"
				}
				if msg.Method != wantMethod {
					fail("notify.method", "%s: notification sent as %q, want %q", where, msg.Method, wantMethod)
				}
				var cookie string
				if err := json.Unmarshal(msg.Params[0], &cookie); err != nil || cookie != fmt.Sprintf("cookie-%d", pi) {
					fail("notify.cookie", "%s: notification carries monitor id %s", where, msg.Params[0])
				}
				got, err := decodeNotification(w, msg)
				if err != nil {
					fail("notify.malformed", "%s: %v: %s", where, err, kase.Message)
				}
				for tn, rows := range got {
					if len(rows) == 0 {
						fail("notify.empty-table", "%s: empty entry for table %s: %s", where, tn, kase.Message)
					}
					for u := range rows {
						if _, ok := expect[tn][u]; !ok {
							fail("notify.extra-row", "%s: row %s of %s reported but nothing the peer selected changed in it: %s", where, u, tn, kase.Message)
						}
					}
				}
				for tn, rows := range expect {
					tb := s.Table(tn)
					cols := ps.spec.columns(tb)
					for u, c := range rows {
						rn, ok := got[tn][u]
						if !ok {
							fail("notify.missing-row", "%s: change of row %s of %s (%s -> %s) not reported: %s", where, u, tn, rowStr(c.Old), rowStr(c.New), kase.Message)
						}
						wantKind := "modify"
						if c.Old == nil {
							wantKind = "insert"
						} else if c.New == nil {
							wantKind = "delete"
						}
						if rn.kind != wantKind {
							fail("notify.kind", "%s: row %s reported as %s, it was a %s", where, u, rn.kind, wantKind)
						}
						colset := map[string]bool{"_uuid": true}
						for _, cn := range cols {
							colset[cn] = true
						}
						for _, r := range []kit.Row{rn.new, rn.old, rn.diff} {
							for cn := range r {
								if !colset[cn] {
									fail("notify.unselected-column", "%s: row %s carries column %s which the peer did not select: %s", where, u, cn, kase.Message)
								}
							}
						}
						// apply with the harness' own rules
						var after kit.Row
						switch {
						case wantKind == "delete":
							after = nil
						case msg.Method == "update":
							nr := rn.new.Clone()
							delete(nr, "_uuid")
							after = projectRow(tb.FillDefaults(nr), cols) // new is the complete monitored row; absent = default
							for cn, ov := range rn.old {
								if cn != "_uuid" && c.Old != nil && !kit.EqVal(ov, c.Old[cn]) {
									fail("notify.old-value", "%s: row %s old.%s = %s, previous value was %s", where, u, cn, ov.Key(), c.Old[cn].Key())
								}
							}
						case wantKind == "insert":
							nr := rn.new.Clone()
							delete(nr, "_uuid")
							after = projectRow(tb.FillDefaults(nr), cols)
						default:
							for cn := range rn.diff {
								if cn != "_uuid" && kit.EqVal(c.Old[cn], c.New[cn]) {
									fail("notify.unchanged-column", "%s: row %s: column %s in modify but it did not change", where, u, cn)
								}
							}
							ar, err := tb.ApplyUpdate2(c.Old, rn.diff)
							if err != nil {
								fail("notify.malformed", "%s: %v", where, err)
							}
							after = projectRow(ar, cols)
						}
						var want kit.Row
						if c.New != nil {
							want = projectRow(c.New, cols)
						}
						if rowStr(after) != rowStr(want) {
							fail("notify.not-the-difference", "%s: row %s of %s: state before + notification gives %s, the database holds %s: %s", where, u, tn, rowStr(after), rowStr(want), kase.Message)
						}
					}
				}
				if len(changes) > 0 {
					for _, c := range changes {
						if c.Old != nil && c.New != nil {
							labels = append(labels, "change:modify")
						}
					}
				}
			}
			if ok {
				// rows removed by GC / columns pruned / values back to default / unmonitored-only changes make a case non-trivial
				if len(changes) >= 2 {
					nontrivial = true
				}
			}
		}
		var sig []string
		for _, ps := range peers {
			keys := make([]string, 0)
			for tn := range ps.spec.Request {
				keys = append(keys, fmt.Sprintf("%s:%v:%v%v%v%v", tn, ps.spec.Cols[tn] != nil, ps.spec.Initial[tn], ps.spec.Insert[tn], ps.spec.Delete[tn], ps.spec.Modify[tn]))
			}
			sort.Strings(keys)
			sig = append(sig, ps.spec.Method+strings.Join(keys, ","))
			labels = append(labels, "method:"+ps.spec.Method)
		}
		kit.Record("C07", schemaKinds(s)+strings.Join(sig, "|")+fmt.Sprint(len(kase.History)), nontrivial, func() interface{} { return kase }, labels...)
	})
}

// TestC07L1: the update handed to monitors (database.Update.ForEachRowUpdate) for every
// committed transaction of a generated history, applied to the state before it with the
// harness' own update2 rules, must give the state after it and mention nothing else
// (checked by l1.step/checkUpdate for thousands of histories, including GC and pruning).
func TestC07L1(t *testing.T) {
	cfg := kit.TxnCfg{MaxOps: 4, Named: true, RefBias: true, IndexBias: true, MaxRows: 6}
	rapid.Check(t, func(t *rapid.T) {
		profile := kit.ProfileDB
		if rapid.IntRange(0, 2).Draw(t, "refheavy") == 0 {
			// reference-heavy schemas: garbage collection in several rounds, rows pruned more than once
			profile = kit.ProfileRefs
		}
		runHistory(t, "C07", profile, cfg, 15, func(l *l1, info *stepInfo) ([]string, bool, *mismatch) {
			nt := info.Excluded == "" && info.Model.Committed && (info.Model.GCDeleted > 0 || info.Model.WeakPruned > 0 || len(info.Ops) >= 2)
			return []string{"l1:update-checked"}, nt, nil
		})
	})
}

type c07OrderCase struct {
	Monitors  []string  `json:"monitors"` // method and acknowledgement delay of each monitoring peer
	Writers   int       `json:"writers"`
	PerWriter int       `json:"transactionsPerWriter"`
	Seen      [][]int64 `json:"counterValuesSeenPerMonitor,omitempty"`
}

// TestC07Order: exactly one notification per committed transaction, in commit order, also
// when several connections commit at the same time and some monitors are slow to
// acknowledge. Every transaction increments one counter, so each monitor must be told
// the values 1, 2, ..., N in this order.
func TestC07Order(t *testing.T) {
	w := c16World(t)
	rapid.Check(t, func(t *rapid.T) {
		srv, err := kit.StartServer(w)
		if err != nil {
			t.Fatalf("server: %v", err)
		}
		defer srv.Close()
		kase := c07OrderCase{}
		fail := func(class, format string, args ...interface{}) {
			kit.Fail(t, "C07", class, kase, format, args...)
		}
		setup, err := kit.DialRaw(srv.Sock)
		if err != nil {
			t.Fatalf("dial: %v", err)
		}
		defer setup.Close()
		if _, err := setup.Transact("DB", []json.RawMessage{json.RawMessage(`{"op":"insert","table":"T0","row":{"marker":"ctr","n":0}}`)}); err != nil {
			t.Fatalf("harness: %v", err)
		}
		nm := rapid.IntRange(2, 3).Draw(t, "nmonitors")
		var mons []*kit.RawPeer
		for i := 0; i < nm; i++ {
			method := rapid.SampledFrom([]string{"monitor", "monitor_cond", "monitor_cond_since"}).Draw(t, "method")
			delay := time.Duration(rapid.SampledFrom([]int{0, 0, 1, 3, 8}).Draw(t, "ackdelayms")) * time.Millisecond
			kase.Monitors = append(kase.Monitors, fmt.Sprintf("%s ack-delay=%v", method, delay))
			p, err := kit.DialRaw(srv.Sock)
			if err != nil {
				t.Fatalf("dial: %v", err)
			}
			defer p.Close()
			if delay > 0 {
				p.Hold = func(kit.Notification) { time.Sleep(delay) }
			}
			args := []interface{}{"DB", fmt.Sprintf("m%d", i), map[string]interface{}{"T0": map[string]interface{}{"columns": []string{"n", "marker"}}}}
			if method == "monitor_cond_since" {
				args = append(args, kit.ZeroUUID)
			}
			var reply json.RawMessage
			if err := p.Call(method, args, &reply); err != nil {
				fail("monitor.error", "%s: %v", method, err)
			}
			mons = append(mons, p)
		}
		nw := rapid.IntRange(2, 4).Draw(t, "nwriters")
		per := rapid.IntRange(1, 4).Draw(t, "perwriter")
		kase.Writers, kase.PerWriter = nw, per
		var wg sync.WaitGroup
		errs := make(chan error, nw*per)
		start := make(chan struct{})
		for i := 0; i < nw; i++ {
			wp, err := kit.DialRaw(srv.Sock)
			if err != nil {
				t.Fatalf("dial: %v", err)
			}
			defer wp.Close()
			wg.Add(1)
			go func() {
				defer wg.Done()
				<-start
				for k := 0; k < per; k++ {
					reply, err := wp.Transact("DB", []json.RawMessage{json.RawMessage(`{"op":"mutate","table":"T0","where":[["marker","==","ctr"]],"mutations":[["n","+=",1]]}`)})
					if err != nil {
						errs <- err
						return
					}
					if !strings.Contains(string(reply), `"count":1`) {
						errs <- fmt.Errorf("reply %s", reply)
						return
					}
				}
			}()
		}
		close(start)
		wg.Wait()
		close(errs)
		for err := range errs {
			fail("harness.writer", "an increment was not committed: %v", err)
		}
		total := int64(nw * per)
		// every notification was acknowledged before its transact call returned
		for i, p := range mons {
			var seen []int64
			for _, n := range p.Take() {
				notes, err := decodeNotification(w, n)
				if err != nil {
					fail("notification.malformed", "monitor %d: %v", i, err)
				}
				for _, rows := range notes {
					for _, rn := range rows {
						src := rn.new
						if src == nil {
							src = rn.diff
						}
						if v, ok := src["n"]; ok && len(v.K) == 1 {
							seen = append(seen, v.K[0].I)
						}
					}
				}
			}
			kase.Seen = append(kase.Seen, seen)
		}
		for i, seen := range kase.Seen {
			if int64(len(seen)) != total {
				fail("notification.count", "monitor %d (%s) received %d notifications for %d committed transactions: %v", i, kase.Monitors[i], len(seen), total, seen)
			}
			for k, v := range seen {
				if v != int64(k+1) {
					fail("notification.order", "monitor %d (%s) was told the counter values %v: not the commit order 1..%d", i, kase.Monitors[i], seen, total)
				}
			}
		}
		kit.Record("C07", "order|"+strings.Join(kase.Monitors, ",")+fmt.Sprint(nw, per), total >= 4, func() interface{} { return kase }, "order:concurrent-writers")
	})
}
