package props

import (
	"encoding/json"
	"fmt"
	"sort"
	"strings"
	"testing"

	"pgregory.net/rapid"

	"verif/pbt/kit"
	"verif/pbt/refdb"
)

var cfgC02 = kit.TxnCfg{MaxOps: 3, Named: true, RefBias: true, IndexBias: true, MaxRows: 5}

func rawOp(format string, args ...interface{}) json.RawMessage {
	return json.RawMessage(fmt.Sprintf(format, args...))
}

// poison builds a failing operation (or a short failing group for commit-time causes)
// for the given state. It returns the ops to splice in, the cause name and whether the
// failure is detected at commit time. ok=false if the cause does not apply to this schema/state.
func poison(t *rapid.T, g *kit.TxnGen, s kit.Schema, st kit.State, cause string) (ops []kit.Op, atCommit bool, ok bool) {
	tb := s.Tables[rapid.IntRange(0, len(s.Tables)-1).Draw(t, "poisontable")]
	rows := kit.SortedUUIDs(st[tb.Name])
	q := func(x string) string { b, _ := json.Marshal(x); return string(b) }
	switch cause {
	case "unknown-table":
		return []kit.Op{{Poison: refdb.ErrGeneric, PoisonPre: true, Raw: rawOp(`{"op":"insert","table":"NoSuchTable","row":{}}`)}}, false, true
	case "unknown-column":
		return []kit.Op{{Poison: refdb.ErrGeneric, PoisonPre: true, Raw: rawOp(`{"op":"insert","table":%s,"row":{"no_such_column":1}}`, q(tb.Name))}}, false, true
	case "unknown-op":
		return []kit.Op{{Poison: refdb.ErrGeneric, Raw: rawOp(`{"op":"frobnicate","table":%s}`, q(tb.Name))}}, false, true
	case "unsupported-op":
		raw := rapid.SampledFrom([]string{`{"op":"abort"}`, `{"op":"comment","comment":"x"}`, `{"op":"assert","lock":"x"}`, `{"op":"commit","durable":false}`}).Draw(t, "unsupported")
		return []kit.Op{{Poison: refdb.ErrGeneric, PoisonPre: true, Raw: json.RawMessage(raw)}}, false, true
	case "invalid-uuid":
		return []kit.Op{{Poison: refdb.ErrGeneric, PoisonPre: true, Raw: rawOp(`{"op":"insert","table":%s,"row":{},"uuid":"not-a-uuid"}`, q(tb.Name))}}, false, true
	case "wrong-type":
		c := tb.Cols[rapid.IntRange(0, len(tb.Cols)-1).Draw(t, "wrongcol")]
		var lit string
		switch {
		case c.Shape() == kit.ShMap:
			lit = rapid.SampledFrom([]string{`1`, `"x"`, `["set",[1]]`, `true`}).Draw(t, "lit")
		case c.Key.T == kit.TInt || c.Key.T == kit.TReal:
			lit = rapid.SampledFrom([]string{`"x"`, `true`, `["map",[]]`, `["uuid","00000000-0000-4000-8000-000000000001"]`, `["set",["a","b"]]`}).Draw(t, "lit")
		case c.Key.T == kit.TStr:
			lit = rapid.SampledFrom([]string{`1`, `true`, `["map",[]]`, `["set",[1,2]]`}).Draw(t, "lit")
		case c.Key.T == kit.TBool:
			lit = rapid.SampledFrom([]string{`1`, `"x"`, `["map",[]]`, `["set",[1,2]]`}).Draw(t, "lit")
		default:
			lit = rapid.SampledFrom([]string{`1`, `"x"`, `true`, `["map",[]]`, `["set",[1,2]]`}).Draw(t, "lit")
		}
		return []kit.Op{{Poison: refdb.ErrGeneric, Raw: rawOp(`{"op":"insert","table":%s,"row":{%s:%s}}`, q(tb.Name), q(c.Name), lit)}}, false, true
	case "duplicate-uuid":
		if len(rows) == 0 {
			return nil, false, false
		}
		u := rapid.SampledFrom(rows).Draw(t, "dupuuid")
		return []kit.Op{{Op: "insert", Table: tb.Name, UUID: u, Row: kit.Row{}}}, false, true
	case "immutable":
		if len(rows) == 0 {
			return nil, false, false
		}
		for _, c := range tb.Cols {
			if !c.Immutable {
				continue
			}
			u := rapid.SampledFrom(rows).Draw(t, "immrow")
			for tries := 0; tries < 6; tries++ {
				v := kit.GenVal(t, c, nil)
				if !kit.EqVal(v, st[tb.Name][u][c.Name]) && !hasZero(v) {
					return []kit.Op{{Op: "update", Table: tb.Name, Where: []kit.Cond{{Col: "_uuid", Fn: "==", Val: kit.Scalar(kit.UUID(u))}}, Row: kit.Row{c.Name: v}}}, false, true
				}
			}
		}
		return nil, false, false
	case "bad-mutator":
		if len(rows) == 0 {
			return nil, false, false
		}
		for _, c := range tb.Cols {
			if c.Shape() == kit.ShScalar && len(c.Key.Enum) == 0 && (c.Key.T == kit.TStr || c.Key.T == kit.TBool) {
				return []kit.Op{{Op: "mutate", Table: tb.Name, Where: []kit.Cond{}, Mutations: []kit.Mut{{Col: c.Name, Mutator: "+=", Val: kit.GenVal(t, c, nil)}}}}, false, true
			}
		}
		return nil, false, false
	case "division-by-zero":
		if len(rows) == 0 {
			return nil, false, false
		}
		for _, c := range tb.Cols {
			if c.Shape() == kit.ShScalar && len(c.Key.Enum) == 0 && !c.Immutable && (c.Key.T == kit.TInt || c.Key.T == kit.TReal) {
				m := rapid.SampledFrom([]string{"/=", "%="}).Draw(t, "divop")
				if c.Key.T == kit.TReal {
					m = "/="
				}
				return []kit.Op{{Op: "mutate", Table: tb.Name, Where: []kit.Cond{}, Mutations: []kit.Mut{{Col: c.Name, Mutator: m, Val: kit.Scalar(kit.ZeroAtom(c.Key.T))}}}}, false, true
			}
		}
		return nil, false, false
	case "wait-timeout":
		if len(rows) == 0 {
			return nil, false, false
		}
		zero := 0
		u := rapid.SampledFrom(rows).Draw(t, "waitrow")
		return []kit.Op{{Op: "wait", Table: tb.Name, Timeout: &zero, Until: "==", Rows: []kit.Row{}, HasColumns: true, Columns: []string{tb.Cols[0].Name},
			Where: []kit.Cond{{Col: "_uuid", Fn: "==", Val: kit.Scalar(kit.UUID(u))}}}}, false, true
	case "dangling-strong":
		for _, tt := range s.Tables {
			if !s.IsRoot(tt.Name) {
				continue
			}
			for _, c := range tt.Cols {
				if c.Key.T == kit.TUUID && c.Key.Ref != nil && !c.Key.Ref.Weak && c.Value == nil {
					pool := &kit.Pool{RowUUIDs: map[string][]string{}}
					for _, x := range s.Tables {
						pool.RowUUIDs[x.Name] = kit.SortedUUIDs(st[x.Name])
					}
					pool.NoDangling = true
					ins := g.GenInsert(t, tt, pool, "")
					ins.Row[c.Name] = kit.Scalar(kit.UUID(kit.MkUUID(700001)))
					if c.Shape() == kit.ShSet {
						ins.Row[c.Name] = kit.SetOf(kit.UUID(kit.MkUUID(700001)))
					}
					// the other reference columns of the row must not dangle either way; fine if they do (still rejected)
					return []kit.Op{ins}, true, true
				}
			}
		}
		return nil, false, false
	case "weak-minimum":
		for _, tt := range s.Tables {
			if !s.IsRoot(tt.Name) {
				continue
			}
			for _, c := range tt.Cols {
				if c.Key.T == kit.TUUID && c.Key.Ref != nil && c.Key.Ref.Weak && c.Value == nil && c.Min >= 1 {
					target := s.Table(c.Key.Ref.Table)
					pool := &kit.Pool{RowUUIDs: map[string][]string{}, NoDangling: true}
					for _, x := range s.Tables {
						pool.RowUUIDs[x.Name] = kit.SortedUUIDs(st[x.Name])
					}
					tgt := g.GenInsert(t, *target, pool, "")
					if tgt.UUID == "" {
						tgt.UUID = kit.MkUUID(600000 + g.Next)
						g.Next++
					}
					holder := g.GenInsert(t, tt, pool, "")
					holder.Row[c.Name] = kit.SetOf(kit.UUID(tgt.UUID))
					del := kit.Op{Op: "delete", Table: target.Name, Where: []kit.Cond{{Col: "_uuid", Fn: "==", Val: kit.Scalar(kit.UUID(tgt.UUID))}}}
					return []kit.Op{tgt, holder, del}, true, true
				}
			}
		}
		return nil, false, false
	case "duplicate-index":
		for _, tt := range s.Tables {
			if len(tt.Indexes) == 0 || !s.IsRoot(tt.Name) {
				continue
			}
			pool := &kit.Pool{RowUUIDs: map[string][]string{}, NoDangling: true}
			for _, x := range s.Tables {
				pool.RowUUIDs[x.Name] = kit.SortedUUIDs(st[x.Name])
			}
			a := g.GenInsert(t, tt, pool, "")
			b := g.GenInsert(t, tt, pool, "")
			for _, cn := range tt.Indexes[0] {
				v, ok := a.Row[cn]
				if !ok {
					v = kit.GenVal(t, *tt.Col(cn), pool)
					a.Row[cn] = v
				}
				b.Row[cn] = v.Clone()
			}
			return []kit.Op{a, b}, true, true
		}
		return nil, false, false
	}
	return nil, false, false
}

func hasZero(v kit.Val) bool {
	for _, a := range append(append([]kit.Atom{}, v.K...), v.V...) {
		if a.T == kit.TUUID && a.S == kit.ZeroUUID {
			return true
		}
	}
	return false
}

var poisonCauses = []string{"unknown-table", "unknown-column", "unknown-op", "unsupported-op", "invalid-uuid", "wrong-type", "duplicate-uuid",
	"immutable", "bad-mutator", "division-by-zero", "wait-timeout", "dangling-strong", "weak-minimum", "duplicate-index"}

// refsSnapshot renders Database.GetReferences for every stored row and a few absent uuids.
func refsSnapshot(l *l1, st kit.State) (string, error) {
	var parts []string
	for _, t := range l.W.S.Tables {
		us := append(kit.SortedUUIDs(st[t.Name]), kit.MkUUID(700001), kit.MkUUID(700002))
		for _, u := range us {
			k, err := l.DB.RefsKey(t.Name, u)
			if err != nil {
				return "", err
			}
			if k != "[]" {
				parts = append(parts, t.Name+"/"+u+"="+k)
			}
		}
	}
	sort.Strings(parts)
	return strings.Join(parts, "\n"), nil
}

// TestC02 generates histories in which some transactions are made to fail at a drawn
// position for a drawn cause. The database under test sees every transaction, a twin
// database only the ones that are expected to commit: results and states of the two must
// stay identical, a failed transaction must leave rows and reference index untouched,
// and the reply must have the prescribed shape.
func TestC02(t *testing.T) {
	rapid.Check(t, func(t *rapid.T) {
		kit.PinUUIDs(1)
		s := kit.GenSchema(t, kit.ProfileDB)
		w, err := kit.BuildWorld(s, nil)
		if err != nil {
			t.Fatalf("world: %v", err)
		}
		w2, _ := kit.BuildWorld(s, nil)
		l, _ := newL1(w)
		twin, _ := newL1(w2)
		g := kit.NewTxnGen(s, withBig(t, cfgC02))
		n := rapid.IntRange(2, 12).Draw(t, "ntxn")
		var hist [][]kit.Op
		var labels []string
		var sig []string
		nontrivial := false
		for i := 0; i < n; i++ {
			ops := g.GenTxn(t, l.Ref)
			cause := ""
			k := -1
			atCommit := false
			if rapid.IntRange(0, 2).Draw(t, "poison?") > 0 {
				cause = rapid.SampledFrom(poisonCauses).Draw(t, "cause")
				pops, ac, ok := poison(t, g, s, l.Ref, cause)
				if ok {
					k = rapid.IntRange(0, len(ops)).Draw(t, "position")
					atCommit = ac
					spliced := append([]kit.Op{}, ops[:k]...)
					spliced = append(spliced, pops...)
					spliced = append(spliced, ops[k:]...)
					ops = spliced
				} else {
					cause = ""
				}
			}
			hist = append(hist, ops)
			before, err := refsSnapshot(l, l.Ref)
			if err != nil {
				t.Fatalf("refs: %v", err)
			}
			pre := l.Ref
			info, m := l.step(ops)
			if m != nil {
				kit.Fail(t, "C02", m.Class, mkHistCase(s, hist, i, info), "step %d (injected failure %q at %d): %s\nops: %s", i, cause, k, m.Msg, kit.OpsJSON(s, ops))
			}
			if info.Excluded != "" {
				hist = hist[:len(hist)-1]
				labels = append(labels, "excluded_known:"+info.Excluded)
				continue
			}
			implFailed := firstError(info.Impl.Results) >= 0
			if cause != "" && !implFailed {
				// the injected cause may be masked by an earlier natural failure only if the model says so; step() already
				// compared positions. A poisoned transaction that commits is a violation unless the model agrees it commits.
				if !info.Model.Committed {
					kit.Fail(t, "C02", "atomicity.poison-committed", mkHistCase(s, hist, i, info), "step %d: transaction with injected failure %q committed", i, cause)
				}
			}
			if implFailed {
				// (a) nothing changed: rows were compared by step(); the reference index too
				after, err := refsSnapshot(l, pre)
				if err != nil {
					t.Fatalf("refs: %v", err)
				}
				if before != after {
					kit.Fail(t, "C02", "atomicity.references-changed", mkHistCase(s, hist, i, info), "step %d: failed transaction changed the reference index:\nbefore:\n%s\nafter:\n%s", i, before, after)
				}
				// (b) shape: commit-time failure => all results plus one extra error element
				e := firstError(info.Impl.Results)
				if info.Model.FailedAt < 0 && info.Model.CommitErr != "" && info.Tolerated == "" {
					if e != len(ops) || len(info.Impl.Results) != len(ops)+1 {
						kit.Fail(t, "C02", "reply.shape", mkHistCase(s, hist, i, info), "step %d: commit-time rejection must be reported as %d results + 1 error, got %s", i, len(ops), kit.ResultsJSON(info.Impl.Results))
					}
				}
				lbl := "failed:natural"
				if cause != "" {
					lbl = "failed:" + cause
				}
				labels = append(labels, lbl)
				if e >= 1 || e == len(ops) {
					// an earlier operation of the transaction had succeeded, or everything had
					for _, op := range ops[:min(e, len(ops))] {
						if op.Op != "select" && op.Op != "wait" {
							nontrivial = true
						}
					}
				}
				sig = append(sig, fmt.Sprintf("%s@%d/%d:%v", cause, e, len(ops), atCommit))
				continue
			}
			// committed: the twin runs it too
			info2, m2 := twin.step(ops)
			if m2 != nil {
				kit.Fail(t, "C02", "twin."+m2.Class, mkHistCase(s, hist, i, info2), "step %d on the twin: %s", i, m2.Msg)
			}
			a, b := kit.ResultsJSON(info.Impl.Results), kit.ResultsJSON(info2.Impl.Results)
			if canonResults(a) != canonResults(b) {
				kit.Fail(t, "C02", "atomicity.later-transaction-differs", mkHistCase(s, hist, i, info), "step %d: a database that saw failed transactions answers differently from one that never saw them:\n with failures: %s\nwithout: %s", i, a, b)
			}
			sa, _ := l.DB.Snapshot()
			sb, _ := twin.DB.Snapshot()
			if d := kit.DiffStates(sb, sa); len(d) > 0 {
				kit.Fail(t, "C02", "atomicity.later-state-differs", mkHistCase(s, hist, i, info), "step %d: states diverge after failed transactions:\n%s", i, strings.Join(d, "\n"))
			}
			ra, _ := refsSnapshot(l, sa)
			rb, _ := refsSnapshot(twin, sb)
			if ra != rb {
				kit.Fail(t, "C02", "atomicity.later-references-differ", mkHistCase(s, hist, i, info), "step %d: reference indexes diverge after failed transactions:\n%s\n--\n%s", i, ra, rb)
			}
			labels = append(labels, "committed")
			sig = append(sig, "ok")
		}
		kit.Record("C02", schemaKinds(s)+"|"+strings.Join(sig, "|"), nontrivial, func() interface{} { return mkHistCase(s, hist, -1, nil) }, labels...)
	})
}

// canonResults sorts the rows of select results (their order is unspecified).
func canonResults(js string) string {
	var rs []map[string]interface{}
	if json.Unmarshal([]byte(js), &rs) != nil {
		return js
	}
	for _, r := range rs {
		if rows, ok := r["rows"].([]interface{}); ok {
			strs := make([]string, len(rows))
			for i, x := range rows {
				strs[i] = canonValue(x)
			}
			sort.Strings(strs)
			r["rows"] = strs
		}
		delete(r, "details")
	}
	return string(kit.MustJSON(rs))
}

// canonValue renders a JSON value with sets and maps sorted.
func canonValue(x interface{}) string {
	switch v := x.(type) {
	case []interface{}:
		if len(v) == 2 {
			if tag, ok := v[0].(string); ok && (tag == "set" || tag == "map") {
				if inner, ok := v[1].([]interface{}); ok {
					strs := make([]string, len(inner))
					for i, e := range inner {
						strs[i] = canonValue(e)
					}
					sort.Strings(strs)
					return tag + "(" + strings.Join(strs, ",") + ")"
				}
			}
		}
		strs := make([]string, len(v))
		for i, e := range v {
			strs[i] = canonValue(e)
		}
		return "[" + strings.Join(strs, ",") + "]"
	case map[string]interface{}:
		keys := make([]string, 0, len(v))
		for k := range v {
			keys = append(keys, k)
		}
		sort.Strings(keys)
		var sb strings.Builder
		for _, k := range keys {
			sb.WriteString(k + ":" + canonValue(v[k]) + ";")
		}
		return "{" + sb.String() + "}"
	default:
		return fmt.Sprint(v)
	}
}
