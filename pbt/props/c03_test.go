package props

import (
	"encoding/json"
	"fmt"
	"strings"
	"testing"

	"pgregory.net/rapid"

	"verif/pbt/kit"
)

// histCase is the replayable description of a generated history.
type histCase struct {
	Schema  json.RawMessage `json:"schema"`
	History []string        `json:"history"` // one JSON array of operations per transaction
	Step    int             `json:"failedStep"`
	Results string          `json:"results,omitempty"`
	Model   interface{}     `json:"model,omitempty"`
}

func mkHistCase(s kit.Schema, hist [][]kit.Op, step int, info *stepInfo) histCase {
	c := histCase{Schema: s.JSON(), Step: step}
	for _, ops := range hist {
		c.History = append(c.History, string(kit.OpsJSON(s, ops)))
	}
	if info != nil {
		c.Results = kit.ResultsJSON(info.Impl.Results)
		c.Model = info.Model
	}
	return c
}

// txnLabels classifies a transaction for the evidence histograms.
func txnLabels(s kit.Schema, info *stepInfo) (labels []string, nontrivial bool) {
	touched := map[string]int{}
	for _, op := range info.Ops {
		labels = append(labels, "op:"+op.Op)
		t := s.Table(op.Table)
		if t == nil {
			continue
		}
		touched[op.Table]++
		for _, c := range op.Where {
			if col := t.ColOf(c.Col); col != nil {
				labels = append(labels, fmt.Sprintf("cond:%s:%s", col.Shape(), c.Fn))
				if col.Shape() == kit.ShSet || col.Shape() == kit.ShMap {
					nontrivial = true
				}
			}
		}
		for _, m := range op.Mutations {
			if col := t.ColOf(m.Col); col != nil {
				labels = append(labels, fmt.Sprintf("mut:%s:%s", col.Shape(), m.Mutator))
				if col.Shape() == kit.ShSet || col.Shape() == kit.ShMap {
					nontrivial = true
				}
			}
		}
	}
	for _, n := range touched {
		if n >= 2 && len(info.Ops) >= 2 {
			nontrivial = true
			labels = append(labels, "chain:same-table")
		}
	}
	switch {
	case info.Excluded != "":
		if strings.HasPrefix(info.Excluded, "domain:") {
			return []string{"excluded_" + info.Excluded}, false
		}
		return []string{"excluded_known:" + info.Excluded}, false
	case info.Tolerated != "":
		labels = append(labels, "outcome:tolerated-reject", "tolerated:"+info.Tolerated)
	case info.Model.FailedAt >= 0:
		labels = append(labels, "outcome:op-error")
	case info.Model.CommitErr != "":
		labels = append(labels, "outcome:commit-error:"+info.Model.CommitErr)
	default:
		labels = append(labels, "outcome:committed")
	}
	if info.Model.GCDeleted > 0 {
		labels = append(labels, "commit:gc")
	}
	if info.Model.WeakPruned > 0 {
		labels = append(labels, "commit:weak-pruned")
	}
	return labels, nontrivial
}

func schemaKinds(s kit.Schema) string {
	var parts []string
	for _, t := range s.Tables {
		for _, c := range t.Cols {
			p := c.Shape().String()[:2] + c.Key.T.String()[:1]
			if c.Value != nil {
				p += c.Value.T.String()[:1]
			}
			parts = append(parts, p)
		}
	}
	return strings.Join(parts, "")
}

// withBig switches one case in twenty to the Big mode of the generators (collections of
// dozens of elements, fan-in of dozens of referrers): size thresholds.
func withBig(t *rapid.T, cfg kit.TxnCfg) kit.TxnCfg {
	cfg.Big = cfg.Big || rapid.IntRange(0, 19).Draw(t, "big") == 0
	if cfg.Big {
		kit.Label("generator", "big-mode-case")
	}
	return cfg
}

// runHistory is the loop shared by the L1 properties: draw a schema and a history
// of transactions against the evolving reference state, compare every step.
func runHistory(t *rapid.T, prop string, profile kit.Profile, cfg kit.TxnCfg, maxTxn int,
	after func(l *l1, info *stepInfo) (labels []string, nontrivial bool, m *mismatch)) {
	kit.PinUUIDs(1)
	s := kit.GenSchema(t, profile)
	w, err := kit.BuildWorld(s, nil)
	if err != nil {
		kit.Fail(t, prop, "harness.world", map[string]interface{}{"schema": json.RawMessage(s.JSON())}, "cannot build world: %v", err)
	}
	l, err := newL1(w)
	if err != nil {
		t.Fatalf("newL1: %v", err)
	}
	g := kit.NewTxnGen(s, withBig(t, cfg))
	n := rapid.IntRange(1, maxTxn).Draw(t, "ntxn")
	var hist [][]kit.Op
	var sig []string
	nontrivial := false
	var labels []string
	for i := 0; i < n; i++ {
		ops := g.GenTxn(t, l.Ref)
		hist = append(hist, ops)
		info, m := l.step(ops)
		if m != nil {
			kit.Fail(t, prop, m.Class, mkHistCase(s, hist, i, info), "step %d: %s\nops: %s", i, m.Msg, kit.OpsJSON(s, ops))
		}
		ls, nt := txnLabels(s, info)
		if after != nil {
			ls2, nt2, m2 := after(l, info)
			if m2 != nil {
				kit.Fail(t, prop, m2.Class, mkHistCase(s, hist, i, info), "step %d: %s\nops: %s", i, m2.Msg, kit.OpsJSON(s, ops))
			}
			ls = append(ls, ls2...)
			nt = nt2
		}
		labels = append(labels, ls...)
		nontrivial = nontrivial || nt
		sig = append(sig, opKinds(ops))
	}
	for k, v := range g.Excluded {
		kit.LabelN(prop, "excluded_known:"+k, v)
	}
	kit.LabelN(prop, "transactions", n)
	kit.Record(prop, schemaKinds(s)+"|"+strings.Join(sig, "|"), nontrivial, func() interface{} { return mkHistCase(s, hist, -1, nil) }, labels...)
}

var cfgC03 = kit.TxnCfg{MaxOps: 4, MayReject: true, Invalid: true, Named: true, OmitUUID: true, MaxRows: 6, ZeroDivisors: true}

func TestC03(t *testing.T) {
	rapid.Check(t, func(t *rapid.T) {
		runHistory(t, "C03", kit.ProfileDB, cfgC03, 20, nil)
	})
}

// TestC03NoRefs is the same property on schemas without table references (plain
// uuid columns only): operation semantics in isolation from the commit-time
// reference machinery.
func TestC03NoRefs(t *testing.T) {
	p := kit.ProfileDB
	p.Refs = 0
	rapid.Check(t, func(t *rapid.T) {
		runHistory(t, "C03", p, cfgC03, 20, nil)
	})
}
