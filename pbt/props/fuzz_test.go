package props

import (
	"encoding/json"
	"strings"
	"testing"

	"github.com/ovn-org/libovsdb/ovsdb"
	"pgregory.net/rapid"

	"verif/pbt/kit"
)

// Native fuzz targets of C19 (coverage-guided, thorough tier; their seed corpus also runs
// as an ordinary test in the quick tier). The oracle is inside the target.

// FuzzC19Decode: arbitrary bytes into any wire type never panic (decode, re-encode, decode).
func FuzzC19Decode(f *testing.F) {
	for ti, tg := range decodeTargets {
		name := tg.name
		gen := rapid.Custom(func(t *rapid.T) []byte { return validEncoding(t, name) })
		for i := 0; i < 8; i++ {
			f.Add(uint8(ti), gen.Example(i))
		}
	}
	for i, h := range kit.HostileNodes() {
		f.Add(uint8(i), []byte(h))
	}
	f.Fuzz(func(t *testing.T, target uint8, data []byte) {
		tg := decodeTargets[int(target)%len(decodeTargets)]
		_, stage, pval, stack := tryDecode(tg.typ, data)
		if pval != nil {
			t.Fatalf("VERIF-FAIL property=C19 class=panic.%s: %s of %q into %s panicked: %v\n%s", panicSite(stack), stage, data, tg.name, pval, stack)
		}
	})
}

// fuzzTxnSchema covers every column kind the transaction engine distinguishes.
const fuzzTxnSchema = `{"name":"DB","version":"1.0.0","tables":{
 "A":{"isRoot":true,"indexes":[["name"]],"columns":{"name":{"type":"string"},"i":{"type":"integer"},"r":{"type":"real"},"b":{"type":"boolean"},"u":{"type":"uuid"},
   "e":{"type":{"key":{"type":"string","enum":["set",["x","y"]]}}},"oi":{"type":{"key":"integer","min":0,"max":1}},"os":{"type":{"key":"string","min":0,"max":1}},
   "si":{"type":{"key":"integer","min":0,"max":"unlimited"}},"ss":{"type":{"key":"string","min":0,"max":3}},"mss":{"type":{"key":"string","value":"string","min":0,"max":"unlimited"}},
   "msi":{"type":{"key":"string","value":"integer","min":0,"max":"unlimited"}},"strong":{"type":{"key":{"type":"uuid","refTable":"B","refType":"strong"},"min":0,"max":"unlimited"}},
   "weak":{"type":{"key":{"type":"uuid","refTable":"B","refType":"weak"},"min":0,"max":1}},"mref":{"type":{"key":"string","value":{"type":"uuid","refTable":"B"},"min":0,"max":"unlimited"}}}},
 "B":{"columns":{"n":{"type":"integer"},"imm":{"type":"string","mutable":false},"back":{"type":{"key":{"type":"uuid","refTable":"A","refType":"weak"},"min":0,"max":"unlimited"}}}}}}`

func fuzzTxnWorld(tb testing.TB) *kit.World {
	s, err := parseSchemaJSON([]byte(fuzzTxnSchema))
	if err != nil {
		tb.Fatalf("schema: %v", err)
	}
	w, err := kit.BuildWorld(s, nil)
	if err != nil {
		tb.Fatalf("world: %v", err)
	}
	return w
}

const fuzzTxnPrefix = `[{"op":"insert","table":"B","uuid-name":"b1","row":{"n":1,"imm":"k"}},{"op":"insert","table":"B","uuid-name":"b2","row":{"n":2}},
 {"op":"insert","table":"A","uuid":"00000000-0000-4000-8000-000000000001","row":{"name":"a1","i":7,"r":1.5,"si":["set",[1,2,3]],"ss":"x","mss":["map",[["k","v"]]],"msi":["map",[["k",1]]],
   "strong":["set",[["named-uuid","b1"],["named-uuid","b2"]]],"weak":["named-uuid","b1"],"mref":["map",[["m",["named-uuid","b2"]]]],"oi":5}},
 {"op":"insert","table":"A","uuid":"00000000-0000-4000-8000-000000000002","row":{"name":"a2","e":"y"}}]`

// FuzzC19Txn: any JSON array of operations, executed on a populated database, yields
// results or error results without a panic, leaves the database unchanged when it fails,
// never fails in Commit after Transact succeeded, and the database keeps answering.
func FuzzC19Txn(f *testing.F) {
	w := fuzzTxnWorld(f)
	gen := rapid.Custom(func(t *rapid.T) []byte {
		g := kit.NewTxnGen(w.S, cfgC19)
		st := kit.State{}
		for _, tb := range w.S.Tables {
			st[tb.Name] = kit.Rows{}
		}
		return kit.OpsJSON(w.S, g.GenTxn(t, st))
	})
	for i := 0; i < 48; i++ {
		f.Add(gen.Example(i))
	}
	for _, h := range hostileOps {
		for _, tb := range []string{"A", "B"} {
			h2 := strings.ReplaceAll(strings.ReplaceAll(h, "$T", tb), "$C", map[string]string{"A": "i", "B": "n"}[tb])
			f.Add([]byte("[" + h2 + "]"))
		}
	}
	f.Add([]byte(`[{"op":"mutate","table":"A","where":[],"mutations":[["i","/=",0.5]]}]`))
	f.Add([]byte(`[{"op":"delete","table":"A","where":[["name","==","a1"]]},{"op":"insert","table":"A","row":{"name":"a1","strong":["uuid","00000000-0000-4000-8000-000000000009"]}}]`))
	kit.TolerateDuplicates = true
	f.Fuzz(func(t *testing.T, data []byte) {
		var raw []json.RawMessage
		if err := json.Unmarshal(data, &raw); err != nil || len(raw) == 0 || len(raw) > 12 {
			t.Skip()
		}
		kit.PinUUIDs(1)
		db, err := kit.NewDB(w)
		if err != nil {
			t.Fatalf("db: %v", err)
		}
		var prefix []json.RawMessage
		_ = json.Unmarshal([]byte(fuzzTxnPrefix), &prefix)
		if out := db.TransactViaServer(prefix); !out.Committed {
			t.Fatalf("harness: prefix rejected: %s %v", kit.ResultsJSON(out.Results), out.CommitErr)
		}
		before, err := db.Snapshot()
		if err != nil {
			t.Fatalf("harness: %v", err)
		}
		var ops []ovsdb.Operation
		for _, rm := range raw {
			var op ovsdb.Operation
			var pval interface{}
			var derr error
			func() {
				defer func() { pval = recover() }()
				derr = json.Unmarshal(rm, &op)
			}()
			if pval != nil {
				t.Fatalf("VERIF-FAIL property=C19 class=panic.decode: decoding operation %s panicked: %v", rm, pval)
			}
			if derr != nil {
				t.Skip() // the server answers with a JSON-RPC error without touching the database
			}
			ops = append(ops, op)
		}
		if hasUnboundedWait(ops) {
			t.Skip()
		}
		out, pval, stack := transactSafely(db, ops)
		if pval != nil {
			t.Fatalf("VERIF-FAIL property=C19 class=panic.%s: transact of %s panicked: %v\n%s", panicSite(stack), data, pval, stack)
		}
		post, err := db.Snapshot()
		if err != nil {
			t.Fatalf("VERIF-FAIL property=C19 class=state.unreadable: database unreadable after %s: %v", data, err)
		}
		if out.CommitErr != nil {
			t.Fatalf("VERIF-FAIL property=C19 class=commit.error-after-notify: request %s passed Transact but Commit failed: %v", data, out.CommitErr)
		}
		if firstError(out.Results) >= 0 {
			if d := kit.DiffStates(before, post); len(d) > 0 {
				t.Fatalf("VERIF-FAIL property=C19 class=atomicity.state-changed: request %s failed (%s) but changed the database:\n%s", data, kit.ResultsJSON(out.Results), strings.Join(d, "\n"))
			}
		}
		for _, tb := range w.S.Tables {
			sel, pv, _ := transactSafely(db, []ovsdb.Operation{{Op: "select", Table: tb.Name, Where: []ovsdb.Condition{}}})
			if pv != nil || len(sel.Results) != 1 || sel.Results[0] == nil || sel.Results[0].Error != "" || len(sel.Results[0].Rows) != len(post[tb.Name]) {
				t.Fatalf("VERIF-FAIL property=C19 class=serving.select-after: select on %s after %s: %v %s, want %d rows", tb.Name, data, pv, kit.ResultsJSON(sel.Results), len(post[tb.Name]))
			}
		}
	})
}
