package props

import (
	"context"
	"encoding/json"
	"fmt"
	"reflect"
	"sort"
	"strings"
	"sync"
	"testing"
	"time"

	"github.com/ovn-org/libovsdb/client"
	"github.com/ovn-org/libovsdb/model"
	"github.com/ovn-org/libovsdb/ovsdb"
	"pgregory.net/rapid"

	"verif/pbt/kit"
)

// monSpec is one generated monitor of a monitoring client.
type monSpec struct {
	Method string              `json:"method"`
	Tables map[string][]string `json:"tables"` // table -> monitored columns (nil = all)
	// table -> column: the table is monitored through WithConditionalTable with the two
	// conditions column == <zero value> and column != <zero value> (every row satisfies one)
	Where   map[string]string `json:"where,omitempty"`
	At      int               `json:"establishedAt"`
	Window  bool              `json:"notificationInsideWindow"`
	started bool
}

type c01Case struct {
	Schema   json.RawMessage `json:"schema"`
	Monitors [][]monSpec     `json:"monitors"` // per monitoring client
	History  []string        `json:"history"`
	Writers  []int           `json:"writers"`
	Step     int             `json:"step"`
}

func fieldPtrByColumn(w *kit.World, table string, m interface{}, col string) interface{} {
	tb := w.S.Table(table)
	for i, c := range tb.Cols {
		if c.Name == col {
			return reflect.ValueOf(m).Elem().FieldByName(kit.FieldName(i)).Addr().Interface()
		}
	}
	return nil
}

// genMonitors draws the monitors of one client: disjoint table sets.
func genMonitors(t *rapid.T, s kit.Schema, histLen int) []monSpec {
	var tables []string
	for _, tb := range s.Tables {
		tables = append(tables, tb.Name)
	}
	tables = rapid.Permutation(tables).Draw(t, "montables")
	nm := 1
	if len(tables) > 1 && rapid.Bool().Draw(t, "twomonitors") {
		nm = 2
	}
	var out []monSpec
	for i := 0; i < nm; i++ {
		var mine []string
		if nm == 1 {
			k := rapid.IntRange(1, len(tables)).Draw(t, "ntables")
			mine = tables[:k]
		} else if i == 0 {
			k := rapid.IntRange(1, len(tables)-1).Draw(t, "split")
			mine = tables[:k]
		} else {
			mine = tables[len(out[0].Tables):]
		}
		ms := monSpec{
			Method: rapid.SampledFrom([]string{ovsdb.MonitorRPC, ovsdb.ConditionalMonitorRPC, ovsdb.ConditionalMonitorSinceRPC}).Draw(t, "method"),
			Tables: map[string][]string{},
			At:     rapid.IntRange(0, histLen).Draw(t, "at"),
			Window: rapid.IntRange(0, 2).Draw(t, "window") == 0,
		}
		for _, tn := range mine {
			tb := s.Table(tn)
			if rapid.IntRange(0, 2).Draw(t, "allcols") == 0 {
				ms.Tables[tn] = nil
				continue
			}
			var cols []string
			for _, c := range tb.Cols {
				if rapid.Bool().Draw(t, "moncol") {
					cols = append(cols, c.Name)
				}
			}
			if len(cols) == 0 {
				cols = []string{tb.Cols[0].Name}
			}
			ms.Tables[tn] = cols
		}
		for _, tn := range mine {
			if rapid.IntRange(0, 3).Draw(t, "conditional") != 0 {
				continue
			}
			var cands []string
			for _, c := range s.Table(tn).Cols {
				if c.Shape() == kit.ShScalar && len(c.Key.Enum) == 0 && (c.Key.T == kit.TInt || c.Key.T == kit.TStr || c.Key.T == kit.TBool) {
					cands = append(cands, c.Name)
				}
			}
			if len(cands) > 0 {
				if ms.Where == nil {
					ms.Where = map[string]string{}
				}
				ms.Where[tn] = rapid.SampledFrom(cands).Draw(t, "wherecol")
			}
		}
		out = append(out, ms)
	}
	return out
}

func buildMonitor(w *kit.World, c client.Client, ms monSpec) *client.Monitor {
	var opts []client.MonitorOption
	var names []string
	for tn := range ms.Tables {
		names = append(names, tn)
	}
	sort.Strings(names)
	for _, tn := range names {
		m := w.NewModel(tn)
		var fields []interface{}
		for _, col := range ms.Tables[tn] {
			fields = append(fields, fieldPtrByColumn(w, tn, m, col))
		}
		if col, ok := ms.Where[tn]; ok {
			ptr := fieldPtrByColumn(w, tn, m, col)
			zero := reflect.Zero(reflect.TypeOf(ptr).Elem()).Interface()
			opts = append(opts, client.WithConditionalTable(m, []model.Condition{
				{Field: ptr, Function: ovsdb.ConditionEqual, Value: zero},
				{Field: ptr, Function: ovsdb.ConditionNotEqual, Value: zero},
			}, fields...))
			kit.Label("C01", "monitor:conditional-table")
			continue
		}
		opts = append(opts, client.WithTable(m, fields...))
	}
	mon := c.NewMonitor(opts...)
	mon.Method = ms.Method
	return mon
}

// projectState restricts a state to the monitored tables and columns.
func projectState(s kit.Schema, st kit.State, ms monSpec, v1 bool) kit.State {
	out := kit.State{}
	for tn, cols := range ms.Tables {
		tb := s.Table(tn)
		rows := kit.Rows{}
		for u, r := range st[tn] {
			pr := kit.Row{}
			if cols == nil {
				for _, c := range tb.Cols {
					pr[c.Name] = r[c.Name]
				}
			} else {
				for _, c := range cols {
					pr[c] = r[c]
				}
			}
			rows[u] = pr
		}
		out[tn] = rows
	}
	return out
}

// compareMonitor compares a client's cache with the database for one monitor.
func compareMonitor(w *kit.World, c client.Client, db kit.State, ms monSpec) []string {
	cacheSt := kit.State{}
	for tn := range ms.Tables {
		rows, err := kit.CacheRows(w, c, tn)
		if err != nil {
			return []string{err.Error()}
		}
		cacheSt[tn] = rows
	}
	want := projectState(w.S, db, ms, false)
	got := projectState(w.S, cacheSt, ms, false)
	if ms.Method == ovsdb.MonitorRPC {
		// known finding v1-default-reset: RFC 7047 'update' notifications built by the server omit
		// default-valued columns, so a column that returns to its default is not propagated to a
		// 'monitor'-method client. Columns whose database value is the default are not compared.
		for tn, rows := range want {
			tb := w.S.Table(tn)
			for u, r := range rows {
				for cn, v := range r {
					if tb.Col(cn).IsDefault(v) {
						if g, ok := got[tn][u]; ok {
							g[cn] = v
						}
					}
				}
			}
		}
	}
	return kit.DiffStates(want, got)
}

type monClient struct {
	c     client.Client
	specs []monSpec
}

// TestC01: wire level. A server, a plain writer client and 1-2 monitoring clients with
// 1-2 monitors each (every method, drawn tables and columns, established at drawn
// points of a history of committed transactions, optionally with a notification
// arriving inside the window between the monitor reply and its application).
func TestC01(t *testing.T) {
	rapid.Check(t, func(t *rapid.T) {
		kit.PinUUIDs(1)
		profile := kit.ProfileDB
		if rapid.IntRange(0, 2).Draw(t, "refheavy") == 0 {
			// garbage collection and weak-reference pruning over several rounds need a schema
			// made for it
			profile = kit.ProfileRefs
			kit.Label("C01", "schema:reference-heavy-profile")
		}
		s := kit.GenSchema(t, profile)
		w, err := kit.BuildWorld(s, nil)
		if err != nil {
			t.Fatalf("world: %v", err)
		}
		srv, err := kit.StartServer(w)
		if err != nil {
			t.Fatalf("server: %v", err)
		}
		defer srv.Close()
		ctx, cancel := context.WithTimeout(context.Background(), 120*time.Second)
		defer cancel()
		writer, err := kit.NewClient(w, srv.Endpoint())
		if err != nil {
			t.Fatalf("client: %v", err)
		}
		if err := writer.Connect(ctx); err != nil {
			t.Fatalf("connect: %v", err)
		}
		defer writer.Close()
		n := rapid.IntRange(1, 16).Draw(t, "ntxn")
		nclients := rapid.IntRange(1, 2).Draw(t, "nclients")
		kase := c01Case{Schema: s.JSON()}
		var mcs []*monClient
		for i := 0; i < nclients; i++ {
			c, err := kit.NewClient(w, srv.Endpoint())
			if err != nil {
				t.Fatalf("client: %v", err)
			}
			if err := c.Connect(ctx); err != nil {
				t.Fatalf("connect: %v", err)
			}
			defer c.Close()
			mc := &monClient{c: c, specs: genMonitors(t, s, n)}
			mcs = append(mcs, mc)
			kase.Monitors = append(kase.Monitors, mc.specs)
		}
		fail := func(class, format string, args ...interface{}) {
			kit.Fail(t, "C01", class, kase, format, args...)
		}
		g := kit.NewTxnGen(s, withBig(t, kit.TxnCfg{MaxOps: 3, Named: true, RefBias: true, IndexBias: true, MaxRows: 5}))
		dbState := func() kit.State {
			st, err := srv.Snapshot()
			if err != nil {
				fail("harness", "snapshot: %v", err)
			}
			return st
		}
		// commit runs a generated transaction through the given client; returns whether it committed
		commit := func(c client.Client, who int) bool {
			st := dbState()
			for tries := 0; tries < 4; tries++ {
				ops := g.GenTxn(t, st)
				res, err := kit.TransactOps(ctx, w, c, ops)
				kase.History = append(kase.History, string(kit.OpsJSON(s, ops)))
				kase.Writers = append(kase.Writers, who)
				if err != nil {
					// validation failure on the client side or RPC error: nothing committed
					continue
				}
				ok := true
				for _, r := range res {
					if r.Error != "" {
						ok = false
					}
				}
				if ok {
					return true
				}
			}
			return false
		}
		establish := func(ci, mi int) {
			mc := mcs[ci]
			ms := &mc.specs[mi]
			mon := buildMonitor(w, mc.c, *ms)
			if len(mon.Errors) > 0 {
				fail("harness.monitor", "monitor options rejected: %v", mon.Errors)
			}
			if !ms.Window {
				if _, err := mc.c.Monitor(ctx, mon); err != nil {
					fail("monitor.error", "Monitor(%s %v): %v", ms.Method, ms.Tables, err)
				}
				ms.started = true
				return
			}
			// window schedule: park the monitor goroutine after the reply, let one more transaction
			// commit (its notification is handled by the read loop meanwhile), then release
			parked := make(chan struct{})
			release := make(chan struct{})
			var once sync.Once
			client.SetVerifHook(func(cl client.Client, point string) {
				if cl == mc.c && point == "monitor:reply" {
					once.Do(func() {
						close(parked)
						<-release
					})
				}
			})
			errc := make(chan error, 1)
			go func() {
				_, err := mc.c.Monitor(ctx, mon)
				errc <- err
			}()
			select {
			case <-parked:
			case err := <-errc:
				client.SetVerifHook(nil)
				fail("monitor.error", "Monitor(%s %v): %v", ms.Method, ms.Tables, err)
			case <-time.After(30 * time.Second):
				client.SetVerifHook(nil)
				fail("harness.hook", "monitor:reply pause point not reached")
			}
			// (if the case is abandoned in between - rapid unwinds a case it cannot replay while
			// shrinking - the parked goroutine must not be left holding the client's locks)
			released := false
			defer func() {
				if !released {
					close(release)
					client.SetVerifHook(nil)
				}
			}()
			committed := commit(writer, -1)
			released = true
			close(release)
			client.SetVerifHook(nil)
			select {
			case err := <-errc:
				if err != nil {
					fail("monitor.error", "Monitor(%s %v) with a notification inside the window: %v", ms.Method, ms.Tables, err)
				}
			case <-time.After(30 * time.Second):
				fail("monitor.hang", "Monitor did not return after the pause point was released")
			}
			ms.started = true
			if committed {
				kit.Label("C01", "window:notification-inside")
			}
		}
		check := func(step int, issuer int) {
			db := dbState()
			for ci, mc := range mcs {
				if !mc.c.Connected() {
					fail("client.disconnected", "step %d: monitoring client %d lost its connection (cache inconsistency?)", step, ci)
				}
				for mi, ms := range mc.specs {
					if !ms.started {
						continue
					}
					if d := compareMonitor(w, mc.c, db, ms); len(d) > 0 {
						kase.Step = step
						who := ""
						if issuer == ci {
							who = " (this client issued the transaction: read-your-writes)"
						}
						fail("cache.differs", "step %d: cache of client %d, monitor %d (%s, %v)%s differs from the database:\n%s", step, ci, mi, ms.Method, ms.Tables, who, strings.Join(d, "\n"))
					}
				}
			}
		}
		modsAfterMidMonitor := false
		for i := 0; i <= n; i++ {
			for ci, mc := range mcs {
				for mi := range mc.specs {
					if mc.specs[mi].At == i && !mc.specs[mi].started {
						establish(ci, mi)
					}
				}
			}
			check(i, -1)
			if i == n {
				break
			}
			// sometimes a client that already monitors something makes a Monitor call that fails
			// (a method the client does not know, a request the server refuses): the monitors it
			// has must go on being served
			if rapid.IntRange(0, 3).Draw(t, "failedmonitor") == 0 {
				ci := rapid.IntRange(0, len(mcs)-1).Draw(t, "failedmonitorclient")
				mc := mcs[ci]
				started := false
				for _, ms := range mc.specs {
					started = started || ms.started
				}
				if started {
					tn := s.Tables[rapid.IntRange(0, len(s.Tables)-1).Draw(t, "failedmonitortable")].Name
					mon := mc.c.NewMonitor(client.WithTable(w.NewModel(tn)))
					// (a call given up by its context is not generated: the server may register the
					// monitor all the same and then notifies a monitor the client does not know of)
					how := rapid.SampledFrom([]string{"unsupported-method", "refused-by-server"}).Draw(t, "failedmonitorhow")
					fctx := ctx
					switch how {
					case "unsupported-method":
						mon.Method = "monitor_something_else"
					case "refused-by-server":
						// a condition the server cannot decode
						mon.Method = ovsdb.ConditionalMonitorRPC
						for i := range mon.Tables {
							mon.Tables[i].Conditions = []ovsdb.Condition{{Column: "_uuid", Function: ovsdb.ConditionFunction("~="), Value: ovsdb.UUID{GoUUID: kit.MkUUID(1)}}}
						}
					}
					if _, err := mc.c.Monitor(fctx, mon); err == nil {
						// it was accepted after all: not a failed call, and this table may now be
						// delivered twice to this client (outside the generated domain): stop here
						kit.Label("C01", "failed-monitor:accepted(case ended)")
						break
					}
					kase.History = append(kase.History, fmt.Sprintf("client %d: failed Monitor call (%s) on %s", ci, how, tn))
					kase.Writers = append(kase.Writers, ci)
					kit.Label("C01", "failed-monitor:"+how)
				}
			}
			// the issuer: the writer or one of the monitoring clients
			issuer := rapid.IntRange(-1, len(mcs)-1).Draw(t, "issuer")
			c := writer
			if issuer >= 0 {
				c = mcs[issuer].c
			}
			if commit(c, issuer) {
				for _, mc := range mcs {
					for _, ms := range mc.specs {
						if ms.started && ms.At > 0 {
							modsAfterMidMonitor = true
						}
					}
				}
			}
			check(i, issuer)
		}
		var sig []string
		for _, mc := range mcs {
			for _, ms := range mc.specs {
				sig = append(sig, fmt.Sprintf("%s@%d/%d:%v:%d", ms.Method, ms.At, n, ms.Window, len(ms.Tables)))
			}
		}
		var labels []string
		for _, mc := range mcs {
			for _, ms := range mc.specs {
				labels = append(labels, "method:"+ms.Method)
				if ms.Window {
					labels = append(labels, "schedule:window")
				}
			}
		}
		kit.Record("C01", schemaKinds(s)+strings.Join(sig, ",")+fmt.Sprint(len(kase.History)), modsAfterMidMonitor, func() interface{} { return kase }, labels...)
	})
}

// TestC01Long: one server instance lives through more row changes than any internal
// bounded buffer holds (the cache's event buffer holds 65536 events and the database side
// never drains it): 1000 rows are inserted and then changed 70 times, the monitoring
// client's cache is compared with the database along the way.
func TestC01Long(t *testing.T) {
	w := c16World(t)
	srv, err := kit.StartServer(w)
	if err != nil {
		t.Fatalf("server: %v", err)
	}
	defer srv.Close()
	bg := context.Background()
	c, err := kit.NewClient(w, srv.Endpoint())
	if err != nil {
		t.Fatal(err)
	}
	if err := c.Connect(bg); err != nil {
		t.Fatal(err)
	}
	defer c.Close()
	if _, err := c.MonitorAll(bg); err != nil {
		t.Fatalf("MonitorAll: %v", err)
	}
	writer, err := kit.DialRaw(srv.Sock)
	if err != nil {
		t.Fatal(err)
	}
	defer writer.Close()
	const rows = 1000
	var ins []json.RawMessage
	for i := 0; i < rows; i++ {
		ins = append(ins, json.RawMessage(fmt.Sprintf(`{"op":"insert","table":"T2","row":{"v":%d.5}}`, i)))
	}
	kase := map[string]interface{}{"rows": rows}
	if reply, err := writer.Transact("DB", ins); err != nil || strings.Contains(string(reply), `"error"`) {
		kit.Fail(t, "C01", "long.transact-error", kase, "inserting %d rows: %v %.200s", rows, err, reply)
	}
	compare := func(round int) {
		db, err := srv.Snapshot()
		if err != nil {
			t.Fatalf("snapshot: %v", err)
		}
		cached, err := kit.CacheRows(w, c, "T2")
		if err != nil {
			t.Fatalf("cache: %v", err)
		}
		if d := kit.DiffStates(kit.State{"T2": db["T2"]}, kit.State{"T2": cached}); len(d) > 0 {
			kase["round"] = round
			if len(d) > 6 {
				d = append(d[:6], fmt.Sprintf("... and %d more", len(d)-6))
			}
			kit.Fail(t, "C01", "cache.differs", kase, "after %d row changes on one server the cache differs from the database:\n%s", rows*(round+1), strings.Join(d, "\n"))
		}
	}
	compare(0)
	for round := 1; round <= 70; round++ {
		reply, err := writer.Transact("DB", []json.RawMessage{json.RawMessage(`{"op":"mutate","table":"T2","where":[],"mutations":[["v","+=",1]]}`)})
		if err != nil || !strings.Contains(string(reply), fmt.Sprintf(`"count":%d`, rows)) {
			kase["round"] = round
			kit.Fail(t, "C01", "long.transact-error", kase, "round %d (after %d row changes on this server): %v %.300s", round, rows*round, err, reply)
		}
		if round%10 == 0 || round > 64 {
			compare(round)
		}
	}
	kit.Record("C01", "long-history", true, func() interface{} { return kase }, "long-history:71000-row-changes")
}
