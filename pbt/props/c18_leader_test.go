package props

import (
	"context"
	"encoding/json"
	"fmt"
	"strings"
	"testing"
	"time"

	"github.com/cenkalti/backoff/v4"
	"github.com/ovn-org/libovsdb/client"
	"github.com/ovn-org/libovsdb/model"
	"github.com/ovn-org/libovsdb/ovsdb"
	"github.com/ovn-org/libovsdb/ovsdb/serverdb"
	"pgregory.net/rapid"

	"verif/pbt/kit"
)

type c18LeaderCase struct {
	Steps  []string `json:"serverRowUpdates"`
	After  string   `json:"after,omitempty"`
	Call   string   `json:"call,omitempty"`
	Stacks string   `json:"stacks,omitempty"`
}

// TestC18Leader: a leader-only client (two servers exporting _Server) receives a drawn
// sequence of updates of the servers' Database rows - leadership given up and taken,
// the server id replaced, the database reported as standalone or clustered, the row
// disconnected - in any order, sensible or not. Whatever the client makes of them, every
// API call made afterwards must return within its bound, and once one server reports
// leadership again the client must be usable.
func TestC18Leader(t *testing.T) {
	w := c18World(t)
	cm, err := serverdb.FullDatabaseModel()
	if err != nil {
		t.Fatal(err)
	}
	sdm, errs := model.NewDatabaseModel(serverdb.Schema(), cm)
	if len(errs) > 0 {
		t.Fatal(errs)
	}
	rapid.Check(t, func(t *rapid.T) {
		kase := c18LeaderCase{}
		var servers []*leaderServer
		for i := 0; i < 2; i++ {
			srv, err := kit.StartServer(w, sdm)
			if err != nil {
				t.Fatalf("server: %v", err)
			}
			defer srv.Close()
			p, err := kit.DialRaw(srv.Sock)
			if err != nil {
				t.Fatalf("dial: %v", err)
			}
			defer p.Close()
			ls := &leaderServer{srv: srv, peer: p, sid: kit.MkUUID(7000 + i)}
			rows := []json.RawMessage{
				json.RawMessage(fmt.Sprintf(`{"op":"insert","table":"Database","row":{"name":"DB","model":"clustered","connected":true,"leader":%v,"sid":["uuid","%s"],"cid":["uuid","%s"]}}`, i == 0, ls.sid, kit.MkUUID(7100))),
				json.RawMessage(`{"op":"insert","table":"Database","row":{"name":"_Server","model":"standalone","connected":true,"leader":true}}`),
			}
			if reply, err := p.Transact("_Server", rows); err != nil || strings.Contains(string(reply), "error") {
				t.Fatalf("harness: _Server rows: %s %v", reply, err)
			}
			if _, err := p.Transact("DB", []json.RawMessage{json.RawMessage(fmt.Sprintf(`{"op":"insert","table":"T0","uuid":"%s","row":{"name":"seed","a":%d,"b":%d}}`, kit.MkUUID(1), i, i))}); err != nil {
				t.Fatalf("harness: %v", err)
			}
			servers = append(servers, ls)
		}
		c, err := kit.NewClient(w, servers[0].srv.Endpoint(), client.WithEndpoint(servers[1].srv.Endpoint()), client.WithLeaderOnly(true),
			client.WithReconnect(2*time.Second, backoff.NewConstantBackOff(3*time.Millisecond)))
		if err != nil {
			t.Fatalf("client: %v", err)
		}
		defer func() { go c.Close() }()
		ctx0, cancel0 := context.WithTimeout(context.Background(), 20*time.Second)
		defer cancel0()
		if err := c.Connect(ctx0); err != nil {
			t.Fatalf("harness: Connect: %v", err)
		}
		if _, err := c.Monitor(ctx0, c.NewMonitor(client.WithTable(w.NewModel("T0")))); err != nil {
			t.Fatalf("harness: Monitor: %v", err)
		}
		calls := []struct {
			name string
			fn   func()
		}{
			{"Connected", func() { _ = c.Connected() }},
			{"Echo", func() {
				ctx, cancel := context.WithTimeout(context.Background(), 200*time.Millisecond)
				defer cancel()
				_ = c.Echo(ctx)
			}},
			{"Transact", func() {
				ctx, cancel := context.WithTimeout(context.Background(), 200*time.Millisecond)
				defer cancel()
				_, _ = c.Transact(ctx, ovsdb.Operation{Op: "select", Table: "T0", Where: []ovsdb.Condition{}})
			}},
			{"Get", func() {
				ctx, cancel := context.WithTimeout(context.Background(), 200*time.Millisecond)
				defer cancel()
				_ = c.Get(ctx, w.ModelFromRow("T0", kit.MkUUID(1), kit.Row{}))
			}},
			{"CurrentEndpoint", func() { _ = c.CurrentEndpoint() }},
		}
		probe := func(after string) {
			for _, call := range calls {
				if ok, stacks := watchdog(c18CallBound, call.fn); !ok {
					kase.After, kase.Call, kase.Stacks = after, call.name, stacks
					fmt.Printf("VERIF-HANG %s after %s\n", call.name, after)
					kit.Fail(t, "C18", "liveness.hang", kase, "%s did not return within %v after the server row update %q\n%s", call.name, c18CallBound, after, firstBlocked(stacks))
				}
			}
		}
		update := func(i int, row string) {
			reply, err := servers[i].peer.Transact("_Server", []json.RawMessage{json.RawMessage(`{"op":"update","table":"Database","where":[["name","==","DB"]],"row":` + row + `}`)})
			if err != nil || !strings.Contains(string(reply), `"count":1`) {
				t.Fatalf("harness: update of the _Server row: %s %v", reply, err)
			}
		}
		nextSid := 7200
		for step, n := 0, rapid.IntRange(1, 5).Draw(t, "steps"); step < n; step++ {
			i := rapid.IntRange(0, 1).Draw(t, "server")
			var row string
			switch rapid.SampledFrom([]string{"leader-off", "leader-off", "leader-on", "new-sid", "new-sid", "new-sid+leader-off", "standalone", "clustered", "disconnected", "no-sid"}).Draw(t, "update") {
			case "leader-off":
				row = `{"leader":false}`
			case "leader-on":
				row = `{"leader":true}`
			case "new-sid":
				nextSid++
				row = fmt.Sprintf(`{"sid":["uuid","%s"]}`, kit.MkUUID(nextSid))
			case "new-sid+leader-off":
				nextSid++
				row = fmt.Sprintf(`{"sid":["uuid","%s"],"leader":false}`, kit.MkUUID(nextSid))
			case "standalone":
				row = `{"model":"standalone"}`
			case "clustered":
				row = `{"model":"clustered"}`
			case "disconnected":
				row = `{"connected":false}`
			default:
				row = `{"sid":["set",[]]}`
			}
			desc := fmt.Sprintf("server %d: %s", i, row)
			kase.Steps = append(kase.Steps, desc)
			update(i, row)
			if rapid.Bool().Draw(t, "pause") {
				time.Sleep(time.Duration(rapid.IntRange(1, 20).Draw(t, "pausems")) * time.Millisecond)
			}
			probe(desc)
		}
		// back to a sensible cluster: server 0 leads, server 1 follows
		update(1, fmt.Sprintf(`{"model":"clustered","connected":true,"leader":false,"sid":["uuid","%s"]}`, servers[1].sid))
		update(0, fmt.Sprintf(`{"model":"clustered","connected":true,"leader":true,"sid":["uuid","%s"]}`, servers[0].sid))
		probe("cluster restored")
		var last error
		usable := false
		ok, stacks := watchdog(40*time.Second, func() {
			deadline := time.Now().Add(20 * time.Second)
			for time.Now().Before(deadline) {
				ctx, cancel := context.WithTimeout(context.Background(), 1500*time.Millisecond)
				if !c.Connected() {
					last = c.Connect(ctx)
				}
				if c.Connected() {
					if last = c.Echo(ctx); last == nil {
						usable = true
						cancel()
						return
					}
				}
				cancel()
				time.Sleep(5 * time.Millisecond)
			}
		})
		if !ok {
			kase.After, kase.Call, kase.Stacks = "cluster restored", "Connect/Echo", stacks
			fmt.Printf("VERIF-HANG epilogue after %v\n", kase.Steps)
			kit.Fail(t, "C18", "liveness.hang", kase, "the epilogue (Connect, Echo) did not return\n%s", firstBlocked(stacks))
		}
		if !usable {
			kit.Fail(t, "C18", "liveness.unusable-afterwards", kase, "20 s after server 0 reports leadership again the client cannot connect and echo: %v", last)
		}
		kit.Record("C18", "leader|"+strings.Join(kase.Steps, ";"), true, func() interface{} { return kase }, "leader-only")
	})
}

// TestC18Large: the client's state can be read (Connected, Cache, Rows) while and after a
// cache of 67200 rows - more than the event buffer holds - is rebuilt after a connection
// loss (the history of TestC16Large under the hang watchdog).
func TestC18Large(t *testing.T) { largeResync(t, "C18") }
