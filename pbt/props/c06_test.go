package props

import (
	"testing"

	"pgregory.net/rapid"

	"verif/pbt/kit"
	"verif/pbt/refdb"
)

var cfgC06 = kit.TxnCfg{MaxOps: 3, IndexBias: true, RefBias: true, MaxRows: 5}

func c06After(l *l1, info *stepInfo) ([]string, bool, *mismatch) {
	st, err := l.DB.Snapshot()
	if err != nil {
		return nil, false, mm("state.unreadable", "%v", err)
	}
	if d := refdb.HasDuplicates(l.W.S, st); d != "" {
		return nil, false, mm("index.duplicate-stored", "after the transaction %s", d)
	}
	var labels []string
	nt := false
	if info.Excluded == "" && info.Model.FailedAt < 0 {
		if info.Model.Transient && info.Model.Committed {
			labels = append(labels, "index:transient-duplicate-accepted")
			nt = true
		}
		for _, c := range info.Model.CommitCauses {
			if c == refdb.ErrConstraint {
				labels = append(labels, "index:final-duplicate-rejected")
				nt = true
			}
		}
		if info.Model.GCDeleted > 0 {
			labels = append(labels, "index:with-gc")
		}
	}
	return labels, nt, nil
}

func TestC06(t *testing.T) {
	rapid.Check(t, func(t *rapid.T) {
		p := kit.ProfileIndex
		if rapid.IntRange(0, 2).Draw(t, "refheavy") == 0 {
			// indexes over reference columns: values change by pruning and garbage collection too
			p.Refs, p.MinTables, p.ScalarBias, p.Indexes = 5, 2, 2, 1
		}
		runHistory(t, "C06", p, cfgC06, 20, c06After)
	})
}
