package kit

import (
	"encoding/json"
	"fmt"
	mrand "math/rand"
	"sort"

	"github.com/google/uuid"
	"github.com/ovn-org/libovsdb/database"
	"github.com/ovn-org/libovsdb/database/inmemory"
	"github.com/ovn-org/libovsdb/model"
	"github.com/ovn-org/libovsdb/ovsdb"
	"github.com/ovn-org/libovsdb/server"
)

// DB is the in-memory database of libovsdb driven directly through its public
// API (the "L1" layer: no sockets).
type DB struct {
	W    *World
	DB   database.Database
	Name string
	// Srv serves DB (never listening): its exported Transact handler is the code a
	// real connection runs. ViaServer routes Transact through it instead of through
	// the transcription of that handler below.
	Srv       *server.OvsdbServer
	ViaServer bool
}

// NewDB creates an empty in-memory database for the world's schema.
func NewDB(w *World) (*DB, error) {
	db := inmemory.NewDatabase(map[string]model.ClientDBModel{w.S.Name: w.Client})
	srv, err := server.NewOvsdbServer(db, w.DBModel)
	if err != nil {
		return nil, err
	}
	return &DB{W: w, DB: db, Name: w.S.Name, Srv: srv}, nil
}

// TransactViaServer hands the operations, as JSON texts, to the server's transact
// handler (decode, execute, notify monitors, commit) and reports what a peer would see.
func (d *DB) TransactViaServer(ops []json.RawMessage) TxnOutcome {
	name, _ := json.Marshal(d.Name)
	args := append([]json.RawMessage{name}, ops...)
	var reply []*ovsdb.OperationResult
	err := d.Srv.Transact(nil, args, &reply)
	out := TxnOutcome{Results: reply, ViaServer: true}
	for _, r := range reply {
		if r != nil && r.Error != "" {
			out.Failed = true
		}
	}
	if err != nil {
		out.CommitErr = err
		return out
	}
	out.Committed = !out.Failed
	return out
}

// DecodeOps sends the harness ops through JSON into libovsdb's Operation type,
// exactly as the server decodes a transact request.
func DecodeOps(s Schema, ops []Op) ([]ovsdb.Operation, error) {
	text := OpsJSON(s, ops)
	var raw []json.RawMessage
	if err := json.Unmarshal(text, &raw); err != nil {
		return nil, err
	}
	out := make([]ovsdb.Operation, 0, len(raw))
	for _, r := range raw {
		var op ovsdb.Operation
		if err := json.Unmarshal(r, &op); err != nil {
			return nil, fmt.Errorf("operation %s: %w", r, err)
		}
		out = append(out, op)
	}
	return out, nil
}

// TxnOutcome is what the implementation answered.
type TxnOutcome struct {
	Results   []*ovsdb.OperationResult
	Update    database.Update
	Failed    bool // some result carries an error => server does not commit
	Committed bool
	CommitErr error // error returned by Database.Commit (surfaces as an RPC error)
	ViaServer bool  // produced by the server's transact handler: Update is not available
}

// Transact runs a transaction the way server.Transact does: execute, commit
// unless a result carries an error.
func (d *DB) Transact(ops []ovsdb.Operation) TxnOutcome {
	if d.ViaServer && d.Srv != nil {
		raw := make([]json.RawMessage, 0, len(ops))
		for i := range ops {
			b, err := json.Marshal(ops[i])
			if err != nil {
				return TxnOutcome{CommitErr: fmt.Errorf("harness: operation %d does not encode: %w", i, err)}
			}
			raw = append(raw, b)
		}
		return d.TransactViaServer(raw)
	}
	txn := d.DB.NewTransaction(d.Name)
	results, update := txn.Transact(ops...)
	out := TxnOutcome{Results: results, Update: update}
	for _, r := range results {
		if r == nil {
			continue
		}
		if r.Error != "" {
			out.Failed = true
			return out
		}
	}
	out.CommitErr = d.DB.Commit(d.Name, uuid.New(), update)
	out.Committed = out.CommitErr == nil
	return out
}

// Snapshot reads every table through Database.List and converts by reflection.
func (d *DB) Snapshot() (State, error) {
	st := State{}
	for _, t := range d.W.S.Tables {
		ms, err := d.DB.List(d.Name, t.Name)
		if err != nil {
			return nil, fmt.Errorf("List(%s): %w", t.Name, err)
		}
		rows, err := d.W.RowsFromModels(t.Name, ms)
		if err != nil {
			return nil, err
		}
		st[t.Name] = rows
	}
	return st, nil
}

// RefsKey renders Database.GetReferences for a row canonically (empty lists dropped).
func (d *DB) RefsKey(table, uuid string) (string, error) {
	refs, err := d.DB.GetReferences(d.Name, table, uuid)
	if err != nil {
		return "", err
	}
	var parts []string
	for spec, r := range refs {
		for to, from := range r {
			if len(from) == 0 {
				continue
			}
			f := append([]string{}, from...)
			sort.Strings(f)
			parts = append(parts, fmt.Sprintf("%s.%s/%v->%s:%s:%v", spec.FromTable, spec.FromColumn, spec.FromValue, spec.ToTable, to, f))
		}
	}
	sort.Strings(parts)
	return fmt.Sprint(parts), nil
}

// ResultsJSON renders results for diagnostics.
func ResultsJSON(rs []*ovsdb.OperationResult) string {
	b, _ := json.Marshal(rs)
	return string(b)
}

// PinUUIDs makes github.com/google/uuid (used by libovsdb for server-assigned row
// UUIDs and transaction ids) draw from a deterministic stream, so that a generated
// case is a pure function of its drawn inputs.
func PinUUIDs(seed int64) {
	uuid.SetRand(mrand.New(mrand.NewSource(seed)))
}

// DecodeRawOps decodes operations given as JSON texts.
func DecodeRawOps(raw []json.RawMessage) ([]ovsdb.Operation, error) {
	out := make([]ovsdb.Operation, 0, len(raw))
	for _, r := range raw {
		var op ovsdb.Operation
		if err := json.Unmarshal(r, &op); err != nil {
			return nil, fmt.Errorf("operation %s: %w", r, err)
		}
		out = append(out, op)
	}
	return out, nil
}
