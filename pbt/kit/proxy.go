package kit

import (
	"encoding/json"
	"net"
	"os"
	"path/filepath"
	"strings"
	"sync"
	"time"
)

// Direction of a proxied message.
const (
	C2S = 0 // client to server
	S2C = 1 // server to client
)

// Fault is one planned fault on a proxied connection.
type Fault struct {
	Dir    int    `json:"dir"`  // direction whose k-th message triggers the fault
	K      int    `json:"k"`    // 1-based message index on that connection and direction
	Mode   string `json:"mode"` // "after": forward the message, then cut; "inside": forward half of it, then cut; "before": cut without forwarding; "stall": stop forwarding both ways but keep the sockets open
	Fired  bool   `json:"-"`
	OnConn int    `json:"onConn"` // index of the proxied connection the fault applies to (0 = first)
}

// Proxy is a fault-injecting JSON message forwarder between a client and a server on unix sockets.
type Proxy struct {
	Sock   string
	target string
	dir    string
	ln     net.Listener

	mu      sync.Mutex
	faults  []*Fault
	conns   int
	counts  [][2]int // per connection, messages seen per direction
	stalled []chan struct{}
	closed  bool
	open    []net.Conn
	// methodErrors: requests with these methods are answered by the proxy itself with
	// the given JSON-RPC error (as a server lacking or refusing the method would)
	methodErrors map[string]string
	// tamper, when set, sees every message and may return the messages to forward in its
	// place (nil: forward the message unchanged) and messages to send back to the sender
	// first (as if the other side had just said them)
	tamper func(dir int, raw json.RawMessage) (forward, back []json.RawMessage)
	// AckWhileStalled: a stalled (silent) connection still acknowledges the server's calls,
	// so that libovsdb's server, which waits for every monitor, is not blocked by it
	AckWhileStalled bool
	// down: the endpoint is unreachable (connections are closed as soon as they are accepted)
	down bool
}

// SetDown makes the endpoint unreachable (existing connections are cut) or reachable again.
func (p *Proxy) SetDown(down bool) {
	p.mu.Lock()
	p.down = down
	p.mu.Unlock()
	if down {
		p.CutAll()
	}
}

// SetTamper installs (or removes, with nil) a message rewriting function.
func (p *Proxy) SetTamper(f func(dir int, raw json.RawMessage) []json.RawMessage) {
	if f == nil {
		p.SetTamper2(nil)
		return
	}
	p.SetTamper2(func(dir int, raw json.RawMessage) ([]json.RawMessage, []json.RawMessage) { return f(dir, raw), nil })
}

// SetTamper2 is SetTamper for functions that also talk back to the sender.
func (p *Proxy) SetTamper2(f func(dir int, raw json.RawMessage) (forward, back []json.RawMessage)) {
	p.mu.Lock()
	defer p.mu.Unlock()
	p.tamper = f
}

// SetMethodErrors makes the proxy answer requests of the given methods with an error
// instead of forwarding them (nil: forward everything).
func (p *Proxy) SetMethodErrors(m map[string]string) {
	p.mu.Lock()
	defer p.mu.Unlock()
	p.methodErrors = m
}

// lockedConn serialises writes of the two pumps that may write to the client side.
type lockedConn struct {
	net.Conn
	wmu sync.Mutex
}

func (l *lockedConn) Write(b []byte) (int, error) {
	l.wmu.Lock()
	defer l.wmu.Unlock()
	return l.Conn.Write(b)
}

// StartProxy listens on a fresh unix socket and forwards to target.
func StartProxy(target string) (*Proxy, error) {
	dir, err := os.MkdirTemp("", "verif-proxy-")
	if err != nil {
		return nil, err
	}
	p := &Proxy{Sock: filepath.Join(dir, "proxy.sock"), target: target, dir: dir}
	p.ln, err = net.Listen("unix", p.Sock)
	if err != nil {
		return nil, err
	}
	go p.accept()
	return p, nil
}

// Endpoint is the client endpoint string of the proxy.
func (p *Proxy) Endpoint() string { return "unix:" + p.Sock }

// SetFaults installs the fault plan (indexes count from the next accepted connection = 0).
func (p *Proxy) SetFaults(fs ...Fault) {
	p.mu.Lock()
	defer p.mu.Unlock()
	p.faults = nil
	for i := range fs {
		f := fs[i]
		p.faults = append(p.faults, &f)
	}
	p.conns = 0
	p.counts = nil
}

// AddFault adds a planned fault without disturbing the counters (for faults planned while
// connections are in use).
func (p *Proxy) AddFault(f Fault) {
	p.mu.Lock()
	defer p.mu.Unlock()
	p.faults = append(p.faults, &f)
}

// Counts returns the messages seen per direction on connection i.
func (p *Proxy) Counts(i int) [2]int {
	p.mu.Lock()
	defer p.mu.Unlock()
	if i < len(p.counts) {
		return p.counts[i]
	}
	return [2]int{}
}

// Connections returns how many connections were accepted since SetFaults.
func (p *Proxy) Connections() int {
	p.mu.Lock()
	defer p.mu.Unlock()
	return p.conns
}

// Pending reports whether a planned fault has not fired yet.
func (p *Proxy) Pending() bool {
	p.mu.Lock()
	defer p.mu.Unlock()
	for _, f := range p.faults {
		if !f.Fired {
			return true
		}
	}
	return false
}

// ReleaseStalls lets stalled connections die (closes them).
func (p *Proxy) ReleaseStalls() {
	p.mu.Lock()
	defer p.mu.Unlock()
	for _, ch := range p.stalled {
		select {
		case <-ch:
		default:
			close(ch)
		}
	}
	p.stalled = nil
}

// CutAll closes every open proxied connection (an unplanned reset).
func (p *Proxy) CutAll() {
	p.mu.Lock()
	conns := p.open
	p.open = nil
	p.mu.Unlock()
	for _, c := range conns {
		_ = c.Close()
	}
}

// Close stops the proxy.
func (p *Proxy) Close() {
	p.mu.Lock()
	p.closed = true
	p.mu.Unlock()
	_ = p.ln.Close()
	p.ReleaseStalls()
	p.CutAll()
	_ = os.RemoveAll(p.dir)
}

func (p *Proxy) accept() {
	for {
		rawc, err := p.ln.Accept()
		if err != nil {
			return
		}
		p.mu.Lock()
		down := p.down
		p.mu.Unlock()
		if down {
			_ = rawc.Close()
			continue
		}
		var c net.Conn = &lockedConn{Conn: rawc}
		raws, err := net.Dial("unix", p.target)
		if err != nil {
			_ = c.Close()
			continue
		}
		var s net.Conn = &lockedConn{Conn: raws}
		p.mu.Lock()
		idx := p.conns
		p.conns++
		p.counts = append(p.counts, [2]int{})
		p.open = append(p.open, c, s)
		p.mu.Unlock()
		var once sync.Once
		cut := func() {
			once.Do(func() {
				_ = c.Close()
				_ = s.Close()
			})
		}
		stall := make(chan struct{})
		go p.pump(idx, C2S, c, s, cut, stall)
		go p.pump(idx, S2C, s, c, cut, stall)
	}
}

func (p *Proxy) pump(idx, dir int, from, to net.Conn, cut func(), stall chan struct{}) {
	dec := json.NewDecoder(from)
	for {
		var raw json.RawMessage
		if err := dec.Decode(&raw); err != nil {
			cut()
			return
		}
		p.mu.Lock()
		p.counts[idx][dir]++
		k := p.counts[idx][dir]
		var fault *Fault
		for _, f := range p.faults {
			if !f.Fired && f.OnConn == idx && f.Dir == dir && (f.K == k || f.K == 0) { // K 0: the next message
				f.Fired = true
				fault = f
			}
		}
		stalledNow := false
		select {
		case <-stall:
			stalledNow = true
		default:
		}
		reject := ""
		var rejectID *json.RawMessage
		if dir == C2S && len(p.methodErrors) > 0 {
			var msg struct {
				Method string           `json:"method"`
				ID     *json.RawMessage `json:"id"`
			}
			if json.Unmarshal(raw, &msg) == nil && msg.ID != nil && string(*msg.ID) != "null" {
				if e, ok := p.methodErrors[msg.Method]; ok {
					reject, rejectID = e, msg.ID
				}
			}
		}
		tamper := p.tamper
		p.mu.Unlock()
		if tamper != nil && !stalledNow && fault == nil && reject == "" {
			outs, back := tamper(dir, raw)
			for _, o := range back {
				// a JSON string "sleep:<duration>" in the list is a pause, not a message
				var pause string
				if json.Unmarshal(o, &pause) == nil && strings.HasPrefix(pause, "sleep:") {
					if d, err := time.ParseDuration(strings.TrimPrefix(pause, "sleep:")); err == nil {
						time.Sleep(d)
					}
					continue
				}
				if _, err := from.Write(append(append([]byte{}, o...), '\n')); err != nil {
					cut()
					return
				}
			}
			if outs != nil {
				failed := false
				for _, o := range outs {
					if _, err := to.Write(append(append([]byte{}, o...), '\n')); err != nil {
						failed = true
						break
					}
				}
				if failed {
					cut()
					return
				}
				continue
			}
		}
		if reject != "" && !stalledNow && fault == nil {
			reply, _ := json.Marshal(map[string]interface{}{"id": rejectID, "result": nil, "error": reject})
			if _, err := from.Write(append(reply, '\n')); err != nil {
				cut()
				return
			}
			continue
		}
		if stalledNow {
			if dir == S2C && p.AckWhileStalled {
				var msg struct {
					Method string           `json:"method"`
					ID     *json.RawMessage `json:"id"`
				}
				if json.Unmarshal(raw, &msg) == nil && msg.Method != "" && msg.ID != nil && string(*msg.ID) != "null" {
					ack, _ := json.Marshal(map[string]interface{}{"id": msg.ID, "result": []interface{}{}, "error": nil})
					_, _ = from.Write(append(ack, '\n'))
				}
			}
			continue // swallow
		}
		if fault != nil {
			switch fault.Mode {
			case "before":
				cut()
				return
			case "inside":
				_, _ = to.Write(raw[:len(raw)/2])
				cut()
				return
			case "after":
				_, _ = to.Write(append(raw, '\n'))
				cut()
				return
			case "stall":
				p.mu.Lock()
				close(stall)
				dead := make(chan struct{})
				p.stalled = append(p.stalled, dead)
				p.mu.Unlock()
				go func() {
					<-dead
					cut()
				}()
				continue
			}
		}
		if _, err := to.Write(append(raw, '\n')); err != nil {
			cut()
			return
		}
	}
}
