package kit

import (
	"fmt"
	"os"
	"strconv"
	"strings"
	"sync"
	"time"
)

var memGuardOnce sync.Once

// StartMemGuard watches the resident set of the test process and ends it (exit status 3,
// after a line on stdout) when it exceeds limit bytes. Checks that hand hostile requests
// to the library use it together with InFlight: a request that makes the library allocate
// without bound would otherwise take the machine down long before any answer bound
// expires. The case in flight is then the reproduction.
func StartMemGuard(limit uint64) {
	memGuardOnce.Do(func() {
		page := uint64(os.Getpagesize())
		go func() {
			for {
				time.Sleep(50 * time.Millisecond)
				b, err := os.ReadFile("/proc/self/statm")
				if err != nil {
					return
				}
				f := strings.Fields(string(b))
				if len(f) < 2 {
					return
				}
				pages, _ := strconv.ParseUint(f[1], 10, 64)
				if rss := pages * page; rss > limit {
					fmt.Printf("VERIF-MEMORY: resident set %d MB exceeds the guard of %d MB: the case in flight makes the library allocate without bound\n", rss>>20, limit>>20)
					os.Exit(3)
				}
			}
		}()
	})
}
