package kit

import (
	"bytes"
	"encoding/json"
	"fmt"
	"sort"

	"pgregory.net/rapid"
)

// Hostile JSON fragments that replace nodes of valid encodings.
var hostileNodes = []string{
	`null`, `0`, `1`, `-1`, `1.5`, `1e400`, `9223372036854775808`, `true`, `false`, `""`, `"x"`, `"set"`, `"map"`, `"uuid"`, `"named-uuid"`,
	`[]`, `{}`, `[[]]`, `[null]`, `["set"]`, `["map"]`, `["uuid"]`, `["named-uuid"]`, `["set",1]`, `["set",null]`, `["set",{}]`, `["set","x"]`,
	`["set",[]]`, `["set",[[]]]`, `["set",[null]]`, `["set",[["uuid"]]]`, `["set",[["set",[]]]]`, `["map",1]`, `["map",null]`, `["map",[[1]]]`,
	`["map",[1]]`, `["map",[[]]]`, `["map",[null]]`, `["map",[[1,2,3]]]`, `["map",[[["set",[]],1]]]`, `["map",[[["map",[]],1]]]`,
	`["map",[[[],1]]]`, `["map",[[1,[]]]]`, `["map",[[["uuid"],1]]]`, `["map",[[1,["uuid"]]]]`, `["uuid",1]`, `["uuid",null]`, `["uuid",[]]`,
	`["named-uuid",1]`, `["uuid","x","y"]`, `[1,2]`, `[1,2,3]`, `["x","==",1]`, `[1,"==",1]`, `["x",1,1]`, `["x","??",1]`,
	`{"type":{}}`, `{"type":null}`, `{"type":{"key":null}}`, `{"type":{"key":{}}}`, `{"type":{"key":{"type":"string","enum":[]}}}`,
	`{"type":{"key":{"type":"string","enum":["set"]}}}`, `{"type":{"key":{"type":"string","enum":["set",1]}}}`, `{"type":{"key":"integer","max":"x"}}`,
	`{"type":{"key":"integer","value":null,"min":null,"max":null}}`, `{"type":"bogus"}`, `{"columns":null}`, `{"columns":{"a":null}}`,
}

func bytesReader(b []byte) *bytes.Reader { return bytes.NewReader(b) }

type jsonPath []interface{} // string (object member) or int (array index)

func collectPaths(x interface{}, cur jsonPath, out *[]jsonPath) {
	cp := append(jsonPath{}, cur...)
	*out = append(*out, cp)
	switch v := x.(type) {
	case map[string]interface{}:
		keys := make([]string, 0, len(v))
		for k := range v {
			keys = append(keys, k)
		}
		sort.Strings(keys)
		for _, k := range keys {
			collectPaths(v[k], append(cur, k), out)
		}
	case []interface{}:
		for i := range v {
			collectPaths(v[i], append(cur, i), out)
		}
	}
}

// rewrite returns a copy of x with f applied to the node at path; f returns
// (replacement, delete).
func rewrite(x interface{}, path jsonPath, f func(interface{}) (interface{}, bool)) (interface{}, bool) {
	if len(path) == 0 {
		return f(x)
	}
	switch v := x.(type) {
	case map[string]interface{}:
		k := path[0].(string)
		out := make(map[string]interface{}, len(v))
		for kk, vv := range v {
			out[kk] = vv
		}
		nv, del := rewrite(v[k], path[1:], f)
		if del {
			delete(out, k)
		} else {
			out[k] = nv
		}
		return out, false
	case []interface{}:
		i := path[0].(int)
		out := append([]interface{}{}, v...)
		nv, del := rewrite(v[i], path[1:], f)
		if del {
			out = append(out[:i], out[i+1:]...)
		} else {
			out[i] = nv
		}
		return out, false
	}
	return x, false
}

// CorruptJSON applies 1..n structural corruptions to a valid JSON text and returns
// the corrupted text together with a short description. protect lists object
// member names that must not be touched (nor anything below them).
func CorruptJSON(t *rapid.T, text []byte, n int, protect map[string]bool) ([]byte, []string) {
	var tree interface{}
	dec := json.NewDecoder(bytesReader(text))
	dec.UseNumber()
	if err := dec.Decode(&tree); err != nil {
		return text, []string{"unparsed"}
	}
	var desc []string
	k := rapid.IntRange(1, n).Draw(t, "ncorrupt")
	for c := 0; c < k; c++ {
		var all []jsonPath
		collectPaths(tree, nil, &all)
		var paths []jsonPath
	next:
		for _, p := range all {
			for _, e := range p {
				if s, ok := e.(string); ok && protect[s] {
					continue next
				}
			}
			paths = append(paths, p)
		}
		if len(paths) == 0 {
			break
		}
		p := paths[rapid.IntRange(0, len(paths)-1).Draw(t, "node")]
		kind := rapid.IntRange(0, 10).Draw(t, "corruption")
		switch {
		case kind == 10:
			// an array grows: its elements are repeated until it has some dozens of
			// them (many conditions, mutations, operations, set elements, map pairs)
			var arrays []jsonPath
			for _, q := range paths {
				if v, ok := nodeAt(tree, q).([]interface{}); ok && len(v) > 0 {
					arrays = append(arrays, q)
				}
			}
			if len(arrays) == 0 {
				continue
			}
			q := arrays[rapid.IntRange(0, len(arrays)-1).Draw(t, "arraynode")]
			size := rapid.SampledFrom([]int{9, 17, 24, 33, 48, 63, 65, 130}).Draw(t, "amplify")
			tree, _ = rewrite(tree, q, func(x interface{}) (interface{}, bool) {
				v := x.([]interface{})
				out := make([]interface{}, 0, size)
				for len(out) < size {
					out = append(out, v[len(out)%len(v)])
				}
				return out, false
			})
			desc = append(desc, fmt.Sprintf("amplify:%d", size))
		case kind <= 2:
			h := rapid.SampledFrom(hostileNodes).Draw(t, "hostile")
			var hv interface{}
			d := json.NewDecoder(bytesReader([]byte(h)))
			d.UseNumber()
			_ = d.Decode(&hv)
			tree, _ = rewrite(tree, p, func(interface{}) (interface{}, bool) { return hv, false })
			desc = append(desc, "replace:"+h)
		case kind == 3 && len(p) > 0:
			tree, _ = rewrite(tree, p, func(interface{}) (interface{}, bool) { return nil, true })
			desc = append(desc, "drop")
		case kind == 4:
			tree, _ = rewrite(tree, p, func(x interface{}) (interface{}, bool) {
				switch v := x.(type) {
				case []interface{}:
					if len(v) > 0 {
						return v[:len(v)-1], false
					}
					return []interface{}{nil}, false
				case map[string]interface{}:
					return []interface{}{}, false
				case string:
					return json.Number("7"), false
				case json.Number:
					return v.String(), false
				case bool:
					return "true", false
				}
				return []interface{}{}, false
			})
			desc = append(desc, "retype")
		case kind == 5:
			tree, _ = rewrite(tree, p, func(x interface{}) (interface{}, bool) {
				if v, ok := x.([]interface{}); ok && len(v) > 0 {
					return append(append([]interface{}{}, v...), v[0]), false
				}
				if s, ok := x.(string); ok {
					switch s {
					case "set":
						return "map", false
					case "map":
						return "uuid", false
					case "uuid":
						return "set", false
					case "named-uuid":
						return "uuid", false
					}
					return "set", false
				}
				return []interface{}{x}, false
			})
			desc = append(desc, "dup/swap")
		case kind == 9:
			// an operation becomes another kind of operation and keeps its members: members
			// the new kind requires are missing, members of a sibling kind are present
			var opNodes []jsonPath
			for _, q := range paths {
				if len(q) > 0 && q[len(q)-1] == "op" {
					if _, ok := nodeAt(tree, q).(string); ok {
						opNodes = append(opNodes, q)
					}
				}
			}
			if len(opNodes) == 0 {
				continue
			}
			q := opNodes[rapid.IntRange(0, len(opNodes)-1).Draw(t, "opnode")]
			name := rapid.SampledFrom([]string{"insert", "select", "update", "mutate", "delete", "wait", "commit", "abort", "comment", "assert"}).Draw(t, "opname")
			tree, _ = rewrite(tree, q, func(x interface{}) (interface{}, bool) { return name, false })
			desc = append(desc, "op-becomes:"+name)
		case kind >= 7:
			// a number becomes a degenerate number of the other kind: fractions that
			// truncate to zero, negative zero, values beyond int64
			var nums []jsonPath
			for _, q := range paths {
				if _, ok := nodeAt(tree, q).(json.Number); ok {
					nums = append(nums, q)
				}
			}
			if len(nums) == 0 {
				continue
			}
			q := nums[rapid.IntRange(0, len(nums)-1).Draw(t, "numnode")]
			num := rapid.SampledFrom([]string{"0.5", "-0.25", "1e-9", "0.0", "-0.0", "0.9999999999999999", "1e-400", "0", "2.5", "1e19", "-1e19"}).Draw(t, "degenerate")
			tree, _ = rewrite(tree, q, func(x interface{}) (interface{}, bool) { return json.Number(num), false })
			desc = append(desc, "degenerate-number:"+num)
		default:
			num := rapid.SampledFrom([]string{"0", "-0", "1e308", "-9223372036854775808", "9223372036854775807", "0.1", "1e-400", "18446744073709551616"}).Draw(t, "num")
			tree, _ = rewrite(tree, p, func(x interface{}) (interface{}, bool) { return json.Number(num), false })
			desc = append(desc, "num:"+num)
		}
	}
	out, err := json.Marshal(tree)
	if err != nil {
		return text, []string{"unserialisable"}
	}
	return out, desc
}

// nodeAt returns the node at path (nil if absent).
func nodeAt(x interface{}, path jsonPath) interface{} {
	for _, e := range path {
		switch v := x.(type) {
		case map[string]interface{}:
			k, ok := e.(string)
			if !ok {
				return nil
			}
			x = v[k]
		case []interface{}:
			i, ok := e.(int)
			if !ok || i < 0 || i >= len(v) {
				return nil
			}
			x = v[i]
		default:
			return nil
		}
	}
	return x
}

// HostileNodes exposes the hostile constants.
func HostileNodes() []string { return hostileNodes }
