package kit

import (
	"fmt"
	"sort"

	"pgregory.net/rapid"
)

// TxnCfg steers transaction generation.
type TxnCfg struct {
	MaxOps int
	// MayReject enables (rarely) the forms the implementation documents as
	// unsupported (tolerance classes).
	MayReject bool
	// Invalid enables (rarely) ill-typed forms that RFC 7047 rejects too.
	Invalid bool
	// Named enables uuid-name on inserts and symbolic references.
	Named bool
	// ZeroDivisors allows /= 0 and %= 0.
	ZeroDivisors bool
	// SelectColumns allows "columns" on select (excluded while the known finding is open).
	SelectColumns bool
	// WaitFull allows wait forms outside the domain where the implementation agrees with RFC 7047.
	WaitFull bool
	// NoDangling never references rows that do not exist.
	NoDangling bool
	// OmitUUID lets some inserts omit "uuid" (server-assigned).
	OmitUUID bool
	// Wide draws some values from the full range.
	Wide bool
	// RefBias adds composite insert-and-attach transactions.
	RefBias bool
	// IndexBias adds swap / hand-over transactions on indexed columns.
	IndexBias bool
	// MaxRows softly bounds table sizes.
	MaxRows int
	// NameClash lets two inserts of a transaction claim the same uuid-name.
	NameClash bool
	// NameBias raises the share of named inserts.
	NameBias bool
	// Big switches the value generators to the Big mode (see Pool.Big) and adds fan-in
	// composites (dozens of rows referring to one row).
	Big bool
	// SharedUUIDs lets an insert (rarely) take the uuid of a row of another table: uuids
	// identify rows per table only.
	SharedUUIDs bool
}

// TxnGen holds generator state across a history.
type TxnGen struct {
	S    Schema
	Cfg  TxnCfg
	Next int // next fresh uuid number
	// Excluded counts shapes excluded by construction because of known findings.
	Excluded map[string]int

	nameTable map[string]string
}

func NewTxnGen(s Schema, cfg TxnCfg) *TxnGen {
	if cfg.MaxOps == 0 {
		cfg.MaxOps = 4
	}
	if cfg.MaxRows == 0 {
		cfg.MaxRows = 6
	}
	return &TxnGen{S: s, Cfg: cfg, Next: 1, Excluded: map[string]int{}}
}

func (g *TxnGen) fresh() string {
	u := MkUUID(g.Next)
	g.Next++
	return u
}

func (g *TxnGen) pool(st State, extra map[string][]string, names []string) *Pool {
	p := &Pool{RowUUIDs: map[string][]string{}, Names: names, NameTable: g.nameTable, Wide: g.Cfg.Wide, NoDangling: g.Cfg.NoDangling, Big: g.Cfg.Big}
	for _, t := range g.S.Tables {
		p.RowUUIDs[t.Name] = append(SortedUUIDs(st[t.Name]), extra[t.Name]...)
	}
	p.Dangling = []string{MkUUID(700001), MkUUID(700002)}
	return p
}

// mutableCols lists the columns an update can change.
func mutableCols(t Table) []Col {
	var out []Col
	for _, c := range t.Cols {
		if !c.Immutable {
			out = append(out, c)
		}
	}
	return out
}

// GenConds draws a where clause for a table against the current rows.
func (g *TxnGen) GenConds(t *rapid.T, tb Table, rows Rows, pool *Pool) []Cond {
	uuids := SortedUUIDs(rows)
	switch k := rapid.IntRange(0, 9).Draw(t, "wherekind"); {
	case k <= 3 && len(uuids) > 0:
		return []Cond{{Col: "_uuid", Fn: "==", Val: Scalar(UUID(rapid.SampledFrom(uuids).Draw(t, "whereuuid")))}}
	case k == 4:
		return []Cond{}
	case k == 5:
		cands := append(append([]string{}, uuids...), pool.Dangling...)
		cands = append(cands, pool.Names...)
		fn := rapid.SampledFrom([]string{"==", "!=", "includes", "excludes"}).Draw(t, "uuidfn")
		return []Cond{{Col: "_uuid", Fn: fn, Val: Scalar(UUID(rapid.SampledFrom(cands).Draw(t, "whereuuid")))}}
	}
	n := rapid.IntRange(1, 3).Draw(t, "nconds")
	var out []Cond
	for i := 0; i < n; i++ {
		out = append(out, g.GenCond(t, tb, rows, pool))
	}
	if len(uuids) > 0 && rapid.IntRange(0, 3).Draw(t, "mixuuid") == 0 {
		// a _uuid condition next to column conditions (possibly naming another row than
		// the one the column values come from: a legal where that selects nothing)
		c := Cond{Col: "_uuid", Fn: "==", Val: Scalar(UUID(rapid.SampledFrom(uuids).Draw(t, "whereuuid")))}
		if rapid.Bool().Draw(t, "uuidfirst") {
			out = append([]Cond{c}, out...)
		} else {
			out = append(out, c)
		}
	}
	return out
}

// GenCond draws one condition on a regular column.
func (g *TxnGen) GenCond(t *rapid.T, tb Table, rows Rows, pool *Pool) Cond {
	c := tb.Cols[rapid.IntRange(0, len(tb.Cols)-1).Draw(t, "condcol")]
	uuids := SortedUUIDs(rows)
	// argument: an existing value of that column, a sub/superset of it, or a fresh one
	var arg Val
	if len(uuids) > 0 && rapid.IntRange(0, 9).Draw(t, "fromrow") < 6 {
		arg = rows[rapid.SampledFrom(uuids).Draw(t, "condrow")][c.Name].Clone()
		if c.Shape() == ShSet || c.Shape() == ShMap {
			switch rapid.IntRange(0, 3).Draw(t, "argmod") {
			case 0: // drop one element
				if len(arg.K) > 0 {
					arg = arg.Without(arg.K[rapid.IntRange(0, len(arg.K)-1).Draw(t, "dropelem")])
				}
			case 1: // add one element
				if c.Shape() == ShSet {
					arg = arg.With(GenAtom(t, c.Key, pool))
				} else {
					arg = arg.WithPair(GenAtom(t, c.Key, pool), GenAtom(t, *c.Value, pool))
				}
			}
		}
	} else {
		arg = GenVal(t, c, pool)
		if (c.Shape() == ShSet || c.Shape() == ShMap) && rapid.IntRange(0, 4).Draw(t, "emptyarg") == 0 {
			arg = c.Default()
		}
	}
	if hasZeroUUID(arg) {
		// an unset scalar uuid column is "" natively, not the all-zero uuid of RFC 7047:
		// the harness never names the all-zero uuid explicitly (representation, see DESIGN 2.4)
		arg = GenVal(t, c, pool)
	}
	var fns []string
	switch {
	case c.Shape() == ShScalar && (c.Key.T == TInt || c.Key.T == TReal):
		fns = []string{"==", "!=", "<", "<=", ">", ">=", "includes", "excludes"}
	case c.Shape() == ShOpt:
		fns = []string{"==", "==", "!="}
		if g.Cfg.MayReject && rapid.IntRange(0, 9).Draw(t, "mayreject") == 0 {
			fns = []string{"includes", "excludes"}
		}
	default:
		fns = []string{"==", "!=", "includes", "excludes"}
	}
	cond := Cond{Col: c.Name, Fn: rapid.SampledFrom(fns).Draw(t, "fn"), Val: arg}
	if c.Shape() != ShScalar && len(arg.K) == 1 && !arg.M {
		cond.Bare = rapid.Bool().Draw(t, "bare")
	}
	return cond
}

// GenMutation draws a mutation for a column.
func (g *TxnGen) GenMutation(t *rapid.T, c Col, cur *Val, pool *Pool) Mut {
	num := c.Key.T == TInt || c.Key.T == TReal
	arithArg := func() Val {
		if c.Key.T == TInt {
			vals := []int64{1, 2, 3, -1, -2}
			if g.Cfg.ZeroDivisors {
				vals = append(vals, 0)
			}
			return Scalar(Int(rapid.SampledFrom(vals).Draw(t, "arithint")))
		}
		vals := []float64{1, 2, 0.5, -1.5}
		if g.Cfg.ZeroDivisors {
			vals = append(vals, 0)
		}
		return Scalar(Real(rapid.SampledFrom(vals).Draw(t, "arithreal")))
	}
	intOps := []string{"+=", "-=", "*=", "/=", "%="}
	realOps := []string{"+=", "-=", "*=", "/="}
	ops := intOps
	if c.Key.T == TReal {
		ops = realOps
	}
	subsetOf := func(v Val) Val {
		out := Val{M: v.M, K: []Atom{}}
		if v.M {
			out.V = []Atom{}
		}
		for i, k := range v.K {
			if rapid.Bool().Draw(t, "keep") {
				out.K = append(out.K, k)
				if v.M {
					out.V = append(out.V, v.V[i])
				}
			}
		}
		return out
	}
	switch c.Shape() {
	case ShScalar:
		if num && len(c.Key.Enum) == 0 {
			m := Mut{Col: c.Name, Mutator: rapid.SampledFrom(ops).Draw(t, "mutator"), Val: arithArg()}
			if g.Cfg.Invalid && c.Key.T == TReal && rapid.IntRange(0, 29).Draw(t, "realmod") == 0 {
				m.Mutator = "%="
			}
			return m
		}
		// strings, booleans, uuids and enums cannot be mutated: expected error (or tolerance for enums)
		if num {
			return Mut{Col: c.Name, Mutator: rapid.SampledFrom(ops).Draw(t, "mutator"), Val: arithArg()}
		}
		return Mut{Col: c.Name, Mutator: rapid.SampledFrom([]string{"insert", "delete", "+="}).Draw(t, "mutator"), Val: GenVal(t, c, pool)}
	case ShOpt:
		if num && rapid.Bool().Draw(t, "optarith") {
			return Mut{Col: c.Name, Mutator: rapid.SampledFrom(ops).Draw(t, "mutator"), Val: arithArg()}
		}
		return Mut{Col: c.Name, Mutator: rapid.SampledFrom([]string{"insert", "delete"}).Draw(t, "mutator"), Val: GenVal(t, c, pool)}
	case ShSet:
		if num && g.Cfg.MayReject && len(c.Key.Enum) == 0 && rapid.IntRange(0, 9).Draw(t, "setarith") == 0 {
			return Mut{Col: c.Name, Mutator: rapid.SampledFrom(ops).Draw(t, "mutator"), Val: arithArg()}
		}
		m := Mut{Col: c.Name, Mutator: rapid.SampledFrom([]string{"insert", "delete"}).Draw(t, "mutator")}
		// argument: fresh elements, or part of the current value (so that deletes hit)
		if cur != nil && len(cur.K) > 0 && rapid.Bool().Draw(t, "fromcur") {
			m.Val = subsetOf(*cur)
			if pool != nil && pool.Big && rapid.Bool().Draw(t, "bigwhole") {
				// the whole current value and a few fresh elements
				m.Val = cur.Clone()
				for i, n := 0, rapid.IntRange(0, 3).Draw(t, "bigfresh"); i < n; i++ {
					m.Val = m.Val.With(GenAtom(t, c.Key, pool))
				}
			}
			if rapid.Bool().Draw(t, "plusfresh") {
				m.Val = m.Val.With(GenAtom(t, c.Key, pool))
			}
		} else {
			n := rapid.IntRange(0, 3).Draw(t, "nelems")
			if pool != nil && pool.Big && rapid.Bool().Draw(t, "bigarg") {
				n = rapid.SampledFrom(bigSizes).Draw(t, "bignelems")
			}
			m.Val = EmptySet()
			for i := 0; i < n; i++ {
				m.Val = m.Val.With(GenAtom(t, c.Key, pool))
			}
		}
		if len(m.Val.K) == 1 {
			m.Bare = rapid.Bool().Draw(t, "bare")
		}
		if cur != nil && len(cur.K)*len(m.Val.K) > 4096 {
			Label("generator", "mutate:set-size-product>4096:"+m.Mutator)
		}
		return m
	default:
		m := Mut{Col: c.Name, Mutator: rapid.SampledFrom([]string{"insert", "delete", "delete"}).Draw(t, "mutator")}
		if cur != nil && len(cur.K) > 0 && rapid.Bool().Draw(t, "fromcur") {
			m.Val = subsetOf(*cur)
			// change one value so that insert keeps / delete-by-pair misses
			if len(m.Val.K) > 0 && rapid.Bool().Draw(t, "changeval") {
				i := rapid.IntRange(0, len(m.Val.K)-1).Draw(t, "which")
				m.Val = m.Val.WithPair(m.Val.K[i], GenAtom(t, *c.Value, pool))
			}
			if rapid.Bool().Draw(t, "plusfresh") {
				m.Val = m.Val.WithPair(GenAtom(t, c.Key, pool), GenAtom(t, *c.Value, pool))
			}
		} else {
			n := rapid.IntRange(0, 3).Draw(t, "npairs")
			if pool != nil && pool.Big && rapid.Bool().Draw(t, "bigarg") {
				n = rapid.SampledFrom(bigSizes).Draw(t, "bignpairs")
			}
			m.Val = EmptyMap()
			for i := 0; i < n; i++ {
				m.Val = m.Val.WithPair(GenAtom(t, c.Key, pool), GenAtom(t, *c.Value, pool))
			}
		}
		if m.Mutator == "delete" && rapid.Bool().Draw(t, "bykeys") {
			m.Val = SetOf(m.Val.K...)
			if len(m.Val.K) == 1 {
				m.Bare = rapid.Bool().Draw(t, "bare")
			}
		}
		return m
	}
}

// mutationSupported says whether the implementation documents support for
// mutating this column kind (everything else is a may-reject class or an RFC error).
func mutationSupported(c Col) bool {
	if len(c.Key.Enum) > 0 || c.Immutable {
		return false
	}
	switch c.Shape() {
	case ShScalar:
		return c.Key.T == TInt || c.Key.T == TReal
	case ShOpt:
		return false
	}
	return true
}

// GenInsert draws an insert into tb.
func (g *TxnGen) GenInsert(t *rapid.T, tb Table, pool *Pool, name string) Op {
	op := Op{Op: "insert", Table: tb.Name, Row: Row{}, UUIDName: name}
	for _, c := range tb.Cols {
		must := c.Shape() == ShScalar && c.Key.T == TUUID && c.Key.Ref != nil
		if must || rapid.IntRange(0, 2).Draw(t, "col?") > 0 {
			op.Row[c.Name] = GenVal(t, c, pool)
		}
	}
	if !g.Cfg.OmitUUID || rapid.IntRange(0, 9).Draw(t, "explicituuid") > 0 {
		op.UUID = g.fresh()
		if g.Cfg.SharedUUIDs && pool != nil && rapid.IntRange(0, 5).Draw(t, "shareduuid") == 0 {
			own := map[string]bool{}
			for _, u := range pool.RowUUIDs[tb.Name] {
				own[u] = true
			}
			var cands []string
			for _, other := range g.S.Tables {
				if other.Name == tb.Name {
					continue
				}
				for _, u := range pool.RowUUIDs[other.Name] {
					if !own[u] && IsUUID(u) {
						cands = append(cands, u)
					}
				}
			}
			sort.Strings(cands)
			if len(cands) > 0 {
				op.UUID = rapid.SampledFrom(cands).Draw(t, "shareduuidof")
				Label("generator", "insert:uuid-of-a-row-of-another-table")
			}
		}
	}
	op.Bare = rapid.Bool().Draw(t, "barerow")
	return op
}

// GenTxn draws one transaction against the reference state st.
func (g *TxnGen) GenTxn(t *rapid.T, st State) []Op {
	ops := g.genTxn(t, st)
	dedupeNames(ops)
	scrubZeroUUID(ops)
	return ops
}

// scrubZeroUUID removes explicit mentions of the all-zero uuid: libovsdb keeps an unset
// scalar uuid column as "" natively, which the harness reads as RFC 7047's default
// (all-zero) uuid; writing that uuid explicitly is outside the generated domain.
func scrubZeroUUID(ops []Op) {
	for i := range ops {
		for k, v := range ops[i].Row {
			if hasZeroUUID(v) {
				delete(ops[i].Row, k)
			}
		}
		for _, r := range ops[i].Rows {
			for k, v := range r {
				if hasZeroUUID(v) {
					delete(r, k)
				}
			}
		}
		var where []Cond
		for _, c := range ops[i].Where {
			if !hasZeroUUID(c.Val) {
				where = append(where, c)
			}
		}
		if len(where) != len(ops[i].Where) {
			if where == nil {
				where = []Cond{}
			}
			ops[i].Where = where
		}
		var muts []Mut
		for _, m := range ops[i].Mutations {
			if !hasZeroUUID(m.Val) {
				muts = append(muts, m)
			}
		}
		if len(muts) != len(ops[i].Mutations) {
			ops[i].Mutations = muts
		}
	}
}

func (g *TxnGen) genTxn(t *rapid.T, st State) []Op {
	g.nameTable = map[string]string{}
	nops := rapid.IntRange(1, g.Cfg.MaxOps).Draw(t, "nops")
	// decide op kinds and names up front so that names can be used before their definition
	kinds := make([]string, nops)
	tables := make([]Table, nops)
	var names []string
	opName := make([]string, nops)
	total := 0
	for _, tb := range g.S.Tables {
		total += len(st[tb.Name])
	}
	for i := range kinds {
		tb := g.S.Tables[rapid.IntRange(0, len(g.S.Tables)-1).Draw(t, "optable")]
		tables[i] = tb
		w := []string{"insert", "insert", "select", "update", "update", "mutate", "mutate", "delete", "wait"}
		if len(st[tb.Name]) < 2 {
			w = append(w, "insert", "insert", "insert")
		}
		if len(st[tb.Name]) >= g.Cfg.MaxRows {
			w = []string{"select", "update", "update", "mutate", "mutate", "delete", "delete", "wait"}
		}
		kinds[i] = rapid.SampledFrom(w).Draw(t, "opkind")
		nameOdds := 2
		if g.Cfg.NameBias {
			nameOdds = 0
			if len(names) == 0 && i == nops-1 {
				kinds[i] = "insert"
			}
		}
		if kinds[i] == "insert" && g.Cfg.Named && rapid.IntRange(0, nameOdds).Draw(t, "named") == 0 {
			if g.Cfg.NameClash && len(names) > 0 && rapid.IntRange(0, 7).Draw(t, "clash") == 0 {
				opName[i] = names[0]
				g.Excluded["name-clash-generated"] += 0
			} else {
				opName[i] = fmt.Sprintf("n%d", len(names))
				if g.Cfg.NameBias {
					// legal <id>s of other spellings: upper-case letters, and exactly as long as a uuid
					switch rapid.IntRange(0, 3).Draw(t, "nameform") {
					case 1:
						opName[i] = fmt.Sprintf("Row_N%d", len(names))
						Label("generator", "name:upper-case")
					case 2:
						opName[i] = fmt.Sprintf("row_%032x", len(names))
						Label("generator", "name:36-characters")
					}
				}
				names = append(names, opName[i])
				g.nameTable[opName[i]] = tb.Name
			}
		}
	}
	if g.Cfg.Big && rapid.IntRange(0, 2).Draw(t, "bigmutate") == 0 {
		if ops := g.genBigMutate(t, st); ops != nil {
			return ops
		}
	}
	if g.Cfg.Big && rapid.IntRange(0, 3).Draw(t, "fanin") == 0 {
		if ops := g.genFanIn(t, st); ops != nil {
			return ops
		}
	}
	if g.Cfg.RefBias && rapid.IntRange(0, 5).Draw(t, "chain") == 0 {
		if ops := g.genChain(t, st); ops != nil {
			return ops
		}
	}
	if g.Cfg.RefBias && rapid.IntRange(0, 5).Draw(t, "collapse") == 0 {
		if ops := g.genCollapse(t, st); ops != nil {
			return ops
		}
	}
	if g.Cfg.RefBias && rapid.IntRange(0, 2).Draw(t, "composite") == 0 {
		if ops := g.genAttach(t, st); ops != nil {
			return ops
		}
	}
	if g.Cfg.IndexBias && g.Cfg.RefBias && rapid.IntRange(0, 3).Draw(t, "replacechild") == 0 {
		if ops := g.genReplaceChild(t, st); ops != nil {
			return ops
		}
	}
	if g.Cfg.IndexBias && rapid.IntRange(0, 2).Draw(t, "indexcomposite") == 0 {
		if ops := g.genIndexShuffle(t, st); ops != nil {
			return ops
		}
	}
	inserted := map[string][]string{}
	// working copy of rows (only for choosing targets; exact effects are the model's business)
	var ops []Op
	for i := range kinds {
		tb := tables[i]
		pool := g.pool(st, inserted, names)
		rows := st[tb.Name]
		switch kinds[i] {
		case "insert":
			op := g.GenInsert(t, tb, pool, opName[i])
			if op.UUID != "" {
				inserted[tb.Name] = append(inserted[tb.Name], op.UUID)
			}
			ops = append(ops, op)
		case "select":
			op := Op{Op: "select", Table: tb.Name, Where: g.GenConds(t, tb, rows, pool)}
			if rapid.IntRange(0, 2).Draw(t, "selcols") == 0 {
				if g.Cfg.SelectColumns {
					op.HasColumns = true
					op.Columns = g.genColumns(t, tb, true)
				} else {
					g.Excluded["select-columns"]++
				}
			}
			ops = append(ops, op)
		case "update":
			op := Op{Op: "update", Table: tb.Name, Where: g.GenConds(t, tb, rows, pool), Row: Row{}}
			cols := mutableCols(tb)
			if g.Cfg.Invalid && rapid.IntRange(0, 19).Draw(t, "touchimmutable") == 0 {
				cols = tb.Cols
			}
			if len(cols) == 0 {
				cols = tb.Cols
			}
			n := rapid.IntRange(1, 3).Draw(t, "nupd")
			for j := 0; j < n; j++ {
				c := cols[rapid.IntRange(0, len(cols)-1).Draw(t, "updcol")]
				op.Row[c.Name] = GenVal(t, c, pool)
			}
			op.Bare = rapid.Bool().Draw(t, "barerow")
			ops = append(ops, op)
		case "mutate":
			op := Op{Op: "mutate", Table: tb.Name, Where: g.GenConds(t, tb, rows, pool)}
			var cands []Col
			for _, c := range tb.Cols {
				if mutationSupported(c) {
					cands = append(cands, c)
				}
			}
			if len(cands) == 0 || ((g.Cfg.MayReject || g.Cfg.Invalid) && rapid.IntRange(0, 9).Draw(t, "anycol") == 0) {
				cands = nil
				for _, c := range tb.Cols {
					sup := mutationSupported(c)
					rfcInvalid := c.Shape() == ShScalar && len(c.Key.Enum) == 0 && !(c.Key.T == TInt || c.Key.T == TReal) || c.Immutable
					if sup || (rfcInvalid && g.Cfg.Invalid) || (!sup && !rfcInvalid && g.Cfg.MayReject) {
						cands = append(cands, c)
					}
				}
			}
			if len(cands) == 0 {
				// nothing this table supports: turn into a select
				ops = append(ops, Op{Op: "select", Table: tb.Name, Where: op.Where})
				continue
			}
			// (three or more: a mutation without effect in between two that have one)
			n := rapid.SampledFrom([]int{1, 1, 1, 2, 2, 2, 3, 4}).Draw(t, "nmut")
			if n > 2 {
				Label("generator", "mutate:3+mutations")
			}
			// current value of a targeted row, to bias arguments
			var curRow Row
			if us := SortedUUIDs(rows); len(us) > 0 {
				curRow = rows[us[rapid.IntRange(0, len(us)-1).Draw(t, "biasrow")]]
				for _, c := range op.Where {
					if c.Col == "_uuid" && c.Fn == "==" {
						if r, ok := rows[c.Val.K[0].S]; ok {
							curRow = r
						}
					}
				}
			}
			for j := 0; j < n; j++ {
				c := cands[rapid.IntRange(0, len(cands)-1).Draw(t, "mutcol")]
				var cur *Val
				if curRow != nil {
					v := curRow[c.Name]
					cur = &v
				}
				op.Mutations = append(op.Mutations, g.GenMutation(t, c, cur, pool))
			}
			ops = append(ops, op)
		case "delete":
			ops = append(ops, Op{Op: "delete", Table: tb.Name, Where: g.GenConds(t, tb, rows, pool)})
		case "wait":
			ops = append(ops, g.GenWait(t, tb, rows, pool))
		}
	}
	dedupeNames(ops)
	return ops
}

// dedupeNames removes a symbolic name from any set/map that also holds the explicit
// uuid the name is bound to: after resolution the value would hold the same element
// twice, which no <set> can (precondition of the generated domain).
func dedupeNames(ops []Op) {
	bound := map[string]string{}
	for _, op := range ops {
		if op.Op == "insert" && op.UUIDName != "" && op.UUID != "" {
			if _, ok := bound[op.UUIDName]; !ok {
				bound[op.UUIDName] = op.UUID
			}
		}
	}
	if len(bound) == 0 {
		return
	}
	fix := func(v Val) Val {
		for _, a := range v.K {
			if a.T == TUUID {
				if u, ok := bound[a.S]; ok && len(v.K) > 1 && v.Has(UUID(u)) {
					v = v.Without(a)
				}
			}
		}
		return v
	}
	for i := range ops {
		for k, v := range ops[i].Row {
			ops[i].Row[k] = fix(v)
		}
		for _, r := range ops[i].Rows {
			for k, v := range r {
				r[k] = fix(v)
			}
		}
		for j := range ops[i].Where {
			ops[i].Where[j].Val = fix(ops[i].Where[j].Val)
		}
		for j := range ops[i].Mutations {
			ops[i].Mutations[j].Val = fix(ops[i].Mutations[j].Val)
		}
	}
}

func (g *TxnGen) genColumns(t *rapid.T, tb Table, withUUID bool) []string {
	var all []string
	for _, c := range tb.Cols {
		all = append(all, c.Name)
	}
	if withUUID {
		all = append(all, "_uuid")
	}
	perm := rapid.Permutation(all).Draw(t, "columns")
	n := rapid.IntRange(1, len(perm)).Draw(t, "ncolumns")
	out := append([]string{}, perm[:n]...)
	sort.Strings(out)
	return out
}

// GenWait draws a zero-timeout wait. Unless WaitFull is set it stays inside the
// domain where the implementation's documented simplification (compare only
// non-default expected values, count matches) coincides with RFC 7047: the where
// clause selects at most one row by _uuid, "columns" is non-empty and there is at
// most one expected row, none of whose values is a column default.
func (g *TxnGen) GenWait(t *rapid.T, tb Table, rows Rows, pool *Pool) Op {
	zero := 0
	op := Op{Op: "wait", Table: tb.Name, Timeout: &zero, Until: rapid.SampledFrom([]string{"==", "!="}).Draw(t, "until"), Rows: []Row{}}
	uuids := SortedUUIDs(rows)
	if g.Cfg.WaitFull {
		op.Where = g.GenConds(t, tb, rows, pool)
		op.HasColumns = rapid.Bool().Draw(t, "waitcols?")
		if op.HasColumns {
			op.Columns = g.genColumns(t, tb, false)
		}
		n := rapid.IntRange(0, 2).Draw(t, "nwaitrows")
		for i := 0; i < n; i++ {
			var r Row
			if len(uuids) > 0 && rapid.Bool().Draw(t, "fromrow") {
				r = rows[rapid.SampledFrom(uuids).Draw(t, "waitrow")].Clone()
			} else {
				r = GenRow(t, tb, pool, false)
			}
			op.Rows = append(op.Rows, r)
		}
		return op
	}
	g.Excluded["wait-outside-agreeing-domain"]++
	target := MkUUID(700009)
	if len(uuids) > 0 && rapid.IntRange(0, 4).Draw(t, "existing") > 0 {
		target = rapid.SampledFrom(uuids).Draw(t, "waituuid")
	}
	op.Where = []Cond{{Col: "_uuid", Fn: "==", Val: Scalar(UUID(target))}}
	cur, exists := rows[target]
	// candidate columns: those whose current value is not the default (so that the expectation carries no default)
	var cands []Col
	for _, c := range tb.Cols {
		// multi-element sets are compared order-sensitively by the implementation's wait
		// (part of the known finding wait-semantics): keep them out of the expectations
		if exists && !c.IsDefault(cur[c.Name]) && !(c.Shape() == ShSet && len(cur[c.Name].K) > 1) {
			cands = append(cands, c)
		}
	}
	if !exists || len(cands) == 0 {
		// expect no row
		op.HasColumns = true
		op.Columns = []string{tb.Cols[0].Name}
		if exists {
			// one expected row with non-default values that differ from the actual ones is hard to
			// build for every type; expect "no rows" which simply differs from one row
			return op
		}
		return op
	}
	perm := rapid.Permutation(cands).Draw(t, "waitcols")
	n := rapid.IntRange(1, len(perm)).Draw(t, "nwaitcols")
	exp := Row{}
	op.HasColumns = true
	for _, c := range perm[:n] {
		op.Columns = append(op.Columns, c.Name)
		exp[c.Name] = cur[c.Name].Clone()
	}
	sort.Strings(op.Columns)
	switch rapid.IntRange(0, 3).Draw(t, "expect") {
	case 0:
		// expect nothing although one row is there
		return op
	case 1:
		// perturb one column to another non-default value
		c := perm[rapid.IntRange(0, n-1).Draw(t, "perturb")]
		for tries := 0; tries < 5; tries++ {
			v := GenVal(t, c, pool)
			if !c.IsDefault(v) && !EqVal(v, cur[c.Name]) && !hasName(v) && !(c.Shape() == ShSet && len(v.K) > 1) {
				exp[c.Name] = v
				break
			}
		}
	}
	op.Rows = []Row{exp}
	return op
}

func hasZeroUUID(v Val) bool {
	for _, a := range append(append([]Atom{}, v.K...), v.V...) {
		if a.T == TUUID && a.S == ZeroUUID {
			return true
		}
	}
	return false
}

func hasName(v Val) bool {
	for _, a := range append(append([]Atom{}, v.K...), v.V...) {
		if a.T == TUUID && !IsUUID(a.S) {
			return true
		}
	}
	return false
}

// genAttach builds "insert a row and reference it from an existing or new row in the
// same transaction" / "move a reference" / "detach" transactions for reference columns.
func (g *TxnGen) genAttach(t *rapid.T, st State) []Op {
	type site struct {
		tb    Table
		col   Col
		value bool
		ref   Ref
	}
	var sites []site
	for _, tb := range g.S.Tables {
		for _, c := range tb.Cols {
			if c.Immutable {
				continue
			}
			if c.Key.T == TUUID && c.Key.Ref != nil {
				sites = append(sites, site{tb, c, false, *c.Key.Ref})
			}
			if c.Value != nil && c.Value.T == TUUID && c.Value.Ref != nil {
				sites = append(sites, site{tb, c, true, *c.Value.Ref})
			}
		}
	}
	if len(sites) == 0 {
		return nil
	}
	s := sites[rapid.IntRange(0, len(sites)-1).Draw(t, "site")]
	target := g.S.Table(s.ref.Table)
	pool := g.pool(st, nil, nil)
	var ops []Op
	child := ""
	existing := SortedUUIDs(st[target.Name])
	kind := rapid.IntRange(0, 4).Draw(t, "attachkind")
	if kind <= 2 || len(existing) == 0 {
		ins := g.GenInsert(t, *target, pool, "")
		if ins.UUID == "" {
			ins.UUID = g.fresh()
		}
		child = ins.UUID
		ops = append(ops, ins)
		pool.RowUUIDs[target.Name] = append(pool.RowUUIDs[target.Name], child)
	} else {
		child = rapid.SampledFrom(existing).Draw(t, "child")
	}
	ref := UUID(child)
	if g.Cfg.Named && len(ops) == 1 && rapid.Bool().Draw(t, "byname") {
		ops[0].UUIDName = "child"
		ref = UUID("child")
		pool.Names = []string{"child"}
		pool.NameTable = map[string]string{"child": target.Name}
	}
	// the referrer: an existing row of s.tb, or a new one
	holders := SortedUUIDs(st[s.tb.Name])
	mkVal := func(cur *Val) Val {
		switch s.col.Shape() {
		case ShScalar, ShOpt:
			return Scalar(ref)
		case ShSet:
			v := EmptySet()
			if cur != nil {
				v = cur.Clone()
			}
			return v.With(ref)
		default:
			v := EmptyMap()
			if cur != nil {
				v = cur.Clone()
			}
			if s.value {
				return v.WithPair(GenAtom(t, s.col.Key, pool), ref)
			}
			return v.WithPair(ref, GenAtom(t, *s.col.Value, pool))
		}
	}
	if len(holders) > 0 && rapid.IntRange(0, 3).Draw(t, "existingholder") > 0 {
		h := rapid.SampledFrom(holders).Draw(t, "holder")
		cur := st[s.tb.Name][h][s.col.Name]
		where := []Cond{{Col: "_uuid", Fn: "==", Val: Scalar(UUID(h))}}
		if (s.col.Shape() == ShSet || s.col.Shape() == ShMap) && rapid.Bool().Draw(t, "viamutate") {
			arg := mkVal(nil)
			ops = append(ops, Op{Op: "mutate", Table: s.tb.Name, Where: where, Mutations: []Mut{{Col: s.col.Name, Mutator: "insert", Val: arg}}})
		} else {
			ops = append(ops, Op{Op: "update", Table: s.tb.Name, Where: where, Row: Row{s.col.Name: mkVal(&cur)}})
		}
	} else {
		ins := g.GenInsert(t, s.tb, pool, "")
		ins.Row[s.col.Name] = mkVal(nil)
		ops = append(ops, ins)
		// a wait on the row just inserted whose expected row spells the reference the same way
		// (by name when the insert did): "==" is satisfied at once, "!=" times out at once
		if ins.UUID != "" && !s.value && s.col.Shape() != ShMap && rapid.IntRange(0, 2).Draw(t, "waitonnew") == 0 {
			zero := 0
			exp := ins.Row[s.col.Name].Clone()
			if !(s.col.Shape() == ShSet && len(exp.K) > 1) {
				ops = append(ops, Op{Op: "wait", Table: s.tb.Name, Timeout: &zero, Until: rapid.SampledFrom([]string{"==", "==", "!="}).Draw(t, "waituntil"),
					Where: []Cond{{Col: "_uuid", Fn: "==", Val: Scalar(UUID(ins.UUID))}}, HasColumns: true, Columns: []string{s.col.Name}, Rows: []Row{{s.col.Name: exp}}})
				Label("generator", "wait-on-row-inserted-in-the-transaction")
			}
		}
	}
	// sometimes also detach / delete something in the same transaction
	if rapid.IntRange(0, 2).Draw(t, "alsodetach") == 0 {
		tb := g.S.Tables[rapid.IntRange(0, len(g.S.Tables)-1).Draw(t, "detachtable")]
		ops = append(ops, Op{Op: "delete", Table: tb.Name, Where: g.GenConds(t, tb, st[tb.Name], pool)})
	}
	if rapid.Bool().Draw(t, "shuffle") && ref.S == child {
		// order of operations inside a transaction does not matter for references by uuid
		ops = rapid.Permutation(ops).Draw(t, "oporder")
	}
	return ops
}

// genChain builds "a chain of rows of a non-root table, each holding a strong reference to
// the next one, hangs from one row of another table" (3-9 links, longer than any schema
// has tables), optionally watched by a row holding weak references to several links. When
// the head is let go later, garbage collection takes one round per link, and the watcher is
// pruned once per round.
func (g *TxnGen) genChain(t *rapid.T, st State) []Op {
	type site struct {
		tb  Table // non-root table with a strong reference column to itself
		col Col
	}
	var sites []site
	for _, tb := range g.S.Tables {
		if g.S.IsRoot(tb.Name) || len(tb.Indexes) > 0 {
			continue
		}
		// (tables with a mandatory reference to themselves are left alone: a link could not
		// be inserted without pointing at another link through that column too)
		mandatory := false
		for _, c := range tb.Cols {
			refsSelf := (c.Key.T == TUUID && c.Key.Ref != nil && c.Key.Ref.Table == tb.Name) || (c.Value != nil && c.Value.T == TUUID && c.Value.Ref != nil && c.Value.Ref.Table == tb.Name)
			mandatory = mandatory || (refsSelf && c.Min > 0)
		}
		if mandatory {
			continue
		}
		for _, c := range tb.Cols {
			if c.Key.T == TUUID && c.Key.Ref != nil && c.Key.Ref.Table == tb.Name && c.Key.Ref.Weak == false && c.Shape() != ShMap && c.Min == 0 {
				sites = append(sites, site{tb, c})
			}
		}
	}
	if len(sites) == 0 {
		return nil
	}
	s := sites[rapid.IntRange(0, len(sites)-1).Draw(t, "chainsite")]
	// the holder: a strong reference column of another (or the same) table to s.tb
	type hsite struct {
		tb  Table
		col Col
	}
	var holders []hsite
	var watchers []hsite
	for _, tb := range g.S.Tables {
		for _, c := range tb.Cols {
			if c.Key.T == TUUID && c.Key.Ref != nil && c.Key.Ref.Table == s.tb.Name && c.Shape() != ShMap && !(tb.Name == s.tb.Name && c.Name == s.col.Name) {
				if c.Key.Ref.Weak {
					if c.Shape() == ShSet && c.Max < 0 {
						watchers = append(watchers, hsite{tb, c})
					}
				} else if len(tb.Indexes) == 0 && g.S.IsRoot(tb.Name) {
					holders = append(holders, hsite{tb, c})
				}
			}
		}
	}
	if len(holders) == 0 {
		return nil
	}
	h := holders[rapid.IntRange(0, len(holders)-1).Draw(t, "chainholder")]
	pool := g.pool(st, nil, nil)
	n := rapid.IntRange(3, 9).Draw(t, "chainlen")
	uuids := make([]string, n)
	for i := range uuids {
		uuids[i] = g.fresh()
	}
	var ops []Op
	for i := 0; i < n; i++ {
		ins := g.GenInsert(t, s.tb, pool, "")
		ins.UUID = uuids[i]
		// the generated row may refer to other rows of the table through other columns: keep the
		// chain the only thing that keeps the links alive
		for _, c := range s.tb.Cols {
			if (c.Key.T == TUUID && c.Key.Ref != nil && c.Key.Ref.Table == s.tb.Name) || (c.Value != nil && c.Value.T == TUUID && c.Value.Ref != nil && c.Value.Ref.Table == s.tb.Name) {
				delete(ins.Row, c.Name)
			}
		}
		if i+1 < n {
			if s.col.Shape() == ShSet {
				ins.Row[s.col.Name] = SetOf(UUID(uuids[i+1]))
			} else {
				ins.Row[s.col.Name] = Scalar(UUID(uuids[i+1]))
			}
		}
		ops = append(ops, ins)
	}
	hold := g.GenInsert(t, h.tb, pool, "")
	if h.col.Shape() == ShSet {
		hold.Row[h.col.Name] = SetOf(UUID(uuids[0]))
	} else {
		hold.Row[h.col.Name] = Scalar(UUID(uuids[0]))
	}
	ops = append(ops, hold)
	if len(watchers) > 0 && rapid.Bool().Draw(t, "chainwatcher") {
		wsite := watchers[rapid.IntRange(0, len(watchers)-1).Draw(t, "chainwatchersite")]
		wi := g.GenInsert(t, wsite.tb, pool, "")
		v := EmptySet()
		for i := 0; i < n; i++ {
			if rapid.Bool().Draw(t, "watched") {
				v = v.With(UUID(uuids[i]))
			}
		}
		wi.Row[wsite.col.Name] = v
		ops = append(ops, wi)
	}
	Label("generator", fmt.Sprintf("chain:%d-links", n))
	return rapid.Permutation(ops).Draw(t, "chainorder")
}

// genCollapse lets go of rows that keep rows of non-root tables alive (delete of the referrer,
// or an update that empties the referring column), so that the garbage collection at commit
// may take several rounds, and in the same transaction changes another column of rows that
// hold weak references: such a row receives the transaction's own change and, round after
// round, the reference-driven ones.
func (g *TxnGen) genCollapse(t *rapid.T, st State) []Op {
	type cand struct {
		tb   Table
		uuid string
		cols []Col // holders: strong reference columns with a value; watchers: the other mutable columns
	}
	var holders, watchers []cand
	for _, tb := range g.S.Tables {
		for _, u := range SortedUUIDs(st[tb.Name]) {
			row := st[tb.Name][u]
			var strong []Col
			weak := false
			weakCols := map[string]bool{}
			for _, c := range tb.Cols {
				for _, bt := range []*Base{&c.Key, c.Value} {
					if bt == nil || bt.T != TUUID || bt.Ref == nil || bt.Ref.Table == "" || row[c.Name].Len() == 0 {
						continue
					}
					if bt.Ref.Weak {
						weak = true
						weakCols[c.Name] = true
					} else if !g.S.IsRoot(bt.Ref.Table) {
						strong = append(strong, c)
					}
				}
			}
			if len(strong) > 0 {
				holders = append(holders, cand{tb, u, strong})
			}
			if weak {
				var others []Col
				for _, c := range mutableCols(tb) {
					if !weakCols[c.Name] {
						others = append(others, c)
					}
				}
				if len(others) > 0 {
					watchers = append(watchers, cand{tb, u, others})
				}
			}
		}
	}
	if len(holders) == 0 || len(watchers) == 0 {
		return nil
	}
	pool := g.pool(st, nil, nil)
	var ops []Op
	used := map[string]bool{}
	nh := rapid.IntRange(1, 2).Draw(t, "collapseholders")
	for i := 0; i < nh; i++ {
		h := holders[rapid.IntRange(0, len(holders)-1).Draw(t, "collapseholder")]
		if used[h.uuid] {
			continue
		}
		used[h.uuid] = true
		where := []Cond{{Col: "_uuid", Fn: "==", Val: Scalar(UUID(h.uuid))}}
		c := h.cols[rapid.IntRange(0, len(h.cols)-1).Draw(t, "collapsecol")]
		if c.Min == 0 && !c.Immutable && rapid.Bool().Draw(t, "collapsebyupdate") {
			empty := EmptySet()
			if c.Shape() == ShMap {
				empty = EmptyMap()
			}
			ops = append(ops, Op{Op: "update", Table: h.tb.Name, Where: where, Row: Row{c.Name: empty}})
		} else {
			ops = append(ops, Op{Op: "delete", Table: h.tb.Name, Where: where})
		}
	}
	nw := rapid.IntRange(1, 3).Draw(t, "collapsewatchers")
	for i := 0; i < nw; i++ {
		w := watchers[rapid.IntRange(0, len(watchers)-1).Draw(t, "collapsewatcher")]
		if used[w.uuid] {
			continue
		}
		used[w.uuid] = true
		c := w.cols[rapid.IntRange(0, len(w.cols)-1).Draw(t, "collapsetouch")]
		ops = append(ops, Op{Op: "update", Table: w.tb.Name, Where: []Cond{{Col: "_uuid", Fn: "==", Val: Scalar(UUID(w.uuid))}}, Row: Row{c.Name: GenVal(t, c, pool)}})
	}
	if len(ops) < 2 {
		return nil
	}
	Label("generator", "collapse:referrer-released+weak-holder-touched")
	return rapid.Permutation(ops).Draw(t, "collapseorder")
}

// genBigMutate (Big mode) mutates or updates a set column that holds dozens of elements
// with an argument that overlaps it largely: the whole value or half of it plus up to 40
// fresh elements, as insert, delete or update.
func (g *TxnGen) genBigMutate(t *rapid.T, st State) []Op {
	type site struct {
		tb   Table
		col  Col
		uuid string
	}
	var sites []site
	for _, tb := range g.S.Tables {
		for _, u := range SortedUUIDs(st[tb.Name]) {
			for _, c := range tb.Cols {
				if c.Shape() == ShSet && !c.Immutable && c.Max < 0 && len(st[tb.Name][u][c.Name].K) >= 33 && !(c.Key.T == TUUID && c.Key.Ref != nil) {
					sites = append(sites, site{tb, c, u})
				}
			}
		}
	}
	if len(sites) == 0 {
		return nil
	}
	s := sites[rapid.IntRange(0, len(sites)-1).Draw(t, "bigsite")]
	pool := g.pool(st, nil, nil)
	cur := st[s.tb.Name][s.uuid][s.col.Name]
	arg := cur.Clone()
	if rapid.Bool().Draw(t, "bighalf") {
		arg = EmptySet()
		for i, k := range cur.K {
			if i%2 == 0 {
				arg = arg.With(k)
			}
		}
	}
	for i, n := 0, rapid.SampledFrom([]int{0, 1, 3, 10, 40}).Draw(t, "bigfresh"); i < n; i++ {
		arg = arg.With(GenAtom(t, s.col.Key, pool))
	}
	where := []Cond{{Col: "_uuid", Fn: "==", Val: Scalar(UUID(s.uuid))}}
	kind := rapid.SampledFrom([]string{"insert", "insert", "delete", "update"}).Draw(t, "bigkind")
	Label("generator", "big-mutate:"+kind)
	if len(cur.K)*len(arg.K) > 4096 {
		Label("generator", "big-mutate:size-product>4096")
	}
	if kind == "update" {
		return []Op{{Op: "update", Table: s.tb.Name, Where: where, Row: Row{s.col.Name: arg}}}
	}
	return []Op{{Op: "mutate", Table: s.tb.Name, Where: where, Mutations: []Mut{{Col: s.col.Name, Mutator: kind, Val: arg}}}}
}

// genFanIn builds the transaction "dozens of new rows refer to one row" (Big mode): 33-70
// inserts into a table without schema indexes, each holding a reference to the same
// (existing or new) row in a drawn reference column.
func (g *TxnGen) genFanIn(t *rapid.T, st State) []Op {
	type site struct {
		tb  Table
		col Col
	}
	var sites []site
	for _, tb := range g.S.Tables {
		if len(tb.Indexes) > 0 {
			continue
		}
		for _, c := range tb.Cols {
			if c.Key.T == TUUID && c.Key.Ref != nil && c.Shape() != ShMap {
				sites = append(sites, site{tb, c})
			}
		}
	}
	if len(sites) == 0 {
		return nil
	}
	s := sites[rapid.IntRange(0, len(sites)-1).Draw(t, "faninsite")]
	target := g.S.Table(s.col.Key.Ref.Table)
	pool := g.pool(st, nil, nil)
	var ops []Op
	existing := SortedUUIDs(st[target.Name])
	to := ""
	if len(existing) == 0 || rapid.Bool().Draw(t, "fanintonew") {
		ins := g.GenInsert(t, *target, pool, "")
		if ins.UUID == "" {
			ins.UUID = g.fresh()
		}
		to = ins.UUID
		ops = append(ops, ins)
		pool.RowUUIDs[target.Name] = append(pool.RowUUIDs[target.Name], to)
	} else {
		to = rapid.SampledFrom(existing).Draw(t, "faninto")
	}
	n := rapid.SampledFrom([]int{33, 34, 40, 70}).Draw(t, "faninrows")
	for i := 0; i < n; i++ {
		ins := g.GenInsert(t, s.tb, pool, "")
		if s.col.Shape() == ShSet {
			v, ok := ins.Row[s.col.Name]
			if !ok {
				v = EmptySet()
			}
			if s.col.Max >= 0 && len(v.K) >= s.col.Max {
				v = EmptySet()
			}
			ins.Row[s.col.Name] = v.With(UUID(to))
		} else {
			ins.Row[s.col.Name] = Scalar(UUID(to))
		}
		ops = append(ops, ins)
	}
	Label("generator", "fan-in:"+fmt.Sprint(n))
	return ops
}

// genReplaceChild builds the transaction "a referenced row X of an indexed table is
// replaced by a new row Y holding X's index values": X is first touched (read, or written
// without change), Y is inserted, and the row referring to X is pointed at Y instead - so
// X, if nothing else refers to it and its table is not a root table, is garbage collected
// in the same transaction in which its index values are taken over.
func (g *TxnGen) genReplaceChild(t *rapid.T, st State) []Op {
	type site struct {
		holder Table
		col    Col
		value  bool
		target Table
	}
	var sites []site
	for _, tb := range g.S.Tables {
		for _, c := range tb.Cols {
			if c.Immutable {
				continue
			}
			for _, cand := range []struct {
				b     *Base
				value bool
			}{{&c.Key, false}, {c.Value, true}} {
				if cand.b == nil || cand.b.T != TUUID || cand.b.Ref == nil {
					continue
				}
				target := g.S.Table(cand.b.Ref.Table)
				if target != nil && len(target.Indexes) > 0 {
					sites = append(sites, site{tb, c, cand.value, *target})
				}
			}
		}
	}
	if len(sites) == 0 {
		return nil
	}
	s := sites[rapid.IntRange(0, len(sites)-1).Draw(t, "rcsite")]
	// a holder row that refers to an existing row X of the target table
	type pair struct{ h, x string }
	var pairs []pair
	for _, h := range SortedUUIDs(st[s.holder.Name]) {
		v := st[s.holder.Name][h][s.col.Name]
		atoms := v.K
		if s.value {
			atoms = v.V
		}
		for _, a := range atoms {
			if _, ok := st[s.target.Name][a.S]; ok {
				pairs = append(pairs, pair{h, a.S})
			}
		}
	}
	if len(pairs) == 0 {
		return nil
	}
	p := pairs[rapid.IntRange(0, len(pairs)-1).Draw(t, "rcpair")]
	x := st[s.target.Name][p.x]
	pool := g.pool(st, nil, nil)
	byUUID := func(u string) []Cond { return []Cond{{Col: "_uuid", Fn: "==", Val: Scalar(UUID(u))}} }
	var ops []Op
	// touch X
	switch rapid.IntRange(0, 4).Draw(t, "rctouch") {
	case 0:
		ops = append(ops, Op{Op: "select", Table: s.target.Name, Where: byUUID(p.x)})
	case 1:
		var conds []Cond
		for _, cn := range s.target.Indexes[0] {
			conds = append(conds, Cond{Col: cn, Fn: "==", Val: x[cn].Clone()})
		}
		ops = append(ops, Op{Op: "select", Table: s.target.Name, Where: conds})
	case 2:
		if cols := mutableCols(s.target); len(cols) > 0 {
			c := cols[rapid.IntRange(0, len(cols)-1).Draw(t, "rccol")]
			ops = append(ops, Op{Op: "update", Table: s.target.Name, Where: byUUID(p.x), Row: Row{c.Name: x[c.Name].Clone()}})
		}
	}
	// Y takes over the values of one index of X
	ins := g.GenInsert(t, s.target, pool, "")
	if ins.UUID == "" {
		ins.UUID = g.fresh()
	}
	idx := s.target.Indexes[rapid.IntRange(0, len(s.target.Indexes)-1).Draw(t, "rcidx")]
	for _, cn := range idx {
		ins.Row[cn] = x[cn].Clone()
	}
	ops = append(ops, ins)
	// the holder refers to Y instead of X
	cur := st[s.holder.Name][p.h][s.col.Name].Clone()
	var nv Val
	switch s.col.Shape() {
	case ShScalar, ShOpt:
		nv = Scalar(UUID(ins.UUID))
	case ShSet:
		nv = cur.Without(UUID(p.x)).With(UUID(ins.UUID))
	default:
		nv = EmptyMap()
		for i := range cur.K {
			k, v := cur.K[i], cur.V[i]
			if s.value && v.S == p.x {
				v = UUID(ins.UUID)
			}
			if !s.value && k.S == p.x {
				k = UUID(ins.UUID)
			}
			nv = nv.WithPair(k, v)
		}
	}
	ops = append(ops, Op{Op: "update", Table: s.holder.Name, Where: byUUID(p.h), Row: Row{s.col.Name: nv}})
	if rapid.IntRange(0, 3).Draw(t, "rcshuffle") == 0 {
		ops = rapid.Permutation(ops).Draw(t, "rcorder")
	}
	return ops
}

// genIndexShuffle builds transactions that move indexed values between rows:
// swaps, rotations, delete+insert of the same value, and genuine duplicates.
func (g *TxnGen) genIndexShuffle(t *rapid.T, st State) []Op {
	var cands []Table
	for _, tb := range g.S.Tables {
		if len(tb.Indexes) > 0 && len(st[tb.Name]) >= 1 {
			cands = append(cands, tb)
		}
	}
	if len(cands) == 0 {
		return nil
	}
	tb := cands[rapid.IntRange(0, len(cands)-1).Draw(t, "idxtable")]
	idx := tb.Indexes[rapid.IntRange(0, len(tb.Indexes)-1).Draw(t, "idx")]
	for _, cn := range idx {
		if tb.Col(cn).Immutable {
			return nil
		}
	}
	uuids := SortedUUIDs(st[tb.Name])
	rows := st[tb.Name]
	pool := g.pool(st, nil, nil)
	byUUID := func(u string) []Cond { return []Cond{{Col: "_uuid", Fn: "==", Val: Scalar(UUID(u))}} }
	idxVals := func(u string) Row {
		r := Row{}
		for _, cn := range idx {
			r[cn] = rows[u][cn].Clone()
		}
		return r
	}
	kind := rapid.IntRange(0, 6).Draw(t, "shufflekind")
	switch {
	case kind == 0 && len(uuids) >= 2: // swap
		p := rapid.Permutation(uuids).Draw(t, "pair")
		a, b := p[0], p[1]
		return []Op{
			{Op: "update", Table: tb.Name, Where: byUUID(a), Row: idxVals(b)},
			{Op: "update", Table: tb.Name, Where: byUUID(b), Row: idxVals(a)},
		}
	case kind == 1 && len(uuids) >= 3: // rotate
		p := rapid.Permutation(uuids).Draw(t, "triple")
		return []Op{
			{Op: "update", Table: tb.Name, Where: byUUID(p[0]), Row: idxVals(p[1])},
			{Op: "update", Table: tb.Name, Where: byUUID(p[1]), Row: idxVals(p[2])},
			{Op: "update", Table: tb.Name, Where: byUUID(p[2]), Row: idxVals(p[0])},
		}
	case kind == 2: // delete + insert same value (either order)
		a := rapid.SampledFrom(uuids).Draw(t, "victim")
		ins := g.GenInsert(t, tb, pool, "")
		for cn, v := range idxVals(a) {
			ins.Row[cn] = v
		}
		ops := []Op{{Op: "delete", Table: tb.Name, Where: byUUID(a)}, ins}
		if rapid.Bool().Draw(t, "insertfirst") {
			ops[0], ops[1] = ops[1], ops[0]
		}
		return ops
	case kind == 3: // genuine duplicate by insert
		a := rapid.SampledFrom(uuids).Draw(t, "dupof")
		ins := g.GenInsert(t, tb, pool, "")
		for cn, v := range idxVals(a) {
			ins.Row[cn] = v
		}
		return []Op{ins}
	case kind == 4 && len(uuids) >= 2: // genuine duplicate by update, or hand-over: a takes b's value, b takes a fresh one
		p := rapid.Permutation(uuids).Draw(t, "pair")
		ops := []Op{{Op: "update", Table: tb.Name, Where: byUUID(p[0]), Row: idxVals(p[1])}}
		if rapid.Bool().Draw(t, "handover") {
			fresh := Row{}
			for _, cn := range idx {
				fresh[cn] = GenVal(t, *tb.Col(cn), pool)
			}
			ops = append(ops, Op{Op: "update", Table: tb.Name, Where: byUUID(p[1]), Row: fresh})
			if rapid.Bool().Draw(t, "reverse") {
				ops[0], ops[1] = ops[1], ops[0]
			}
		}
		return ops
	case kind == 6: // a row is renamed, deleted through its new value, and its old value reused
		a := rapid.SampledFrom(uuids).Draw(t, "renamed")
		fresh := Row{}
		var where []Cond
		for _, cn := range idx {
			fresh[cn] = GenVal(t, *tb.Col(cn), pool)
			where = append(where, Cond{Col: cn, Fn: "==", Val: fresh[cn].Clone()})
		}
		ins := g.GenInsert(t, tb, pool, "")
		for cn, v := range idxVals(a) {
			ins.Row[cn] = v
		}
		Label("generator", "index:renamed-deleted-by-new-value-old-value-reused")
		return []Op{{Op: "update", Table: tb.Name, Where: byUUID(a), Row: fresh}, {Op: "delete", Table: tb.Name, Where: where}, ins}
	default: // two inserts with the same index value, one of them deleted again
		a := g.GenInsert(t, tb, pool, "")
		b := g.GenInsert(t, tb, pool, "")
		for _, cn := range idx {
			b.Row[cn] = a.Row[cn]
			if _, ok := a.Row[cn]; !ok {
				v := GenVal(t, *tb.Col(cn), pool)
				a.Row[cn], b.Row[cn] = v, v.Clone()
			}
		}
		if a.UUID == "" {
			a.UUID = g.fresh()
		}
		ops := []Op{a, b}
		if rapid.Bool().Draw(t, "deleteone") {
			ops = append(ops, Op{Op: "delete", Table: tb.Name, Where: byUUID(a.UUID)})
		}
		return ops
	}
}
