package kit

import (
	"encoding/json"
	"fmt"
	"math"
	"regexp"
	"sort"
	"strconv"
	"strings"
)

// AT is an OVSDB atomic type.
type AT int

const (
	TInt AT = iota
	TReal
	TBool
	TStr
	TUUID
)

var atNames = []string{"integer", "real", "boolean", "string", "uuid"}

func (t AT) String() string { return atNames[t] }

// AllAT lists all atomic types.
var AllAT = []AT{TInt, TReal, TBool, TStr, TUUID}

// Atom is one atomic OVSDB value in canonical form, independent from libovsdb's representations.
type Atom struct {
	T AT      `json:"t"`
	I int64   `json:"i,omitempty"`
	R float64 `json:"r,omitempty"`
	B bool    `json:"b,omitempty"`
	S string  `json:"s,omitempty"`
}

func Int(i int64) Atom    { return Atom{T: TInt, I: i} }
func Real(r float64) Atom { return Atom{T: TReal, R: r} }
func Bool(b bool) Atom    { return Atom{T: TBool, B: b} }
func Str(s string) Atom   { return Atom{T: TStr, S: s} }
func UUID(s string) Atom  { return Atom{T: TUUID, S: s} }

const ZeroUUID = "00000000-0000-0000-0000-000000000000"

var uuidRe = regexp.MustCompile(`^[0-9a-f]{8}-[0-9a-f]{4}-[0-9a-f]{4}-[0-9a-f]{4}-[0-9a-f]{12}$`)

// IsUUID reports whether s is a syntactically valid UUID (RFC 7047 <uuid>).
func IsUUID(s string) bool { return uuidRe.MatchString(s) }

// ZeroAtom returns the default atom of a type (RFC 7047 5.2.1: 0, 0.0, false, "", all-zero uuid).
func ZeroAtom(t AT) Atom {
	if t == TUUID {
		return UUID(ZeroUUID)
	}
	return Atom{T: t}
}

func (a Atom) IsZero() bool {
	switch a.T {
	case TInt:
		return a.I == 0
	case TReal:
		return a.R == 0
	case TBool:
		return !a.B
	case TStr:
		return a.S == ""
	default:
		return a.S == ZeroUUID || a.S == ""
	}
}

// Key returns a canonical string usable as map key.
func (a Atom) Key() string {
	switch a.T {
	case TInt:
		return "i" + strconv.FormatInt(a.I, 10)
	case TReal:
		r := a.R
		if r == 0 {
			r = 0 // fold -0
		}
		return "r" + strconv.FormatFloat(r, 'g', -1, 64)
	case TBool:
		if a.B {
			return "bT"
		}
		return "bF"
	case TStr:
		return "s" + a.S
	default:
		return "u" + a.S
	}
}

func (a Atom) String() string { return a.Key() }

// CmpAtom orders atoms of the same type.
func CmpAtom(a, b Atom) int {
	switch a.T {
	case TInt:
		switch {
		case a.I < b.I:
			return -1
		case a.I > b.I:
			return 1
		}
		return 0
	case TReal:
		switch {
		case a.R < b.R:
			return -1
		case a.R > b.R:
			return 1
		}
		return 0
	case TBool:
		if a.B == b.B {
			return 0
		}
		if !a.B {
			return -1
		}
		return 1
	default:
		return strings.Compare(a.S, b.S)
	}
}

func EqAtom(a, b Atom) bool { return a.T == b.T && CmpAtom(a, b) == 0 }

// Val is the canonical value of a column: a set of atoms (scalar = exactly one
// element, optional = zero or one) or a map. K is sorted and duplicate free; for
// maps V is parallel to K.
type Val struct {
	M bool   `json:"m,omitempty"`
	K []Atom `json:"k"`
	V []Atom `json:"v,omitempty"`
}

// Scalar builds a one-element value.
func Scalar(a Atom) Val { return Val{K: []Atom{a}} }

// SetOf builds a normalised set value.
func SetOf(as ...Atom) Val {
	v := Val{K: append([]Atom{}, as...)}
	v.normalize()
	return v
}

// MapOf builds a normalised map value from key/value pairs (later duplicates win).
func MapOf(kv ...Atom) Val {
	v := EmptyMap()
	for i := 0; i+1 < len(kv); i += 2 {
		v = v.WithPair(kv[i], kv[i+1])
	}
	return v
}

func EmptySet() Val { return Val{K: []Atom{}} }
func EmptyMap() Val { return Val{M: true, K: []Atom{}, V: []Atom{}} }

func (v *Val) normalize() {
	if v.M {
		idx := make([]int, len(v.K))
		for i := range idx {
			idx[i] = i
		}
		sort.SliceStable(idx, func(a, b int) bool { return CmpAtom(v.K[idx[a]], v.K[idx[b]]) < 0 })
		var k, vv []Atom
		for _, i := range idx {
			if len(k) > 0 && EqAtom(k[len(k)-1], v.K[i]) {
				vv[len(vv)-1] = v.V[i]
				continue
			}
			k = append(k, v.K[i])
			vv = append(vv, v.V[i])
		}
		if k == nil {
			k, vv = []Atom{}, []Atom{}
		}
		v.K, v.V = k, vv
		return
	}
	sort.SliceStable(v.K, func(a, b int) bool { return CmpAtom(v.K[a], v.K[b]) < 0 })
	out := v.K[:0]
	for _, a := range v.K {
		if len(out) > 0 && EqAtom(out[len(out)-1], a) {
			continue
		}
		out = append(out, a)
	}
	if out == nil {
		out = []Atom{}
	}
	v.K = out
}

// Clone deep-copies a value.
func (v Val) Clone() Val {
	c := Val{M: v.M, K: append([]Atom{}, v.K...)}
	if v.M {
		c.V = append([]Atom{}, v.V...)
	}
	return c
}

func (v Val) Len() int { return len(v.K) }

// Has reports set membership / key presence.
func (v Val) Has(a Atom) bool { return v.find(a) >= 0 }

func (v Val) find(a Atom) int {
	for i, k := range v.K {
		if EqAtom(k, a) {
			return i
		}
	}
	return -1
}

// Get returns the map value of a key.
func (v Val) Get(k Atom) (Atom, bool) {
	if i := v.find(k); i >= 0 && v.M {
		return v.V[i], true
	}
	return Atom{}, false
}

// With returns the set plus an element.
func (v Val) With(a Atom) Val {
	c := v.Clone()
	c.K = append(c.K, a)
	c.normalize()
	return c
}

// Without returns the set/map minus an element/key.
func (v Val) Without(a Atom) Val {
	c := Val{M: v.M, K: []Atom{}}
	if v.M {
		c.V = []Atom{}
	}
	for i, k := range v.K {
		if EqAtom(k, a) {
			continue
		}
		c.K = append(c.K, k)
		if v.M {
			c.V = append(c.V, v.V[i])
		}
	}
	return c
}

// WithPair returns the map with key set to value.
func (v Val) WithPair(k, val Atom) Val {
	c := v.Without(k)
	c.M = true
	if c.V == nil {
		c.V = []Atom{}
	}
	c.K = append(c.K, k)
	c.V = append(c.V, val)
	c.normalize()
	return c
}

// Key is a canonical string of the whole value.
func (v Val) Key() string {
	var sb strings.Builder
	if v.M {
		sb.WriteString("{")
		for i, k := range v.K {
			if i > 0 {
				sb.WriteString(",")
			}
			sb.WriteString(k.Key())
			sb.WriteString("=")
			sb.WriteString(v.V[i].Key())
		}
		sb.WriteString("}")
		return sb.String()
	}
	sb.WriteString("[")
	for i, k := range v.K {
		if i > 0 {
			sb.WriteString(",")
		}
		sb.WriteString(k.Key())
	}
	sb.WriteString("]")
	return sb.String()
}

func (v Val) String() string { return v.Key() }

// EqVal compares two canonical values (as sets / as sets of pairs).
func EqVal(a, b Val) bool { return a.Key() == b.Key() }

// Row is a table row in canonical form: column name -> value. The row's own
// UUID is kept separately by callers (usually as map key).
type Row map[string]Val

func (r Row) Clone() Row {
	c := make(Row, len(r))
	for k, v := range r {
		c[k] = v.Clone()
	}
	return c
}

func (r Row) Key() string {
	ks := make([]string, 0, len(r))
	for k := range r {
		ks = append(ks, k)
	}
	sort.Strings(ks)
	var sb strings.Builder
	for _, k := range ks {
		sb.WriteString(k)
		sb.WriteString(":")
		sb.WriteString(r[k].Key())
		sb.WriteString(";")
	}
	return sb.String()
}

// Table content: uuid -> row.
type Rows map[string]Row

func (t Rows) Clone() Rows {
	c := make(Rows, len(t))
	for k, v := range t {
		c[k] = v.Clone()
	}
	return c
}

// State is a whole database: table -> uuid -> row.
type State map[string]Rows

func (s State) Clone() State {
	c := make(State, len(s))
	for k, v := range s {
		c[k] = v.Clone()
	}
	return c
}

// Key is a canonical rendering of a state, for comparison and diagnostics.
func (s State) Key() string {
	ts := make([]string, 0, len(s))
	for t := range s {
		ts = append(ts, t)
	}
	sort.Strings(ts)
	var sb strings.Builder
	for _, t := range ts {
		us := make([]string, 0, len(s[t]))
		for u := range s[t] {
			us = append(us, u)
		}
		sort.Strings(us)
		sb.WriteString(t + "{")
		for _, u := range us {
			sb.WriteString(u + "<" + s[t][u].Key() + ">")
		}
		sb.WriteString("}")
	}
	return sb.String()
}

// DiffStates returns a human readable list of differences (empty when equal).
func DiffStates(want, got State) []string {
	var out []string
	tables := map[string]bool{}
	for t := range want {
		tables[t] = true
	}
	for t := range got {
		tables[t] = true
	}
	ts := make([]string, 0)
	for t := range tables {
		ts = append(ts, t)
	}
	sort.Strings(ts)
	for _, t := range ts {
		w, g := want[t], got[t]
		us := map[string]bool{}
		for u := range w {
			us[u] = true
		}
		for u := range g {
			us[u] = true
		}
		ul := make([]string, 0)
		for u := range us {
			ul = append(ul, u)
		}
		sort.Strings(ul)
		for _, u := range ul {
			wr, wok := w[u]
			gr, gok := g[u]
			switch {
			case wok && !gok:
				out = append(out, fmt.Sprintf("table %s row %s: missing (want %s)", t, u, wr.Key()))
			case !wok && gok:
				out = append(out, fmt.Sprintf("table %s row %s: unexpected (got %s)", t, u, gr.Key()))
			default:
				cols := map[string]bool{}
				for c := range wr {
					cols[c] = true
				}
				for c := range gr {
					cols[c] = true
				}
				cl := make([]string, 0)
				for c := range cols {
					cl = append(cl, c)
				}
				sort.Strings(cl)
				for _, c := range cl {
					wv, wok := wr[c]
					gv, gok := gr[c]
					if wok != gok || !EqVal(wv, gv) {
						out = append(out, fmt.Sprintf("table %s row %s column %s: want %s got %s", t, u, c, wv.Key(), gv.Key()))
					}
				}
			}
		}
	}
	return out
}

// ---- wire encoding written independently of libovsdb ----

// AtomWire returns the JSON-marshalable RFC 7047 <atom> of an atom. A UUID atom
// whose text is not a valid UUID is a named-uuid.
func AtomWire(a Atom) interface{} {
	switch a.T {
	case TInt:
		return a.I
	case TReal:
		return realWire(a.R)
	case TBool:
		return a.B
	case TStr:
		return a.S
	default:
		if IsUUID(a.S) {
			return []interface{}{"uuid", a.S}
		}
		return []interface{}{"named-uuid", a.S}
	}
}

// realWire makes sure a real is encoded with a decimal point or exponent only when
// needed; JSON numbers carry no type so 1 and 1.0 are the same.
type realWire float64

func (r realWire) MarshalJSON() ([]byte, error) {
	f := float64(r)
	if math.IsInf(f, 0) || math.IsNaN(f) {
		return nil, fmt.Errorf("non finite real")
	}
	return []byte(strconv.FormatFloat(f, 'g', -1, 64)), nil
}

// WireOpts selects among the equivalent encodings RFC 7047 allows.
type WireOpts struct {
	// SingleAsAtom encodes one-element sets as the bare atom.
	SingleAsAtom bool
}

// ValWire returns the JSON-marshalable RFC 7047 <value> for a column value.
// scalar says the column is min=max=1 (always a bare atom).
func ValWire(v Val, scalar bool, o WireOpts) interface{} {
	if v.M {
		pairs := make([]interface{}, 0, len(v.K))
		for i := range v.K {
			pairs = append(pairs, []interface{}{AtomWire(v.K[i]), AtomWire(v.V[i])})
		}
		return []interface{}{"map", pairs}
	}
	if len(v.K) == 1 && (scalar || o.SingleAsAtom) {
		return AtomWire(v.K[0])
	}
	elems := make([]interface{}, 0, len(v.K))
	for _, a := range v.K {
		elems = append(elems, AtomWire(a))
	}
	return []interface{}{"set", elems}
}

// MustJSON marshals or panics (inputs are built by the harness itself).
func MustJSON(v interface{}) []byte {
	b, err := json.Marshal(v)
	if err != nil {
		panic(err)
	}
	return b
}
