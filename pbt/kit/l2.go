package kit

import (
	"context"
	"encoding/json"
	"fmt"
	"net"
	"os"
	"path/filepath"
	"sync"
	"sync/atomic"
	"time"

	"github.com/cenkalti/rpc2"
	"github.com/cenkalti/rpc2/jsonrpc"
	"github.com/go-logr/logr"
	"github.com/ovn-org/libovsdb/client"
	"github.com/ovn-org/libovsdb/database"
	"github.com/ovn-org/libovsdb/database/inmemory"
	"github.com/ovn-org/libovsdb/model"
	"github.com/ovn-org/libovsdb/ovsdb"
	"github.com/ovn-org/libovsdb/server"
)

// Server is libovsdb's in-memory OVSDB server listening on a unix socket (the "L2" layer).
type Server struct {
	W    *World
	DB   database.Database
	Srv  *server.OvsdbServer
	Sock string
	dir  string
}

// StartServer starts a server for the world's schema on a fresh unix socket.
func StartServer(w *World, extra ...model.DatabaseModel) (*Server, error) {
	models := map[string]model.ClientDBModel{w.S.Name: w.Client}
	for _, m := range extra {
		models[m.Schema.Name] = m.Client()
	}
	db := inmemory.NewDatabase(models)
	all := append([]model.DatabaseModel{w.DBModel}, extra...)
	srv, err := server.NewOvsdbServer(db, all...)
	if err != nil {
		return nil, err
	}
	dir, err := os.MkdirTemp("", "verif-ovsdb-")
	if err != nil {
		return nil, err
	}
	s := &Server{W: w, DB: db, Srv: srv, dir: dir, Sock: filepath.Join(dir, "db.sock")}
	go func() { _ = srv.Serve("unix", s.Sock) }()
	deadline := time.Now().Add(10 * time.Second)
	for !srv.Ready() {
		if time.Now().After(deadline) {
			return nil, fmt.Errorf("server did not become ready")
		}
		time.Sleep(200 * time.Microsecond)
	}
	return s, nil
}

// Endpoint is the client endpoint string of the server.
func (s *Server) Endpoint() string { return "unix:" + s.Sock }

// Close stops the server and removes its socket directory.
func (s *Server) Close() {
	s.Srv.Close()
	_ = os.RemoveAll(s.dir)
}

// Snapshot reads every table of the server's database through Database.List.
func (s *Server) Snapshot() (State, error) {
	d := &DB{W: s.W, DB: s.DB, Name: s.W.S.Name}
	return d.Snapshot()
}

// NewClient builds a (not yet connected) libovsdb client for the world with a silent logger.
func NewClient(w *World, endpoint string, opts ...client.Option) (client.Client, error) {
	l := logr.Discard()
	all := append([]client.Option{client.WithEndpoint(endpoint), client.WithLogger(&l)}, opts...)
	return client.NewOVSDBClient(w.Client, all...)
}

// CacheRows reads a table of a client's cache and converts it by reflection.
func CacheRows(w *World, c client.Client, table string) (Rows, error) {
	tc := c.Cache()
	if tc == nil {
		return nil, fmt.Errorf("client has no cache")
	}
	t := tc.Table(table)
	if t == nil {
		return nil, fmt.Errorf("cache has no table %s", table)
	}
	return w.RowsFromModels(table, t.Rows())
}

// TransactOps sends harness operations through a client.
func TransactOps(ctx context.Context, w *World, c client.Client, ops []Op) ([]ovsdb.OperationResult, error) {
	dec, err := DecodeOps(w.S, ops)
	if err != nil {
		return nil, err
	}
	return c.Transact(ctx, dec...)
}

// ---- raw JSON-RPC peer ----

// Notification is one update/update2/update3 message as received by a raw peer.
type Notification struct {
	Method string
	Params []json.RawMessage
}

// RawPeer is a bare JSON-RPC connection to the server that records notifications and
// always replies to them (the server waits for the reply).
type RawPeer struct {
	C    *rpc2.Client
	mu   sync.Mutex
	msgs []Notification
	// Hold, when set (before the first notification), is called with every notification
	// after it was recorded and before it is acknowledged: a slow peer.
	Hold func(Notification)
	// refuse is the number of coming notifications to answer with a JSON-RPC error (they are
	// recorded all the same): a peer that could not apply an update says so and goes on.
	refuse int32
}

// RefuseNext makes the peer answer its next n notifications with an error.
func (p *RawPeer) RefuseNext(n int) { atomic.StoreInt32(&p.refuse, int32(n)) }

// DialRaw connects a raw peer to a unix socket.
func DialRaw(sock string) (*RawPeer, error) {
	conn, err := net.Dial("unix", sock)
	if err != nil {
		return nil, err
	}
	p := &RawPeer{C: rpc2.NewClientWithCodec(jsonrpc.NewJSONCodec(conn))}
	p.C.SetBlocking(true)
	for _, m := range []string{"update", "update2", "update3"} {
		method := m
		p.C.Handle(method, func(_ *rpc2.Client, args []json.RawMessage, reply *[]interface{}) error {
			p.mu.Lock()
			n := Notification{Method: method, Params: append([]json.RawMessage{}, args...)}
			p.msgs = append(p.msgs, n)
			hold := p.Hold
			p.mu.Unlock()
			if hold != nil {
				hold(n)
			}
			if atomic.LoadInt32(&p.refuse) > 0 {
				atomic.AddInt32(&p.refuse, -1)
				return fmt.Errorf("the harness peer refuses this notification")
			}
			*reply = []interface{}{}
			return nil
		})
	}
	p.C.Handle("echo", func(_ *rpc2.Client, args []interface{}, reply *[]interface{}) error {
		*reply = args
		return nil
	})
	go p.C.Run()
	return p, nil
}

// Take returns and clears the notifications received so far.
func (p *RawPeer) Take() []Notification {
	p.mu.Lock()
	defer p.mu.Unlock()
	out := p.msgs
	p.msgs = nil
	return out
}

// Call performs a JSON-RPC call with a timeout.
func (p *RawPeer) Call(method string, args interface{}, reply interface{}) error {
	ctx, cancel := context.WithTimeout(context.Background(), 20*time.Second)
	defer cancel()
	return p.C.CallWithContext(ctx, method, args, reply)
}

// Transact sends raw operations (JSON texts) and returns the raw reply.
func (p *RawPeer) Transact(db string, ops []json.RawMessage) (json.RawMessage, error) {
	args := []interface{}{db}
	for _, o := range ops {
		args = append(args, o)
	}
	var reply json.RawMessage
	err := p.Call("transact", args, &reply)
	return reply, err
}

// Close closes the connection.
func (p *RawPeer) Close() { _ = p.C.Close() }
