package kit

import (
	"encoding/json"
	"fmt"
	"hash/fnv"
	"os"
	"path/filepath"
	"sort"
	"sync"
	"sync/atomic"
)

// PropStats is what one process measured for one property.
type PropStats struct {
	Evaluations int               `json:"evaluations"`
	NonTrivial  int               `json:"nontrivial"`
	Distinct    []uint64          `json:"distinct"` // hashes of distinct non-trivial case signatures
	Labels      map[string]int    `json:"labels"`
	Samples     []json.RawMessage `json:"samples"`
	Exhaustive  bool              `json:"exhaustive,omitempty"`
	Notes       []string          `json:"notes,omitempty"`

	distinct map[uint64]struct{}
}

var (
	statsMu sync.Mutex
	stats   = map[string]*PropStats{}
)

func propStats(prop string) *PropStats {
	ps := stats[prop]
	if ps == nil {
		ps = &PropStats{Labels: map[string]int{}, distinct: map[uint64]struct{}{}}
		stats[prop] = ps
	}
	return ps
}

// Hash64 hashes a signature string.
func Hash64(s string) uint64 {
	h := fnv.New64a()
	_, _ = h.Write([]byte(s))
	return h.Sum64()
}

const maxSamples = 6

// Record counts one evaluated case. sig identifies the case for distinctness (only
// used when nontrivial), sample is called lazily for the first few cases.
func Record(prop, sig string, nontrivial bool, sample func() interface{}, labels ...string) {
	statsMu.Lock()
	defer statsMu.Unlock()
	ps := propStats(prop)
	ps.Evaluations++
	first := false
	if nontrivial {
		ps.NonTrivial++
		h := Hash64(sig)
		if _, ok := ps.distinct[h]; !ok {
			ps.distinct[h] = struct{}{}
			first = true
		}
	}
	for _, l := range labels {
		ps.Labels[l]++
	}
	if sample != nil && len(ps.Samples) < maxSamples && (first || ps.Evaluations <= 2) {
		if b, err := json.Marshal(sample()); err == nil {
			if len(b) > 6000 {
				b, _ = json.Marshal(string(b[:6000]) + "...(truncated)")
			}
			ps.Samples = append(ps.Samples, b)
		}
	}
}

// Label adds to label counters without counting an evaluation.
func Label(prop string, labels ...string) {
	statsMu.Lock()
	defer statsMu.Unlock()
	ps := propStats(prop)
	for _, l := range labels {
		ps.Labels[l]++
	}
}

// LabelN adds n to one label counter.
func LabelN(prop, label string, n int) {
	statsMu.Lock()
	defer statsMu.Unlock()
	propStats(prop).Labels[label] += n
}

// MarkExhaustive notes that a finite sub-space was enumerated completely.
func MarkExhaustive(prop, note string) {
	statsMu.Lock()
	defer statsMu.Unlock()
	ps := propStats(prop)
	ps.Exhaustive = true
	ps.Notes = append(ps.Notes, note)
}

// Note attaches a free text note to the evidence.
func Note(prop, note string) {
	statsMu.Lock()
	defer statsMu.Unlock()
	ps := propStats(prop)
	for _, n := range ps.Notes {
		if n == note {
			return
		}
	}
	ps.Notes = append(ps.Notes, note)
}

// Flush writes the collected statistics to $VERIF_STATS (if set).
func Flush() {
	path := os.Getenv("VERIF_STATS")
	if path == "" {
		return
	}
	statsMu.Lock()
	defer statsMu.Unlock()
	for _, ps := range stats {
		ps.Distinct = ps.Distinct[:0]
		for h := range ps.distinct {
			ps.Distinct = append(ps.Distinct, h)
		}
		sort.Slice(ps.Distinct, func(i, j int) bool { return ps.Distinct[i] < ps.Distinct[j] })
	}
	b, err := json.Marshal(stats)
	if err != nil {
		fmt.Fprintf(os.Stdout, "verif: cannot marshal stats: %v\n", err)
		return
	}
	tmp := path + ".tmp"
	if err := os.WriteFile(tmp, b, 0o644); err == nil {
		_ = os.Rename(tmp, path)
	}
}

var failSeq int64

// Failer is the part of testing.T / rapid.T the helpers need.
type Failer interface {
	Helper()
	Fatalf(format string, args ...interface{})
}

// Fail records a violating case as JSON under $VERIF_REPLAY_DIR (the last file
// written by a shrinking run is the minimal case) and fails the test.
func Fail(t Failer, prop, class string, kase interface{}, format string, args ...interface{}) {
	t.Helper()
	msg := fmt.Sprintf(format, args...)
	if dir := os.Getenv("VERIF_REPLAY_DIR"); dir != "" {
		n := atomic.AddInt64(&failSeq, 1)
		rec := map[string]interface{}{"property": prop, "class": class, "message": msg, "case": kase, "seq": n}
		if b, err := json.MarshalIndent(rec, "", " "); err == nil {
			_ = os.MkdirAll(dir, 0o755)
			name := fmt.Sprintf("%s-%s-%d.json", prop, os.Getenv("VERIF_SHARD"), os.Getpid())
			_ = os.WriteFile(filepath.Join(dir, name), b, 0o644)
		}
	}
	t.Fatalf("VERIF-FAIL property=%s class=%s: %s", prop, class, msg)
}

// InFlight records the case about to be handed to code that may take the whole process
// down (a panic in a goroutine the harness does not own): the file is what the driver
// attaches to the replay if the process dies, and is removed by the returned function.
func InFlight(prop, class string, kase interface{}) (done func()) {
	dir := os.Getenv("VERIF_REPLAY_DIR")
	if dir == "" {
		return func() {}
	}
	rec := map[string]interface{}{"property": prop, "class": class, "message": "the process died while this case was in flight", "case": kase, "seq": atomic.AddInt64(&failSeq, 1)}
	b, err := json.Marshal(rec)
	if err != nil {
		return func() {}
	}
	_ = os.MkdirAll(dir, 0o755)
	path := filepath.Join(dir, fmt.Sprintf("%s-%s-%d.json", prop, os.Getenv("VERIF_SHARD"), os.Getpid()))
	_ = os.WriteFile(path, b, 0o644)
	return func() { _ = os.Remove(path) }
}
