package kit

import (
	"encoding/json"
	"fmt"
	"reflect"
	"sort"

	"github.com/ovn-org/libovsdb/model"
	"github.com/ovn-org/libovsdb/ovsdb"
)

// Shape is how a column is represented natively.
type Shape int

const (
	ShScalar Shape = iota // min=max=1: T
	ShOpt                 // min=0,max=1: *T
	ShSet                 // anything else without value: []T
	ShMap                 // map[K]V
)

func (s Shape) String() string { return [...]string{"scalar", "optional", "set", "map"}[s] }

// Ref describes a uuid base type that references a table.
type Ref struct {
	Table string `json:"table"`
	Weak  bool   `json:"weak,omitempty"`
}

// Base is an RFC 7047 <base-type>.
type Base struct {
	T          AT       `json:"t"`
	Enum       []Atom   `json:"enum,omitempty"`
	Ref        *Ref     `json:"ref,omitempty"`
	MinInteger *int64   `json:"minInteger,omitempty"`
	MaxInteger *int64   `json:"maxInteger,omitempty"`
	MinReal    *float64 `json:"minReal,omitempty"`
	MaxReal    *float64 `json:"maxReal,omitempty"`
	MinLength  *int64   `json:"minLength,omitempty"`
	MaxLength  *int64   `json:"maxLength,omitempty"`
}

func (b Base) simple() bool {
	return len(b.Enum) == 0 && b.Ref == nil && b.MinInteger == nil && b.MaxInteger == nil &&
		b.MinReal == nil && b.MaxReal == nil && b.MinLength == nil && b.MaxLength == nil
}

// Col is a column schema in harness form.
type Col struct {
	Name      string `json:"name"`
	Key       Base   `json:"key"`
	Value     *Base  `json:"value,omitempty"`
	Min       int    `json:"min"`
	Max       int    `json:"max"` // <0: unlimited
	Immutable bool   `json:"immutable,omitempty"`
	Ephemeral bool   `json:"ephemeral,omitempty"`
	// ExplicitType forces the verbose {"key":..} type notation even when the short
	// form would do (codec properties only).
	Verbose bool `json:"verbose,omitempty"`
}

func (c Col) Shape() Shape {
	switch {
	case c.Value != nil:
		return ShMap
	case c.Min == 1 && c.Max == 1:
		return ShScalar
	case c.Min == 0 && c.Max == 1:
		return ShOpt
	default:
		return ShSet
	}
}

// IsEnum says whether libovsdb classifies the column as TypeEnum.
func (c Col) IsEnum() bool { return c.Shape() == ShScalar && len(c.Key.Enum) > 0 }

// Default is the value an unspecified column takes on insert.
func (c Col) Default() Val {
	switch c.Shape() {
	case ShScalar:
		return Scalar(ZeroAtom(c.Key.T))
	case ShMap:
		return EmptyMap()
	default:
		return EmptySet()
	}
}

// IsDefault says whether v is the column default.
func (c Col) IsDefault(v Val) bool {
	if c.Shape() == ShScalar {
		return len(v.K) == 1 && v.K[0].IsZero()
	}
	return len(v.K) == 0
}

// Table is a table schema in harness form.
type Table struct {
	Name    string     `json:"name"`
	Cols    []Col      `json:"cols"`
	Indexes [][]string `json:"indexes,omitempty"`
	IsRoot  bool       `json:"isRoot,omitempty"`
}

func (t Table) Col(name string) *Col {
	for i := range t.Cols {
		if t.Cols[i].Name == name {
			return &t.Cols[i]
		}
	}
	return nil
}

// Schema is a database schema in harness form.
type Schema struct {
	Name    string  `json:"name"`
	Version string  `json:"version"`
	Tables  []Table `json:"tables"`
}

func (s Schema) Table(name string) *Table {
	for i := range s.Tables {
		if s.Tables[i].Name == name {
			return &s.Tables[i]
		}
	}
	return nil
}

// IsRoot implements RFC 7047: if no table is marked root every table is.
func (s Schema) IsRoot(table string) bool {
	any := false
	for _, t := range s.Tables {
		if t.IsRoot {
			any = true
		}
	}
	if !any {
		return true
	}
	return s.Table(table).IsRoot
}

func baseJSON(b Base) interface{} {
	if b.simple() {
		return b.T.String()
	}
	m := map[string]interface{}{"type": b.T.String()}
	if len(b.Enum) > 0 {
		m["enum"] = ValWire(Val{K: b.Enum}, false, WireOpts{SingleAsAtom: len(b.Enum) == 1})
	}
	if b.Ref != nil {
		if b.Ref.Table != "" {
			m["refTable"] = b.Ref.Table
		}
		if b.Ref.Weak {
			m["refType"] = "weak"
		} else {
			m["refType"] = "strong"
		}
	}
	if b.MinInteger != nil {
		m["minInteger"] = *b.MinInteger
	}
	if b.MaxInteger != nil {
		m["maxInteger"] = *b.MaxInteger
	}
	if b.MinReal != nil {
		m["minReal"] = realWire(*b.MinReal)
	}
	if b.MaxReal != nil {
		m["maxReal"] = realWire(*b.MaxReal)
	}
	if b.MinLength != nil {
		m["minLength"] = *b.MinLength
	}
	if b.MaxLength != nil {
		m["maxLength"] = *b.MaxLength
	}
	return m
}

func colJSON(c Col) interface{} {
	out := map[string]interface{}{}
	if c.Shape() == ShScalar && c.Key.simple() && !c.Verbose {
		out["type"] = c.Key.T.String()
	} else {
		t := map[string]interface{}{"key": baseJSON(c.Key)}
		if c.Value != nil {
			t["value"] = baseJSON(*c.Value)
		}
		if c.Min != 1 || c.Verbose {
			t["min"] = c.Min
		}
		if c.Max < 0 {
			t["max"] = "unlimited"
		} else if c.Max != 1 || c.Verbose {
			t["max"] = c.Max
		}
		out["type"] = t
	}
	if c.Immutable {
		out["mutable"] = false
	}
	if c.Ephemeral {
		out["ephemeral"] = true
	}
	return out
}

// JSON renders the schema as RFC 7047 <database-schema> text.
func (s Schema) JSON() []byte {
	tables := map[string]interface{}{}
	for _, t := range s.Tables {
		cols := map[string]interface{}{}
		for _, c := range t.Cols {
			cols[c.Name] = colJSON(c)
		}
		tj := map[string]interface{}{"columns": cols}
		if len(t.Indexes) > 0 {
			tj["indexes"] = t.Indexes
		}
		if t.IsRoot {
			tj["isRoot"] = true
		}
		tables[t.Name] = tj
	}
	return MustJSON(map[string]interface{}{"name": s.Name, "version": s.Version, "tables": tables})
}

// ---- run-time model types ----

func atGoType(t AT) reflect.Type {
	switch t {
	case TInt:
		return reflect.TypeOf(int(0))
	case TReal:
		return reflect.TypeOf(float64(0))
	case TBool:
		return reflect.TypeOf(false)
	default:
		return reflect.TypeOf("")
	}
}

// GoType is the native type the mapper expects for the column, derived from the
// harness description only.
func (c Col) GoType() reflect.Type {
	k := atGoType(c.Key.T)
	switch c.Shape() {
	case ShScalar:
		return k
	case ShOpt:
		return reflect.PointerTo(k)
	case ShSet:
		return reflect.SliceOf(k)
	default:
		return reflect.MapOf(k, atGoType(c.Value.T))
	}
}

// FieldName is the struct field that holds column i of a table.
func FieldName(i int) string { return fmt.Sprintf("C%d", i) }

// World bundles a harness schema with everything libovsdb derives from it.
type World struct {
	S        Schema
	DBSchema ovsdb.DatabaseSchema
	Types    map[string]reflect.Type // table -> *struct type
	Client   model.ClientDBModel
	DBModel  model.DatabaseModel
}

// BuildWorld parses the schema text with libovsdb's decoder and builds run-time
// model types for it. indexes are optional client indexes.
func BuildWorld(s Schema, indexes map[string][]model.ClientIndex) (*World, error) {
	w := &World{S: s, Types: map[string]reflect.Type{}}
	if err := json.Unmarshal(s.JSON(), &w.DBSchema); err != nil {
		return nil, fmt.Errorf("schema decode: %w", err)
	}
	models := map[string]model.Model{}
	for _, t := range s.Tables {
		fields := []reflect.StructField{{
			Name: "UUID", Type: reflect.TypeOf(""), Tag: `ovsdb:"_uuid"`,
		}}
		for i, c := range t.Cols {
			fields = append(fields, reflect.StructField{
				Name: FieldName(i),
				Type: c.GoType(),
				Tag:  reflect.StructTag(fmt.Sprintf(`ovsdb:"%s"`, c.Name)),
			})
		}
		// reflect.StructOf returns identical types for identical field lists, but libovsdb
		// keys its metadata by model type: give every table its own type through a
		// trailing zero-size marker field (untagged, so the mapper ignores it)
		fields = append(fields, reflect.StructField{
			Name: "XTable" + sanitizeIdent(t.Name), Type: reflect.TypeOf(struct{}{}), Tag: `json:"-"`,
		})
		st := reflect.StructOf(fields)
		w.Types[t.Name] = reflect.PointerTo(st)
		models[t.Name] = reflect.New(st).Interface()
	}
	var err error
	w.Client, err = model.NewClientDBModel(s.Name, models)
	if err != nil {
		return nil, err
	}
	if indexes != nil {
		w.Client.SetIndexes(indexes)
	}
	var errs []error
	w.DBModel, errs = model.NewDatabaseModel(w.DBSchema, w.Client)
	if len(errs) > 0 {
		return nil, fmt.Errorf("database model: %v", errs)
	}
	return w, nil
}

// NewModel allocates an empty model for a table.
func (w *World) NewModel(table string) interface{} {
	return reflect.New(w.Types[table].Elem()).Interface()
}

func atomFromGo(t AT, v reflect.Value) Atom {
	switch t {
	case TInt:
		return Int(v.Int())
	case TReal:
		return Real(v.Float())
	case TBool:
		return Bool(v.Bool())
	case TStr:
		return Str(v.String())
	default:
		// an unset scalar uuid field is "" natively; RFC 7047's default is the all-zero uuid
		if v.String() == "" {
			return UUID(ZeroUUID)
		}
		return UUID(v.String())
	}
}

func atomToGo(a Atom) reflect.Value {
	switch a.T {
	case TInt:
		return reflect.ValueOf(int(a.I))
	case TReal:
		return reflect.ValueOf(a.R)
	case TBool:
		return reflect.ValueOf(a.B)
	default:
		return reflect.ValueOf(a.S)
	}
}

// TolerateDuplicates makes FromNative accept slices that hold an element twice (only the
// malformed-input property stores such values: the request itself listed it twice).
var TolerateDuplicates = false

// FromNative converts a native Go value of the column's type into canonical form
// without using any libovsdb code.
func FromNative(c Col, x interface{}) (Val, error) {
	v := reflect.ValueOf(x)
	if !v.IsValid() {
		return Val{}, fmt.Errorf("column %s: nil native value", c.Name)
	}
	if v.Type() != c.GoType() {
		return Val{}, fmt.Errorf("column %s: native type %s, want %s", c.Name, v.Type(), c.GoType())
	}
	switch c.Shape() {
	case ShScalar:
		return Scalar(atomFromGo(c.Key.T, v)), nil
	case ShOpt:
		if v.IsNil() {
			return EmptySet(), nil
		}
		return Scalar(atomFromGo(c.Key.T, v.Elem())), nil
	case ShSet:
		out := Val{K: []Atom{}}
		for i := 0; i < v.Len(); i++ {
			out.K = append(out.K, atomFromGo(c.Key.T, v.Index(i)))
		}
		n := len(out.K)
		out.normalize()
		if len(out.K) != n && !TolerateDuplicates {
			return out, fmt.Errorf("column %s: native slice %v holds duplicates", c.Name, x)
		}
		return out, nil
	default:
		out := Val{M: true, K: []Atom{}, V: []Atom{}}
		it := v.MapRange()
		for it.Next() {
			out.K = append(out.K, atomFromGo(c.Key.T, it.Key()))
			out.V = append(out.V, atomFromGo(c.Value.T, it.Value()))
		}
		out.normalize()
		return out, nil
	}
}

// ToNative converts a canonical value to the native Go value of the column type.
func ToNative(c Col, val Val) interface{} {
	t := c.GoType()
	switch c.Shape() {
	case ShScalar:
		if len(val.K) == 0 {
			return reflect.Zero(t).Interface()
		}
		return atomToGo(val.K[0]).Interface()
	case ShOpt:
		if len(val.K) == 0 {
			return reflect.Zero(t).Interface()
		}
		p := reflect.New(t.Elem())
		p.Elem().Set(atomToGo(val.K[0]))
		return p.Interface()
	case ShSet:
		s := reflect.MakeSlice(t, 0, len(val.K))
		for _, a := range val.K {
			s = reflect.Append(s, atomToGo(a))
		}
		return s.Interface()
	default:
		m := reflect.MakeMapWithSize(t, len(val.K))
		for i := range val.K {
			m.SetMapIndex(atomToGo(val.K[i]), atomToGo(val.V[i]))
		}
		return m.Interface()
	}
}

// RowFromModel reads every column of a model by reflection. It returns the row's UUID too.
func (w *World) RowFromModel(table string, m interface{}) (string, Row, error) {
	t := w.S.Table(table)
	if t == nil {
		return "", nil, fmt.Errorf("unknown table %s", table)
	}
	v := reflect.ValueOf(m)
	if v.Type() != w.Types[table] {
		return "", nil, fmt.Errorf("model type %s is not the type of table %s", v.Type(), table)
	}
	if v.IsNil() {
		return "", nil, fmt.Errorf("nil model")
	}
	v = v.Elem()
	row := Row{}
	for i, c := range t.Cols {
		val, err := FromNative(c, v.FieldByName(FieldName(i)).Interface())
		if err != nil {
			return "", nil, err
		}
		row[c.Name] = val
	}
	return v.FieldByName("UUID").String(), row, nil
}

// ModelFromRow builds a model holding the row (absent columns = defaults).
func (w *World) ModelFromRow(table, uuid string, row Row) interface{} {
	t := w.S.Table(table)
	p := reflect.New(w.Types[table].Elem())
	p.Elem().FieldByName("UUID").SetString(uuid)
	for i, c := range t.Cols {
		val, ok := row[c.Name]
		if !ok {
			val = c.Default()
		}
		p.Elem().FieldByName(FieldName(i)).Set(reflect.ValueOf(ToNative(c, val)))
	}
	return p.Interface()
}

// RowsFromModels converts a uuid->model map (as returned by Database.List or RowCache.Rows).
func (w *World) RowsFromModels(table string, ms map[string]model.Model) (Rows, error) {
	out := Rows{}
	for u, m := range ms {
		mu, row, err := w.RowFromModel(table, m)
		if err != nil {
			return nil, err
		}
		if mu != u {
			return nil, fmt.Errorf("table %s: row stored under %s carries _uuid %q", table, u, mu)
		}
		out[u] = row
	}
	return out, nil
}

// FromOvs converts a decoded OVSDB notation value (what ovsdb.Row.UnmarshalJSON
// yields) into canonical form, checking only shapes, not libovsdb conversions.
func FromOvs(c Col, x interface{}) (Val, error) {
	atom := func(t AT, e interface{}) (Atom, error) {
		switch t {
		case TInt:
			switch n := e.(type) {
			case float64:
				return Int(int64(n)), nil
			case int:
				return Int(int64(n)), nil
			case int64:
				return Int(n), nil
			}
		case TReal:
			switch n := e.(type) {
			case float64:
				return Real(n), nil
			case int:
				return Real(float64(n)), nil
			}
		case TBool:
			if b, ok := e.(bool); ok {
				return Bool(b), nil
			}
		case TStr:
			if s, ok := e.(string); ok {
				return Str(s), nil
			}
		case TUUID:
			if u, ok := e.(ovsdb.UUID); ok {
				return UUID(u.GoUUID), nil
			}
		}
		return Atom{}, fmt.Errorf("column %s: element %#v is not a %s", c.Name, e, t)
	}
	switch c.Shape() {
	case ShMap:
		m, ok := x.(ovsdb.OvsMap)
		if !ok {
			return Val{}, fmt.Errorf("column %s: %#v is not a map", c.Name, x)
		}
		out := EmptyMap()
		for k, v := range m.GoMap {
			ka, err := atom(c.Key.T, k)
			if err != nil {
				return Val{}, err
			}
			va, err := atom(c.Value.T, v)
			if err != nil {
				return Val{}, err
			}
			out.K = append(out.K, ka)
			out.V = append(out.V, va)
		}
		n := len(out.K)
		out.normalize()
		if len(out.K) != n {
			return out, fmt.Errorf("column %s: duplicate keys in %#v", c.Name, x)
		}
		return out, nil
	default:
		if s, ok := x.(ovsdb.OvsSet); ok {
			out := EmptySet()
			for _, e := range s.GoSet {
				a, err := atom(c.Key.T, e)
				if err != nil {
					return Val{}, err
				}
				out.K = append(out.K, a)
			}
			n := len(out.K)
			out.normalize()
			if len(out.K) != n {
				return out, fmt.Errorf("column %s: duplicate elements in %#v", c.Name, x)
			}
			return out, nil
		}
		a, err := atom(c.Key.T, x)
		if err != nil {
			return Val{}, err
		}
		return Scalar(a), nil
	}
}

// RowFromOvs converts a decoded ovsdb.Row; absent columns stay absent.
func (w *World) RowFromOvs(table string, r ovsdb.Row) (Row, error) {
	t := w.S.Table(table)
	out := Row{}
	for name, x := range r {
		if name == "_uuid" {
			u, ok := x.(ovsdb.UUID)
			if !ok {
				return nil, fmt.Errorf("_uuid %#v is not a uuid", x)
			}
			out["_uuid"] = Scalar(UUID(u.GoUUID))
			continue
		}
		c := t.Col(name)
		if c == nil {
			return nil, fmt.Errorf("table %s: unknown column %s in row", table, name)
		}
		v, err := FromOvs(*c, x)
		if err != nil {
			return nil, err
		}
		out[name] = v
	}
	return out, nil
}

// FillDefaults returns a copy of the row where absent columns hold their default.
func (t Table) FillDefaults(r Row) Row {
	out := Row{}
	for _, c := range t.Cols {
		if v, ok := r[c.Name]; ok {
			out[c.Name] = v.Clone()
		} else {
			out[c.Name] = c.Default()
		}
	}
	return out
}

// SortedUUIDs returns the keys of a table in order.
func SortedUUIDs(t Rows) []string {
	us := make([]string, 0, len(t))
	for u := range t {
		us = append(us, u)
	}
	sort.Strings(us)
	return us
}

func sanitizeIdent(s string) string {
	out := []rune{}
	for _, r := range s {
		if (r >= 'a' && r <= 'z') || (r >= 'A' && r <= 'Z') || (r >= '0' && r <= '9') || r == '_' {
			out = append(out, r)
		} else {
			out = append(out, '_')
		}
	}
	return string(out)
}

// ApplyUpdate2 applies an update2 "modify" difference (ovsdb-server(7)) to a row,
// with the harness' own rules: columns with max = 1 are overwritten, sets toggle
// membership, map pairs are added, removed (identical pair) or replaced.
func (t Table) ApplyUpdate2(old Row, diff Row) (Row, error) {
	out := old.Clone()
	for name, d := range diff {
		if name == "_uuid" {
			continue
		}
		c := t.Col(name)
		if c == nil {
			return nil, fmt.Errorf("modify names unknown column %s", name)
		}
		cur, ok := out[name]
		if !ok {
			cur = c.Default()
		}
		switch {
		case c.Shape() == ShMap:
			nv := cur.Clone()
			for i, k := range d.K {
				if v, has := nv.Get(k); has {
					if EqAtom(v, d.V[i]) {
						nv = nv.Without(k)
					} else {
						nv = nv.WithPair(k, d.V[i])
					}
				} else {
					nv = nv.WithPair(k, d.V[i])
				}
			}
			if nv.V == nil {
				nv.V = []Atom{}
			}
			nv.M = true
			out[name] = nv
		case c.Max == 1:
			out[name] = d.Clone()
		default:
			nv := cur.Clone()
			for _, a := range d.K {
				if nv.Has(a) {
					nv = nv.Without(a)
				} else {
					nv = nv.With(a)
				}
			}
			out[name] = nv
		}
	}
	return out, nil
}

// DeepCopy copies a model (pointer to a run-time struct) by reflection, preserving
// slice order, nil-ness of slices, maps and pointers.
func DeepCopy(m interface{}) interface{} {
	return deepCopyValue(reflect.ValueOf(m)).Interface()
}

func deepCopyValue(v reflect.Value) reflect.Value {
	switch v.Kind() {
	case reflect.Ptr:
		if v.IsNil() {
			return reflect.Zero(v.Type())
		}
		n := reflect.New(v.Type().Elem())
		n.Elem().Set(deepCopyValue(v.Elem()))
		return n
	case reflect.Struct:
		n := reflect.New(v.Type()).Elem()
		for i := 0; i < v.NumField(); i++ {
			if n.Field(i).CanSet() {
				n.Field(i).Set(deepCopyValue(v.Field(i)))
			}
		}
		return n
	case reflect.Slice:
		if v.IsNil() {
			return reflect.Zero(v.Type())
		}
		n := reflect.MakeSlice(v.Type(), v.Len(), v.Len())
		for i := 0; i < v.Len(); i++ {
			n.Index(i).Set(deepCopyValue(v.Index(i)))
		}
		return n
	case reflect.Map:
		if v.IsNil() {
			return reflect.Zero(v.Type())
		}
		n := reflect.MakeMapWithSize(v.Type(), v.Len())
		it := v.MapRange()
		for it.Next() {
			n.SetMapIndex(it.Key(), deepCopyValue(it.Value()))
		}
		return n
	default:
		return v
	}
}

// SetSliceOrder rewrites the slice field of column i with the given atoms in exactly that order.
func (w *World) SetSliceOrder(table string, m interface{}, colIndex int, atoms []Atom) {
	c := w.S.Table(table).Cols[colIndex]
	f := reflect.ValueOf(m).Elem().FieldByName(FieldName(colIndex))
	s := reflect.MakeSlice(c.GoType(), 0, len(atoms))
	for _, a := range atoms {
		s = reflect.Append(s, atomToGo(a))
	}
	f.Set(s)
}

// Update2Diff computes the update2 "modify" difference between two rows by the rules of
// ovsdb-server(7) (harness' own implementation): only changed columns; columns with
// max = 1 carry the new value, sets the symmetric difference, maps the pairs added or
// changed (new value) and the pairs removed (old value).
func (t Table) Update2Diff(old, new Row) Row {
	out := Row{}
	for _, c := range t.Cols {
		o, n := old[c.Name], new[c.Name]
		if EqVal(o, n) {
			continue
		}
		switch {
		case c.Shape() == ShMap:
			d := EmptyMap()
			for i, k := range n.K {
				if v, ok := o.Get(k); !ok || !EqAtom(v, n.V[i]) {
					d = d.WithPair(k, n.V[i])
				}
			}
			for i, k := range o.K {
				if !n.Has(k) {
					d = d.WithPair(k, o.V[i])
				}
			}
			out[c.Name] = d
		case c.Max == 1:
			out[c.Name] = n.Clone()
		default:
			d := EmptySet()
			for _, a := range n.K {
				if !o.Has(a) {
					d = d.With(a)
				}
			}
			for _, a := range o.K {
				if !n.Has(a) {
					d = d.With(a)
				}
			}
			out[c.Name] = d
		}
	}
	return out
}

// OvsRow renders a canonical row as a decoded ovsdb.Row by way of its JSON text, exactly
// as a row arriving in a notification.
func (t Table) OvsRow(r Row, skipDefaults bool) (ovsdb.Row, error) {
	m := map[string]interface{}{}
	for name, v := range r {
		c := t.ColOf(name)
		if c == nil {
			return nil, fmt.Errorf("unknown column %s", name)
		}
		if skipDefaults && c.IsDefault(v) {
			continue
		}
		if c.Shape() == ShScalar && c.Key.T == TUUID && c.IsDefault(v) {
			// never spelled out: libovsdb keeps an unset scalar uuid as "" (see DESIGN 2.4)
			continue
		}
		m[name] = ValWire(v, c.Shape() == ShScalar, WireOpts{SingleAsAtom: len(v.K) == 1 && !v.M})
	}
	var out ovsdb.Row
	if err := json.Unmarshal(MustJSON(m), &out); err != nil {
		return nil, err
	}
	return out, nil
}
