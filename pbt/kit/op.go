package kit

import (
	"encoding/json"
	"fmt"
)

// Cond is a condition in harness form. Col may be "_uuid".
type Cond struct {
	Col  string `json:"col"`
	Fn   string `json:"fn"`
	Val  Val    `json:"val"`
	Bare bool   `json:"bare,omitempty"` // encode a one-element set argument as the bare atom
}

// Mut is a mutation in harness form.
type Mut struct {
	Col     string `json:"col"`
	Mutator string `json:"mutator"`
	Val     Val    `json:"val"`
	Bare    bool   `json:"bare,omitempty"`
}

// Op is an RFC 7047 operation in harness form; it is rendered to JSON text by
// the harness' own encoder and decoded by libovsdb's decoders, exactly as a
// request arriving at the server would be.
type Op struct {
	Op         string   `json:"op"`
	Table      string   `json:"table,omitempty"`
	Row        Row      `json:"row,omitempty"`
	Rows       []Row    `json:"rows,omitempty"`
	Columns    []string `json:"columns,omitempty"`
	HasColumns bool     `json:"hasColumns,omitempty"`
	Where      []Cond   `json:"where,omitempty"`
	Mutations  []Mut    `json:"mutations,omitempty"`
	Until      string   `json:"until,omitempty"`
	Timeout    *int     `json:"timeout,omitempty"`
	UUID       string   `json:"uuid,omitempty"`
	UUIDName   string   `json:"uuidName,omitempty"`
	Bare       bool     `json:"bare,omitempty"` // encode one-element sets of rows as bare atoms
	// Raw, when set, is the JSON text to send instead of the structured form
	// (used for deliberately malformed operations).
	Raw json.RawMessage `json:"raw,omitempty"`
	// Poison marks a deliberately failing operation: the model does not interpret it
	// and expects an error of this class ("error" = any error) at this position.
	Poison string `json:"poison,omitempty"`
	// PoisonPre: the implementation detects this failure in its validation pass, before
	// any operation runs, and reports it in the first result.
	PoisonPre bool `json:"poisonPre,omitempty"`
}

// UUIDCol describes the implicit _uuid column.
var UUIDCol = Col{Name: "_uuid", Key: Base{T: TUUID}, Min: 1, Max: 1}

// ColOf returns the column description for a name, including _uuid.
func (t Table) ColOf(name string) *Col {
	if name == "_uuid" {
		c := UUIDCol
		return &c
	}
	return t.Col(name)
}

func rowWire(t *Table, r Row, bare bool) map[string]interface{} {
	out := map[string]interface{}{}
	for name, v := range r {
		scalar := false
		if t != nil {
			if c := t.ColOf(name); c != nil {
				scalar = c.Shape() == ShScalar
			}
		}
		out[name] = ValWire(v, scalar, WireOpts{SingleAsAtom: bare})
	}
	return out
}

// Wire returns the JSON-marshalable form of an operation.
func (o Op) Wire(s Schema) interface{} {
	if o.Raw != nil {
		return o.Raw
	}
	t := s.Table(o.Table)
	m := map[string]interface{}{"op": o.Op}
	if o.Table != "" {
		m["table"] = o.Table
	}
	if o.Row != nil {
		m["row"] = rowWire(t, o.Row, o.Bare)
	}
	if o.Rows != nil {
		rows := make([]interface{}, 0, len(o.Rows))
		for _, r := range o.Rows {
			rows = append(rows, rowWire(t, r, o.Bare))
		}
		m["rows"] = rows
	}
	if o.HasColumns || len(o.Columns) > 0 {
		cols := o.Columns
		if cols == nil {
			cols = []string{}
		}
		m["columns"] = cols
	}
	switch o.Op {
	case "select", "update", "mutate", "delete", "wait":
		where := make([]interface{}, 0, len(o.Where))
		for _, c := range o.Where {
			scalar := false
			if t != nil {
				if col := t.ColOf(c.Col); col != nil {
					scalar = col.Shape() == ShScalar
				}
			}
			where = append(where, []interface{}{c.Col, c.Fn, ValWire(c.Val, scalar, WireOpts{SingleAsAtom: c.Bare})})
		}
		m["where"] = where
	}
	if o.Op == "mutate" {
		muts := make([]interface{}, 0, len(o.Mutations))
		for _, mu := range o.Mutations {
			scalar := false
			if t != nil {
				if col := t.ColOf(mu.Col); col != nil {
					scalar = col.Shape() == ShScalar
				}
			}
			muts = append(muts, []interface{}{mu.Col, mu.Mutator, ValWire(mu.Val, scalar, WireOpts{SingleAsAtom: mu.Bare})})
		}
		m["mutations"] = muts
	}
	if o.Until != "" {
		m["until"] = o.Until
	}
	if o.Timeout != nil {
		m["timeout"] = *o.Timeout
	}
	if o.UUID != "" {
		m["uuid"] = o.UUID
	}
	if o.UUIDName != "" {
		m["uuid-name"] = o.UUIDName
	}
	return m
}

// OpsJSON renders a transaction (the list of operations) as a JSON array.
func OpsJSON(s Schema, ops []Op) []byte {
	arr := make([]interface{}, 0, len(ops))
	for _, o := range ops {
		arr = append(arr, o.Wire(s))
	}
	return MustJSON(arr)
}

// Summary is a short human readable rendering of an op (for signatures).
func (o Op) Summary() string {
	s := o.Op
	for _, c := range o.Where {
		s += fmt.Sprintf(" w(%s%s)", c.Col, c.Fn)
	}
	for _, m := range o.Mutations {
		s += fmt.Sprintf(" m(%s%s)", m.Col, m.Mutator)
	}
	return s
}
