// Package kit holds generators, canonical values and harness helpers shared by the property checks.
package kit

import (
	_ "github.com/ovn-org/libovsdb/ovsdb"
	_ "pgregory.net/rapid"
)
