package kit

import (
	"fmt"
	"math"
	"sort"

	"pgregory.net/rapid"
)

// Profile steers schema generation.
type Profile struct {
	MinTables, MaxTables int
	MinCols, MaxCols     int
	Refs                 int  // weight (0..10) of uuid columns that reference tables
	Indexes              int  // max number of schema indexes per table
	Enums                bool // string enums on scalar/optional/set columns
	AnyEnums             bool // enums of every atomic type
	AllMapKeys           bool // also real/boolean map keys (not clonable through JSON)
	Constraints          bool // base type constraints (codec only)
	Immutable            bool
	Ephemeral            bool
	Roots                bool // generate isRoot variations (otherwise all tables root)
	NoMaps, NoSets       bool
	BoundedSets          bool // generate sets with max 2/3 and min 1
	FancyNames           bool // column/table names that need case handling
	ScalarBias           int  // extra weight for scalar columns (index-heavy profiles)
	ImmutableWeak        bool // allow immutable weak-reference columns (known finding otherwise excluded)
	OptIndexes           bool // schema indexes may include optional columns (references too)
	WideBounds           bool // integer constraints may lie beyond +-2^53 (schema codec only)
	MapEnums             bool // string enums also as map keys and map values
}

var (
	// ProfileDB is the default profile for checks that run a database.
	ProfileDB = Profile{MinTables: 1, MaxTables: 3, MinCols: 1, MaxCols: 5, Refs: 2, Indexes: 2, Enums: true, Immutable: true, Roots: true, BoundedSets: true}
	// ProfileRefs is reference heavy.
	ProfileRefs = Profile{MinTables: 2, MaxTables: 4, MinCols: 1, MaxCols: 4, Refs: 8, Indexes: 0, Roots: true, BoundedSets: true}
	// ProfileIndex is index heavy.
	ProfileIndex = Profile{MinTables: 1, MaxTables: 2, MinCols: 2, MaxCols: 5, Refs: 1, Indexes: 2, Enums: true, Immutable: true, Roots: true, ScalarBias: 6, OptIndexes: true}
	// ProfileCodec covers the full type space.
	ProfileCodec = Profile{MinTables: 1, MaxTables: 3, MinCols: 1, MaxCols: 6, Refs: 2, Indexes: 2, Enums: true, AnyEnums: true, AllMapKeys: true, Constraints: true, Immutable: true, Ephemeral: true, Roots: true, BoundedSets: true}
)

// TableName / ColName are the plain generated names.
func TableName(i int) string { return fmt.Sprintf("T%d", i) }
func ColName(i int) string   { return fmt.Sprintf("c%d", i) }

var fancyCols = []string{"external_ids", "mac", "qos_uuid", "other_config", "ipv6_ra_configs", "name", "type", "bfd_status", "up", "nb_cfg", "tcp_port", "datapath_id", "options", "vlan_mode", "_private"}
var fancyTables = []string{"Logical_Switch", "ACL", "NB_Global", "Bridge", "QoS", "DHCP_Options", "Port_Binding", "bfd", "Flow_Sample_Collector_Set", "SSL"}

var enumStrings = []string{"red", "green", "blue", "802.1q", "up-down", "Mixed_Case", "a b", "say \"hi\"", "back\\slash", "dot1q-tunnel",
	// symbol-class, control and combining characters (neither letter, digit, punctuation nor space)
	"rx+tx", "lt<gt", "key=val", "p|q", "~tilde", "c^d", "$var", "tab\tsep", "e\u0301acute", "`tick`"}

// chainFriendlySchema is the shape reference-heavy histories need to get deep into the
// commit-time reference rules and that a freely drawn schema rarely has all at once: a root
// table holding rows of a non-root table, whose rows refer to each other (so that letting go of
// one row is collected in several rounds), and a root table that watches them through weak
// references (a set, and a map's values or an optional column) next to plain columns.
func chainFriendlySchema(t *rapid.T) Schema {
	node := TableName(1)
	strong := func() Base { return Base{T: TUUID, Ref: &Ref{Table: node}} }
	weak := func() Base { return Base{T: TUUID, Ref: &Ref{Table: node, Weak: true}} }
	next := Col{Name: ColName(0), Key: strong(), Min: 0, Max: -1}
	if rapid.Bool().Draw(t, "nextoptional") {
		next.Max = 1
	}
	third := Col{Name: ColName(2), Key: Base{T: TInt}, Min: 1, Max: 1}
	switch rapid.IntRange(0, 2).Draw(t, "watcherthird") {
	case 0:
		v := weak()
		third = Col{Name: ColName(2), Key: Base{T: TStr}, Value: &v, Min: 0, Max: -1}
	case 1:
		third = Col{Name: ColName(2), Key: weak(), Min: 0, Max: 1}
	}
	Label("generator", "schema:chain-friendly")
	return Schema{Name: "DB", Version: "1.0.0", Tables: []Table{
		{Name: TableName(0), IsRoot: true, Cols: []Col{
			{Name: ColName(0), Key: strong(), Min: 0, Max: -1},
			{Name: ColName(1), Key: Base{T: TInt}, Min: 1, Max: 1},
		}},
		{Name: node, Cols: []Col{
			next,
			{Name: ColName(1), Key: Base{T: TInt}, Min: 1, Max: 1},
		}},
		{Name: TableName(2), IsRoot: true, Cols: []Col{
			{Name: ColName(0), Key: weak(), Min: 0, Max: -1},
			{Name: ColName(1), Key: Base{T: TStr}, Min: 1, Max: 1},
			third,
		}},
	}}
}

// GenSchema draws a schema.
func GenSchema(t *rapid.T, p Profile) Schema {
	if p.Refs >= 5 && p.Roots && p.Indexes == 0 && !p.FancyNames && rapid.IntRange(0, 4).Draw(t, "chainfriendly") == 0 {
		return chainFriendlySchema(t)
	}
	nt := rapid.IntRange(p.MinTables, p.MaxTables).Draw(t, "ntables")
	s := Schema{Name: "DB", Version: "1.0.0"}
	names := make([]string, nt)
	for i := range names {
		names[i] = TableName(i)
	}
	if p.FancyNames {
		perm := rapid.Permutation(fancyTables).Draw(t, "tablenames")
		copy(names, perm[:nt])
	}
	anyRoot := false
	for i := 0; i < nt; i++ {
		tb := Table{Name: names[i]}
		nc := rapid.IntRange(p.MinCols, p.MaxCols).Draw(t, "ncols")
		cnames := make([]string, nc)
		for j := range cnames {
			cnames[j] = ColName(j)
		}
		if p.FancyNames {
			perm := rapid.Permutation(fancyCols).Draw(t, "colnames")
			copy(cnames, perm[:nc])
		}
		for j := 0; j < nc; j++ {
			tb.Cols = append(tb.Cols, genCol(t, p, cnames[j], names))
		}
		if p.Roots {
			tb.IsRoot = rapid.IntRange(0, 9).Draw(t, "isRoot") < 6
			anyRoot = anyRoot || tb.IsRoot
		}
		// schema indexes over scalar columns
		var scalars []string
		for _, c := range tb.Cols {
			if (c.Shape() == ShScalar || (p.OptIndexes && c.Shape() == ShOpt)) && !c.Ephemeral {
				scalars = append(scalars, c.Name)
			}
		}
		if p.Indexes > 0 && len(scalars) > 0 {
			ni := rapid.IntRange(0, p.Indexes).Draw(t, "nindexes")
			seen := map[string]bool{}
			for k := 0; k < ni; k++ {
				w := 1
				if len(scalars) > 1 && rapid.Bool().Draw(t, "multi") {
					w = 2
				}
				perm := rapid.Permutation(scalars).Draw(t, "indexcols")
				idx := append([]string{}, perm[:w]...)
				key := append([]string{}, idx...)
				sort.Strings(key)
				ks := fmt.Sprint(key)
				if seen[ks] {
					continue
				}
				seen[ks] = true
				tb.Indexes = append(tb.Indexes, idx)
			}
		}
		s.Tables = append(s.Tables, tb)
	}
	_ = anyRoot
	return s
}

func genBase(t *rapid.T, p Profile, tables []string, mapKey, mapVal bool, shape Shape) Base {
	// weights: int 3, real 2, bool 1, string 4, uuid 2+refs
	types := []AT{TInt, TInt, TInt, TReal, TReal, TBool, TStr, TStr, TStr, TStr, TUUID}
	for i := 0; i < p.Refs; i++ {
		types = append(types, TUUID)
	}
	if mapKey && !p.AllMapKeys {
		types = []AT{TStr, TStr, TStr, TInt, TInt, TUUID}
		for i := 0; i < p.Refs; i++ {
			types = append(types, TUUID)
		}
	}
	b := Base{T: rapid.SampledFrom(types).Draw(t, "atype")}
	if b.T == TUUID && p.Refs > 0 && rapid.IntRange(0, 10).Draw(t, "isref") <= p.Refs+2 {
		b.Ref = &Ref{Table: rapid.SampledFrom(tables).Draw(t, "reftable"), Weak: rapid.IntRange(0, 9).Draw(t, "weak") < 4}
	}
	if (p.Enums || p.AnyEnums) && ((!mapKey && !mapVal) || (p.MapEnums && b.T == TStr)) && b.Ref == nil && rapid.IntRange(0, 9).Draw(t, "enum") < 2 {
		switch {
		case b.T == TStr:
			n := rapid.IntRange(1, 3).Draw(t, "nenum")
			perm := rapid.Permutation(enumStrings).Draw(t, "enumvals")
			for _, s := range perm[:n] {
				b.Enum = append(b.Enum, Str(s))
			}
		case p.AnyEnums && b.T == TInt:
			b.Enum = []Atom{Int(1), Int(2), Int(5)}[:rapid.IntRange(1, 3).Draw(t, "nenum")]
		case p.AnyEnums && b.T == TReal:
			b.Enum = []Atom{Real(0.5), Real(2)}[:rapid.IntRange(1, 2).Draw(t, "nenum")]
		case p.AnyEnums && b.T == TBool:
			b.Enum = []Atom{Bool(true)}
		}
		if len(b.Enum) > 0 {
			v := Val{K: b.Enum}
			v.normalize()
			b.Enum = v.K
		}
	}
	if p.Constraints && len(b.Enum) == 0 && rapid.IntRange(0, 9).Draw(t, "constr") < 4 {
		i64 := func(lbl string, lo, hi int64) *int64 {
			if !rapid.Bool().Draw(t, lbl+"?") {
				return nil
			}
			v := rapid.Int64Range(lo, hi).Draw(t, lbl)
			return &v
		}
		switch b.T {
		case TInt:
			b.MinInteger = i64("minInteger", -1000, 0)
			b.MaxInteger = i64("maxInteger", 1, 1<<40)
			if p.WideBounds && rapid.IntRange(0, 3).Draw(t, "widebounds") == 0 {
				// bounds that a float64 cannot hold exactly
				lo := rapid.SampledFrom([]int64{-1 << 63, -1<<63 + 1, -1<<53 - 1, -1<<53 - 3, -4611686018427387905}).Draw(t, "wideMin")
				hi := rapid.SampledFrom([]int64{1<<63 - 1, 1<<63 - 2, 1<<53 + 1, 1<<53 + 3, 4611686018427387905}).Draw(t, "wideMax")
				if b.MinInteger != nil {
					b.MinInteger = &lo
				}
				if b.MaxInteger != nil {
					b.MaxInteger = &hi
				}
			}
		case TReal:
			if rapid.Bool().Draw(t, "minReal?") {
				v := float64(rapid.IntRange(-100, 0).Draw(t, "minReal")) / 4
				b.MinReal = &v
			}
			if rapid.Bool().Draw(t, "maxReal?") {
				v := float64(rapid.IntRange(1, 1000).Draw(t, "maxReal")) / 4
				b.MaxReal = &v
			}
			if p.WideBounds && rapid.IntRange(0, 3).Draw(t, "extremeReal") == 0 {
				// a schema may spell out the whole range of a double
				lo, hi := -math.MaxFloat64, math.MaxFloat64
				switch rapid.IntRange(0, 2).Draw(t, "extremeRealSide") {
				case 0:
					b.MinReal = &lo
				case 1:
					b.MaxReal = &hi
				default:
					b.MinReal, b.MaxReal = &lo, &hi
				}
				Label("generator", "schema:real-bound-at-the-end-of-the-range")
			}
		case TStr:
			b.MinLength = i64("minLength", 0, 2)
			b.MaxLength = i64("maxLength", 3, 64)
		}
	}
	return b
}

func genCol(t *rapid.T, p Profile, name string, tables []string) Col {
	shapes := []Shape{ShScalar, ShScalar, ShScalar, ShOpt, ShOpt, ShSet, ShSet, ShMap, ShMap}
	for i := 0; i < p.ScalarBias; i++ {
		shapes = append(shapes, ShScalar)
	}
	var sh Shape
	for {
		sh = rapid.SampledFrom(shapes).Draw(t, "shape")
		if (sh == ShMap && p.NoMaps) || (sh == ShSet && p.NoSets) {
			continue
		}
		break
	}
	c := Col{Name: name, Min: 1, Max: 1}
	switch sh {
	case ShScalar:
		c.Key = genBase(t, p, tables, false, false, sh)
	case ShOpt:
		c.Min, c.Max = 0, 1
		c.Key = genBase(t, p, tables, false, false, sh)
	case ShSet:
		c.Min, c.Max = 0, -1
		if p.BoundedSets {
			switch rapid.IntRange(0, 5).Draw(t, "setbounds") {
			case 0:
				c.Min, c.Max = 1, -1
			case 1:
				c.Min, c.Max = 0, 3
			case 2:
				c.Min, c.Max = 1, 2
			}
		}
		c.Key = genBase(t, p, tables, false, false, sh)
	case ShMap:
		c.Min, c.Max = 0, -1
		if p.BoundedSets && rapid.IntRange(0, 5).Draw(t, "mapbounds") == 0 {
			c.Min, c.Max = 0, 2
		}
		c.Key = genBase(t, p, tables, true, false, sh)
		v := genBase(t, p, tables, false, true, sh)
		c.Value = &v
	}
	if p.Immutable && rapid.IntRange(0, 9).Draw(t, "immutable") == 0 {
		c.Immutable = true
		// known finding (weak-prune-immutable): pruning a dangling weak reference from an
		// immutable column is refused by the implementation; excluded by construction
		weak := (c.Key.Ref != nil && c.Key.Ref.Weak) || (c.Value != nil && c.Value.Ref != nil && c.Value.Ref.Weak)
		if weak && !p.ImmutableWeak {
			c.Immutable = false
			Label("generator", "excluded_known:weak-prune-immutable")
		}
	}
	if p.Ephemeral && rapid.IntRange(0, 9).Draw(t, "ephemeral") == 0 {
		c.Ephemeral = true
	}
	return c
}

// ---- values ----

// Pool is the universe values are drawn from.
type Pool struct {
	// RowUUIDs lists, per table, UUIDs of rows that exist (or are being created).
	RowUUIDs map[string][]string
	// Extra UUIDs that refer to nothing (dangling candidates).
	Dangling []string
	// Names are symbolic uuid names usable in this transaction.
	Names []string
	// NameTable gives the table of the insert that defines each name. A name is only
	// offered for reference columns of that table (known finding cross-table-uuid:
	// a uuid that exists in one table and is referenced, dangling, as a row of another
	// confuses the reference tracker; excluded by construction).
	NameTable map[string]string
	// Wide enables full-range values.
	Wide bool
	// NoDangling forbids references to non-existing rows.
	NoDangling bool
	// Big draws atoms from a universe of 300 values per type and lets sets and maps have
	// dozens of elements (sizes around 9-12, 30-40, 64-70 and 100-120): size thresholds.
	Big bool
}

// bigSizes are the collection sizes of the Big mode.
var bigSizes = []int{9, 10, 12, 17, 31, 33, 40, 63, 64, 65, 70, 100, 120}

// bigAtom draws the i-th value of the Big universe of a base type (ok=false: no such universe).
func bigAtom(t *rapid.T, b Base) (Atom, bool) {
	i := rapid.IntRange(0, 299).Draw(t, "bigatom")
	switch b.T {
	case TInt:
		v := int64(i)
		if b.MinInteger != nil && v < *b.MinInteger {
			v = *b.MinInteger
		}
		if b.MaxInteger != nil && v > *b.MaxInteger {
			v = *b.MaxInteger
		}
		return Int(v), true
	case TReal:
		f := float64(i) * 0.5
		if b.MinReal != nil && f < *b.MinReal {
			f = *b.MinReal
		}
		if b.MaxReal != nil && f > *b.MaxReal {
			f = *b.MaxReal
		}
		return Real(f), true
	case TStr:
		if b.MinLength != nil || b.MaxLength != nil {
			return Atom{}, false
		}
		return Str(fmt.Sprintf("s%d", i)), true
	case TUUID:
		if b.Ref == nil {
			return UUID(MkUUID(710000 + i)), true
		}
	}
	return Atom{}, false
}

// MkUUID builds the n-th deterministic UUID.
func MkUUID(n int) string { return fmt.Sprintf("00000000-0000-4000-8000-%012d", n) }

var plainUUIDs = []string{MkUUID(900001), MkUUID(900002), MkUUID(900003)}

var smallStrings = []string{"", "a", "b", "c", "ab"}
var hostileStrings = []string{"\"", "\\", "é", "日本", "a\nb", "\u0000", "set", "uuid", "named-uuid", "map", "[]", "{}", "null", "<", " "}

// GenAtom draws an atom of a base type.
func GenAtom(t *rapid.T, b Base, pool *Pool) Atom {
	if len(b.Enum) > 0 {
		return rapid.SampledFrom(b.Enum).Draw(t, "enumv")
	}
	if pool != nil && pool.Big {
		if a, ok := bigAtom(t, b); ok {
			return a
		}
	}
	wide := pool != nil && pool.Wide && rapid.IntRange(0, 9).Draw(t, "wide") < 3
	switch b.T {
	case TInt:
		lo, hi := int64(-1), int64(3)
		if b.MinInteger != nil && *b.MinInteger > lo {
			lo = *b.MinInteger
		}
		if b.MaxInteger != nil && *b.MaxInteger < hi {
			hi = *b.MaxInteger
		}
		if wide {
			wlo, whi := int64(-1<<63), int64(1<<63-1)
			if b.MinInteger != nil {
				wlo = *b.MinInteger
			}
			if b.MaxInteger != nil {
				whi = *b.MaxInteger
			}
			return Int(rapid.Int64Range(wlo, whi).Draw(t, "int"))
		}
		if lo > hi {
			hi = lo
		}
		return Int(rapid.Int64Range(lo, hi).Draw(t, "int"))
	case TReal:
		if wide {
			f := rapid.Float64().Draw(t, "real")
			if b.MinReal != nil && f < *b.MinReal {
				f = *b.MinReal
			}
			if b.MaxReal != nil && f > *b.MaxReal {
				f = *b.MaxReal
			}
			return Real(f)
		}
		c := []float64{0, 0.5, -1.5, 2, 1e10}
		f := rapid.SampledFrom(c).Draw(t, "real")
		if b.MinReal != nil && f < *b.MinReal {
			f = *b.MinReal
		}
		if b.MaxReal != nil && f > *b.MaxReal {
			f = *b.MaxReal
		}
		return Real(f)
	case TBool:
		return Bool(rapid.Bool().Draw(t, "bool"))
	case TStr:
		var s string
		switch {
		case wide && rapid.Bool().Draw(t, "hostile"):
			s = rapid.SampledFrom(hostileStrings).Draw(t, "str")
		case wide:
			s = rapid.StringN(0, 12, 40).Draw(t, "str")
		default:
			s = rapid.SampledFrom(smallStrings).Draw(t, "str")
		}
		if b.MinLength != nil {
			for int64(len([]rune(s))) < *b.MinLength {
				s += "x"
			}
		}
		if b.MaxLength != nil && int64(len([]rune(s))) > *b.MaxLength {
			s = string([]rune(s)[:*b.MaxLength])
		}
		return Str(s)
	default:
		var cands []string
		if b.Ref != nil && pool != nil {
			cands = append(cands, pool.RowUUIDs[b.Ref.Table]...)
			// bias: existing rows 3x
			cands = append(cands, pool.RowUUIDs[b.Ref.Table]...)
			cands = append(cands, pool.RowUUIDs[b.Ref.Table]...)
			if !pool.NoDangling {
				cands = append(cands, pool.Dangling...)
			}
			for _, n := range pool.Names {
				if tb, ok := pool.NameTable[n]; !ok || tb == b.Ref.Table {
					cands = append(cands, n)
				} else {
					Label("generator", "excluded_known:cross-table-uuid")
				}
			}
		} else {
			cands = append(cands, plainUUIDs...)
			if pool != nil {
				cands = append(cands, pool.Names...)
			}
		}
		if len(cands) == 0 {
			cands = append(cands, plainUUIDs...)
		}
		return UUID(rapid.SampledFrom(cands).Draw(t, "uuid"))
	}
}

// GenVal draws a value for a column, within its cardinality bounds.
func GenVal(t *rapid.T, c Col, pool *Pool) Val {
	switch c.Shape() {
	case ShScalar:
		return Scalar(GenAtom(t, c.Key, pool))
	case ShOpt:
		if rapid.IntRange(0, 2).Draw(t, "present") == 0 {
			return EmptySet()
		}
		return Scalar(GenAtom(t, c.Key, pool))
	case ShSet:
		max := c.Max
		if max < 0 || max > 4 {
			max = 4
		}
		n := rapid.IntRange(c.Min, max).Draw(t, "setlen")
		tryLimit := 12
		if pool != nil && pool.Big && (c.Max < 0 || c.Max > 4) && rapid.IntRange(0, 2).Draw(t, "bigset") > 0 {
			n = rapid.SampledFrom(bigSizes).Draw(t, "bigsetlen")
			if c.Max >= 0 && n > c.Max {
				n = c.Max
			}
			tryLimit = 3 * n
		}
		v := EmptySet()
		for tries := 0; len(v.K) < n && tries < tryLimit; tries++ {
			v = v.With(GenAtom(t, c.Key, pool))
		}
		// cannot always reach n with a tiny universe (bool, enum); make sure Min holds if possible
		return v
	default:
		max := c.Max
		if max < 0 || max > 3 {
			max = 3
		}
		n := rapid.IntRange(c.Min, max).Draw(t, "maplen")
		tryLimit := 12
		if pool != nil && pool.Big && (c.Max < 0 || c.Max > 3) && rapid.IntRange(0, 2).Draw(t, "bigmap") > 0 {
			n = rapid.SampledFrom(bigSizes).Draw(t, "bigmaplen")
			if c.Max >= 0 && n > c.Max {
				n = c.Max
			}
			tryLimit = 3 * n
		}
		v := EmptyMap()
		for tries := 0; len(v.K) < n && tries < tryLimit; tries++ {
			v = v.WithPair(GenAtom(t, c.Key, pool), GenAtom(t, *c.Value, pool))
		}
		return v
	}
}

// GenRow draws a row for a table; each column is present with probability ~2/3
// unless all is set.
func GenRow(t *rapid.T, tb Table, pool *Pool, all bool) Row {
	r := Row{}
	for _, c := range tb.Cols {
		if all || rapid.IntRange(0, 2).Draw(t, "col?") > 0 {
			r[c.Name] = GenVal(t, c, pool)
		}
	}
	return r
}
