// Package refdb is an independently written, deliberately naive executable model
// of the parts of RFC 7047 the properties talk about: conditions and mutations
// (5.1), the operations insert/select/update/mutate/delete/wait (5.2), named
// uuids, and the commit procedure (garbage collection of unreferenced non-root
// rows, strong/weak referential integrity, unique indexes: 3.2, 4.1.3). It works
// on canonical values (kit.Val) with full scans only and shares no code with
// libovsdb.
package refdb

import (
	"fmt"
	"math"
	"sort"

	"verif/pbt/kit"
)

// Error classes. Only the RFC-defined strings are compared verbatim by callers.
const (
	ErrGeneric     = "error"
	ErrConstraint  = "constraint violation"
	ErrRefIntegity = "referential integrity violation"
	ErrTimedOut    = "timed out"
	ErrDomain      = "domain error"
	ErrNotSupp     = "not supported"
)

// OpResult is the model's answer for one operation.
type OpResult struct {
	Err   string    `json:"err,omitempty"`
	Count int       `json:"count,omitempty"`
	UUID  string    `json:"uuid,omitempty"`
	Rows  []kit.Row `json:"rows,omitempty"` // select: full rows, "_uuid" included
	// MayReject names a tolerance class: the implementation documents that it does
	// not support this form and may answer with any error instead.
	MayReject string `json:"mayReject,omitempty"`
	Detail    string `json:"detail,omitempty"`
}

// TxnResult is the model's answer for a transaction.
type TxnResult struct {
	Results   []OpResult `json:"results"`
	FailedAt  int        `json:"failedAt"` // index of the failing op, -1 if none
	CommitErr string     `json:"commitErr,omitempty"`
	// CommitCauses lists every reason the commit is rejected for (the implementation may
	// report any one of them).
	CommitCauses []string          `json:"commitCauses,omitempty"`
	Detail       string            `json:"detail,omitempty"`
	Post         kit.State         `json:"-"`
	Committed    bool              `json:"committed"`
	Names        map[string]string `json:"names,omitempty"`
	// PreValidation: the failure is detected before any operation runs; its position in
	// the reply is not compared.
	PreValidation bool `json:"preValidation,omitempty"`
	// MayReject lists tolerance classes hit anywhere in the transaction.
	MayReject []string `json:"mayRejectClasses,omitempty"`
	// CommitMayReject: at commit time the implementation may reject although the model accepts.
	CommitMayReject string `json:"commitMayReject,omitempty"`
	// GC / pruning bookkeeping for non-triviality labels.
	GCDeleted  int  `json:"gcDeleted,omitempty"`
	WeakPruned int  `json:"weakPruned,omitempty"`
	Transient  bool `json:"transientDuplicate,omitempty"`
	// MaxIndexMult is the largest number of rows that held the same index tuple at the
	// same time at any point of the transaction (1 = never a duplicate).
	MaxIndexMult int `json:"maxIndexMultiplicity,omitempty"`
	// LookupAfterDup: an operation selected rows through conditions that cover a schema
	// index on which a transient duplicate existed earlier in the same transaction.
	LookupAfterDup bool `json:"lookupAfterTransientDuplicate,omitempty"`
	// NegativeZero: a real mutation produced -0.0 (outside the generated domain: JSON and
	// Go's gob, used for multi-column index values, distinguish it from 0.0; OVSDB does not).
	NegativeZero bool `json:"negativeZero,omitempty"`
	// CrossTableDangling: some reference (before pruning) names a uuid that is not a row of
	// the table it refers to after the transaction but is a row of another table - the
	// shape of the known finding cross-table-uuid (outcome depends on map order).
	CrossTableDangling bool `json:"crossTableDangling,omitempty"`
}

// Exec runs a transaction against state st (which is not modified). assigned
// supplies the UUID the implementation chose for an insert without "uuid".
func Exec(s kit.Schema, st kit.State, ops []kit.Op, assigned func(i int) string) TxnResult {
	res := TxnResult{FailedAt: -1, Names: map[string]string{}}
	work := st.Clone()
	for _, t := range s.Tables {
		if work[t.Name] == nil {
			work[t.Name] = kit.Rows{}
		}
	}
	fail := func(i int, class, detail string) TxnResult {
		res.Results = append(res.Results, OpResult{Err: class, Detail: detail})
		res.FailedAt = i
		res.Post = st
		return res
	}

	// pass 1: bind names, decide insert uuids
	insertUUID := map[int]string{}
	for i, op := range ops {
		if op.Op != "insert" {
			continue
		}
		u := op.UUID
		if op.UUIDName != "" {
			if _, ok := res.Names[op.UUIDName]; ok {
				// RFC 7047: "duplicate uuid-name". Reported for the transaction as a whole
				// (the implementation validates names before executing anything).
				res.PreValidation = true
				return failAll(res, st, ErrGeneric, "duplicate uuid-name "+op.UUIDName)
			}
		}
		if u == "" && assigned != nil {
			u = assigned(i)
		}
		if u == "" {
			u = kit.MkUUID(800000 + i)
		}
		insertUUID[i] = u
		if op.UUIDName != "" {
			res.Names[op.UUIDName] = u
		}
	}
	resolveAtom := func(a kit.Atom) (kit.Atom, bool) {
		if a.T != kit.TUUID || kit.IsUUID(a.S) {
			return a, true
		}
		if u, ok := res.Names[a.S]; ok {
			return kit.UUID(u), true
		}
		return a, false
	}
	resolve := func(v kit.Val) (kit.Val, bool) {
		out := kit.Val{M: v.M, K: make([]kit.Atom, len(v.K))}
		ok := true
		for i, a := range v.K {
			r, o := resolveAtom(a)
			ok = ok && o
			out.K[i] = r
		}
		if v.M {
			vals := make([]kit.Atom, len(v.V))
			for i, a := range v.V {
				r, o := resolveAtom(a)
				ok = ok && o
				vals[i] = r
			}
			out = kit.MapOf(interleave(out.K, vals)...)
		} else {
			out = kit.SetOf(out.K...)
		}
		return out, ok
	}

	matching := func(t *kit.Table, where []kit.Cond) ([]string, OpResult) {
		var r OpResult
		// validate conditions first (errors do not depend on rows)
		conds := make([]kit.Cond, len(where))
		for i, c := range where {
			col := t.ColOf(c.Col)
			if col == nil {
				return nil, OpResult{Err: ErrGeneric, Detail: "unknown column " + c.Col}
			}
			v, ok := resolve(c.Val)
			if !ok {
				return nil, OpResult{Err: ErrGeneric, Detail: "unknown named uuid"}
			}
			c.Val = v
			conds[i] = c
			class, may := checkCond(*col, c)
			if class != "" {
				return nil, OpResult{Err: class, Detail: fmt.Sprintf("condition %s %s", c.Col, c.Fn)}
			}
			if may != "" {
				r.MayReject = may
			}
		}
		var out []string
		for _, u := range kit.SortedUUIDs(work[t.Name]) {
			row := work[t.Name][u]
			all := true
			for _, c := range conds {
				col := t.ColOf(c.Col)
				var cur kit.Val
				if c.Col == "_uuid" {
					cur = kit.Scalar(kit.UUID(u))
				} else {
					cur = row[c.Col]
				}
				if !EvalCond(*col, cur, c.Fn, c.Val) {
					all = false
					break
				}
			}
			if all {
				out = append(out, u)
			}
		}
		return out, r
	}

	for _, op := range ops {
		if op.Poison != "" && op.PoisonPre {
			res.PreValidation = true
			return failAll(res, st, op.Poison, "poisoned operation (validation pass)")
		}
	}
	dupSeen := map[string]bool{}
	for i, op := range ops {
		if op.Poison != "" {
			res.PreValidation = res.PreValidation || op.PoisonPre
			return fail(i, op.Poison, "poisoned operation")
		}
		t := s.Table(op.Table)
		if t != nil {
			for _, idx := range t.Indexes {
				if !dupSeen[t.Name+"/"+fmt.Sprint(idx)] {
					continue
				}
				covered := 0
				for _, cn := range idx {
					for _, c := range op.Where {
						if c.Col == cn && (c.Fn == "==" || c.Fn == "includes") {
							covered++
							break
						}
					}
				}
				if covered == len(idx) {
					res.LookupAfterDup = true
				}
			}
		}
		if t == nil {
			// includes commit/abort/comment/assert, which have no table: the
			// implementation rejects every operation without a known table.
			if op.Op == "commit" || op.Op == "comment" {
				res.MayReject = append(res.MayReject, "op:"+op.Op)
				res.Results = append(res.Results, OpResult{MayReject: "op:" + op.Op})
				continue
			}
			return fail(i, ErrGeneric, "unknown table or unsupported op "+op.Op)
		}
		var r OpResult
		switch op.Op {
		case "insert":
			u := insertUUID[i]
			if !kit.IsUUID(u) {
				return fail(i, ErrGeneric, "invalid uuid")
			}
			row := t.FillDefaults(nil)
			for name, v := range op.Row {
				col := t.Col(name)
				if col == nil {
					return fail(i, ErrGeneric, "unknown column "+name)
				}
				rv, ok := resolve(v)
				if !ok {
					return fail(i, ErrGeneric, "unknown named uuid")
				}
				if err := CheckVal(*col, rv); err != "" {
					return fail(i, ErrGeneric, err)
				}
				row[name] = rv
			}
			if _, exists := work[t.Name][u]; exists {
				return fail(i, ErrGeneric, "duplicate uuid")
			}
			if _, exists := st[t.Name][u]; exists {
				// deleted earlier in this transaction and re-inserted: outside the generated domain
				return fail(i, ErrGeneric, "duplicate uuid")
			}
			work[t.Name][u] = row
			r.UUID = u
		case "select":
			us, mr := matching(t, op.Where)
			if mr.Err != "" {
				return fail(i, mr.Err, mr.Detail)
			}
			r.MayReject = mr.MayReject
			for _, c := range op.Columns {
				if t.ColOf(c) == nil {
					return fail(i, ErrGeneric, "unknown column "+c)
				}
			}
			for _, u := range us {
				full := work[t.Name][u].Clone()
				full["_uuid"] = kit.Scalar(kit.UUID(u))
				if op.HasColumns || len(op.Columns) > 0 {
					proj := kit.Row{}
					for _, c := range op.Columns {
						proj[c] = full[c]
					}
					full = proj
				}
				r.Rows = append(r.Rows, full)
			}
		case "update":
			us, mr := matching(t, op.Where)
			if mr.Err != "" {
				return fail(i, mr.Err, mr.Detail)
			}
			r.MayReject = mr.MayReject
			newVals := kit.Row{}
			for name, v := range op.Row {
				col := t.Col(name)
				if col == nil {
					return fail(i, ErrGeneric, "unknown column "+name)
				}
				rv, ok := resolve(v)
				if !ok {
					return fail(i, ErrGeneric, "unknown named uuid")
				}
				if err := CheckVal(*col, rv); err != "" {
					return fail(i, ErrGeneric, err)
				}
				newVals[name] = rv
			}
			for _, u := range us {
				for name, v := range newVals {
					col := t.Col(name)
					if col.Immutable {
						if !kit.EqVal(work[t.Name][u][name], v) {
							return fail(i, ErrConstraint, "immutable column "+name)
						}
						r.MayReject = "update:immutable-same-value"
					}
				}
			}
			for _, u := range us {
				for name, v := range newVals {
					work[t.Name][u][name] = v.Clone()
				}
			}
			r.Count = len(us)
		case "mutate":
			us, mr := matching(t, op.Where)
			if mr.Err != "" {
				return fail(i, mr.Err, mr.Detail)
			}
			r.MayReject = mr.MayReject
			muts := make([]kit.Mut, len(op.Mutations))
			invalidUnevaluated := false
			for j, m := range op.Mutations {
				col := t.Col(m.Col)
				if col == nil {
					return fail(i, ErrGeneric, "unknown column "+m.Col)
				}
				rv, ok := resolve(m.Val)
				if !ok {
					return fail(i, ErrGeneric, "unknown named uuid")
				}
				m.Val = rv
				muts[j] = m
				class, may := CheckMutation(*col, m)
				if class != "" {
					if len(us) == 0 {
						// the implementation validates mutations per matched row: with no row
						// matched it answers count 0 where RFC 7047 reports the error
						invalidUnevaluated = true
						continue
					}
					return fail(i, class, fmt.Sprintf("mutation %s %s", m.Col, m.Mutator))
				}
				if may != "" {
					r.MayReject = may
				}
			}
			if invalidUnevaluated {
				r.MayReject = "mutate:invalid-but-no-row-matched"
				r.Count = 0
				break
			}
			for _, u := range us {
				for _, m := range muts {
					col := t.Col(m.Col)
					nv, class, may := ApplyMutation(*col, work[t.Name][u][m.Col], m)
					for _, a := range nv.K {
						if a.T == kit.TReal && a.R == 0 && math.Signbit(a.R) {
							res.NegativeZero = true
						}
					}
					if class != "" {
						return fail(i, class, fmt.Sprintf("mutation %s %s", m.Col, m.Mutator))
					}
					if may != "" {
						r.MayReject = may
					}
					work[t.Name][u][m.Col] = nv
				}
			}
			r.Count = len(us)
		case "delete":
			us, mr := matching(t, op.Where)
			if mr.Err != "" {
				return fail(i, mr.Err, mr.Detail)
			}
			r.MayReject = mr.MayReject
			for _, u := range us {
				delete(work[t.Name], u)
			}
			r.Count = len(us)
		case "wait":
			if op.Until != "==" && op.Until != "!=" {
				return fail(i, ErrNotSupp, "until "+op.Until)
			}
			us, mr := matching(t, op.Where)
			if mr.Err != "" {
				return fail(i, mr.Err, mr.Detail)
			}
			r.MayReject = mr.MayReject
			cols := op.Columns
			if !op.HasColumns && len(cols) == 0 {
				for _, c := range t.Cols {
					cols = append(cols, c.Name)
				}
			}
			for _, c := range cols {
				if t.ColOf(c) == nil {
					return fail(i, ErrGeneric, "unknown column "+c)
				}
			}
			have := map[string]bool{}
			for _, u := range us {
				proj := kit.Row{}
				for _, c := range cols {
					if c == "_uuid" {
						proj[c] = kit.Scalar(kit.UUID(u))
					} else {
						proj[c] = work[t.Name][u][c]
					}
				}
				have[proj.Key()] = true
			}
			want := map[string]bool{}
			for _, er := range op.Rows {
				proj := kit.Row{}
				for _, c := range cols {
					col := t.ColOf(c)
					v, ok := er[c]
					if !ok {
						v = col.Default()
					}
					rv, ok2 := resolve(v)
					if !ok2 {
						return fail(i, ErrGeneric, "unknown named uuid")
					}
					if err := CheckVal(*col, rv); err != "" {
						return fail(i, ErrGeneric, err)
					}
					proj[c] = rv
				}
				for name := range er {
					if t.ColOf(name) == nil {
						return fail(i, ErrGeneric, "unknown column "+name)
					}
				}
				want[proj.Key()] = true
			}
			equal := len(have) == len(want)
			for k := range have {
				if !want[k] {
					equal = false
				}
			}
			if (op.Until == "==") != equal {
				return fail(i, ErrTimedOut, "wait")
			}
		default:
			return fail(i, ErrNotSupp, "op "+op.Op)
		}
		if r.MayReject != "" {
			res.MayReject = append(res.MayReject, r.MayReject)
		}
		res.Results = append(res.Results, r)
		if m := IndexMultiplicity(s, work); m > res.MaxIndexMult {
			res.MaxIndexMult = m
		}
		for _, tt := range s.Tables {
			for _, idx := range tt.Indexes {
				one := kit.Schema{Tables: []kit.Table{{Name: tt.Name, Cols: tt.Cols, Indexes: [][]string{idx}}}}
				if IndexMultiplicity(one, work) >= 2 {
					dupSeen[tt.Name+"/"+fmt.Sprint(idx)] = true
				}
			}
		}
	}
	res.Transient = res.MaxIndexMult > 1

	// transient duplicates (for C06 labels): any index duplicate before GC is not final
	post, gc, pruned, causes, detail, may := Commit(s, st, work)
	res.CrossTableDangling = crossTableDangling(s, st, work, post)
	res.GCDeleted, res.WeakPruned = gc, pruned
	res.CommitMayReject = may
	if len(causes) > 0 {
		res.CommitErr = causes[0]
		res.CommitCauses = causes
		res.Detail = detail
		res.Post = st
		return res
	}
	res.Post = post
	res.Committed = true
	return res
}

// crossTableDangling: see TxnResult.CrossTableDangling.
func crossTableDangling(s kit.Schema, states ...kit.State) bool {
	post := states[len(states)-1]
	elsewhere := func(table, u string) bool {
		for _, st := range states {
			for tn, rows := range st {
				if tn == table {
					continue
				}
				if _, ok := rows[u]; ok {
					return true
				}
			}
		}
		return false
	}
	for _, st := range states {
		for ti := range s.Tables {
			t := &s.Tables[ti]
			for _, site := range refSites(t) {
				for _, row := range st[t.Name] {
					for _, to := range siteTargets(site, row) {
						if _, ok := post[site.ref.Table][to]; !ok && elsewhere(site.ref.Table, to) {
							return true
						}
					}
				}
			}
		}
	}
	return false
}

func failAll(res TxnResult, st kit.State, class, detail string) TxnResult {
	res.Results = []OpResult{{Err: class, Detail: detail}}
	res.FailedAt = 0
	res.Post = st
	return res
}

func interleave(k, v []kit.Atom) []kit.Atom {
	out := make([]kit.Atom, 0, 2*len(k))
	for i := range k {
		out = append(out, k[i], v[i])
	}
	return out
}

// CheckVal validates a value against a column type; returns "" or a description.
func CheckVal(c kit.Col, v kit.Val) string {
	if (c.Shape() == kit.ShMap) != v.M {
		return fmt.Sprintf("column %s: map/set mismatch", c.Name)
	}
	for _, a := range v.K {
		if a.T != c.Key.T {
			return fmt.Sprintf("column %s: element type %s, want %s", c.Name, a.T, c.Key.T)
		}
	}
	if v.M {
		for _, a := range v.V {
			if a.T != c.Value.T {
				return fmt.Sprintf("column %s: value type %s, want %s", c.Name, a.T, c.Value.T)
			}
		}
	}
	switch c.Shape() {
	case kit.ShScalar:
		if len(v.K) != 1 {
			return fmt.Sprintf("column %s: %d elements for a scalar", c.Name, len(v.K))
		}
	case kit.ShOpt:
		if len(v.K) > 1 {
			return fmt.Sprintf("column %s: %d elements for an optional", c.Name, len(v.K))
		}
	}
	return ""
}

func numeric(t kit.AT) bool { return t == kit.TInt || t == kit.TReal }

// checkCond validates a condition statically. Returns an error class ("" if
// fine) and a may-reject class.
func checkCond(c kit.Col, cond kit.Cond) (string, string) {
	sh := c.Shape()
	// argument typing: same type as the column
	arg := cond.Val
	if (sh == kit.ShMap) != arg.M {
		return ErrGeneric, ""
	}
	for _, a := range arg.K {
		if a.T != c.Key.T {
			return ErrGeneric, ""
		}
	}
	if arg.M {
		for _, a := range arg.V {
			if a.T != c.Value.T {
				return ErrGeneric, ""
			}
		}
	}
	if sh == kit.ShScalar && len(arg.K) != 1 {
		return ErrGeneric, ""
	}
	if sh == kit.ShOpt && len(arg.K) > 1 {
		return ErrGeneric, ""
	}
	switch cond.Fn {
	case "==", "!=":
		return "", ""
	case "includes", "excludes":
		if sh == kit.ShOpt {
			return "", "cond:includes-on-optional"
		}
		return "", ""
	case "<", "<=", ">", ">=":
		if sh == kit.ShScalar && numeric(c.Key.T) {
			return "", ""
		}
		return ErrGeneric, ""
	}
	return ErrGeneric, ""
}

// EvalCond evaluates a (validated) condition per RFC 7047 5.1.
func EvalCond(c kit.Col, cur kit.Val, fn string, arg kit.Val) bool {
	if c.Shape() == kit.ShScalar {
		x, y := cur.K[0], arg.K[0]
		switch fn {
		case "==", "includes":
			return kit.EqAtom(x, y)
		case "!=", "excludes":
			return !kit.EqAtom(x, y)
		case "<":
			return kit.CmpAtom(x, y) < 0
		case "<=":
			return kit.CmpAtom(x, y) <= 0
		case ">":
			return kit.CmpAtom(x, y) > 0
		case ">=":
			return kit.CmpAtom(x, y) >= 0
		}
		return false
	}
	switch fn {
	case "==":
		return kit.EqVal(cur, arg)
	case "!=":
		return !kit.EqVal(cur, arg)
	case "includes":
		for i, a := range arg.K {
			if arg.M {
				v, ok := cur.Get(a)
				if !ok || !kit.EqAtom(v, arg.V[i]) {
					return false
				}
			} else if !cur.Has(a) {
				return false
			}
		}
		return true
	case "excludes":
		for i, a := range arg.K {
			if arg.M {
				v, ok := cur.Get(a)
				if ok && kit.EqAtom(v, arg.V[i]) {
					return false
				}
			} else if cur.Has(a) {
				return false
			}
		}
		return true
	}
	return false
}

// CheckMutation validates a mutation statically (independent of the row).
func CheckMutation(c kit.Col, m kit.Mut) (string, string) {
	if c.Immutable {
		return ErrGeneric, ""
	}
	sh := c.Shape()
	arith := m.Mutator == "+=" || m.Mutator == "-=" || m.Mutator == "*=" || m.Mutator == "/=" || m.Mutator == "%="
	may := ""
	if len(c.Key.Enum) > 0 {
		may = "mutate:enum"
	}
	switch {
	case arith:
		if sh == kit.ShMap {
			return ErrGeneric, ""
		}
		if !numeric(c.Key.T) || (c.Key.T == kit.TReal && m.Mutator == "%=") {
			return ErrGeneric, ""
		}
		if m.Val.M || len(m.Val.K) != 1 || m.Val.K[0].T != c.Key.T {
			return ErrGeneric, ""
		}
		if sh != kit.ShScalar {
			may = "mutate:arithmetic-on-set"
		}
		return "", may
	case m.Mutator == "insert" || m.Mutator == "delete":
		switch sh {
		case kit.ShScalar:
			return ErrGeneric, ""
		case kit.ShOpt, kit.ShSet:
			if m.Val.M {
				return ErrGeneric, ""
			}
			for _, a := range m.Val.K {
				if a.T != c.Key.T {
					return ErrGeneric, ""
				}
			}
			if sh == kit.ShOpt {
				may = "mutate:insert-delete-on-optional"
			}
			return "", may
		default:
			if m.Val.M {
				for i := range m.Val.K {
					if m.Val.K[i].T != c.Key.T || m.Val.V[i].T != c.Value.T {
						return ErrGeneric, ""
					}
				}
				return "", may
			}
			if m.Mutator == "insert" {
				return ErrGeneric, ""
			}
			for _, a := range m.Val.K {
				if a.T != c.Key.T {
					return ErrGeneric, ""
				}
			}
			return "", may
		}
	}
	return ErrGeneric, ""
}

func arith(mutator string, x, y kit.Atom) (kit.Atom, string, string) {
	if x.T == kit.TInt {
		a, b := x.I, y.I
		switch mutator {
		case "+=":
			r := a + b
			if (b > 0 && r < a) || (b < 0 && r > a) {
				return kit.Int(r), "", "mutate:overflow"
			}
			return kit.Int(r), "", ""
		case "-=":
			r := a - b
			if (b < 0 && r < a) || (b > 0 && r > a) {
				return kit.Int(r), "", "mutate:overflow"
			}
			return kit.Int(r), "", ""
		case "*=":
			r := a * b
			if a != 0 && (r/a != b || (a == -1 && b == math.MinInt64)) {
				return kit.Int(r), "", "mutate:overflow"
			}
			return kit.Int(r), "", ""
		case "/=":
			if b == 0 {
				return x, ErrDomain, ""
			}
			if a == math.MinInt64 && b == -1 {
				return kit.Int(a), "", "mutate:overflow"
			}
			return kit.Int(a / b), "", ""
		case "%=":
			if b == 0 {
				return x, ErrDomain, ""
			}
			if b == -1 {
				return kit.Int(0), "", ""
			}
			return kit.Int(a % b), "", ""
		}
	}
	a, b := x.R, y.R
	var r float64
	switch mutator {
	case "+=":
		r = a + b
	case "-=":
		r = a - b
	case "*=":
		r = a * b
	case "/=":
		if b == 0 {
			return x, ErrDomain, ""
		}
		r = a / b
	}
	if math.IsInf(r, 0) || math.IsNaN(r) {
		return kit.Real(r), "", "mutate:overflow"
	}
	return kit.Real(r), "", ""
}

// ApplyMutation applies a (validated) mutation to a column value.
func ApplyMutation(c kit.Col, cur kit.Val, m kit.Mut) (kit.Val, string, string) {
	sh := c.Shape()
	switch m.Mutator {
	case "+=", "-=", "*=", "/=", "%=":
		out := kit.Val{K: make([]kit.Atom, 0, len(cur.K))}
		may := ""
		for _, a := range cur.K {
			r, class, my := arith(m.Mutator, a, m.Val.K[0])
			if class != "" {
				return cur, class, ""
			}
			if my != "" {
				may = my
			}
			out.K = append(out.K, r)
		}
		if sh == kit.ShScalar {
			return out, "", may
		}
		return kit.SetOf(out.K...), "", may
	case "insert":
		out := cur.Clone()
		if cur.M {
			for i, k := range m.Val.K {
				if !out.Has(k) {
					out = out.WithPair(k, m.Val.V[i])
				}
			}
			return out, "", ""
		}
		for _, a := range m.Val.K {
			out = out.With(a)
		}
		return out, "", ""
	case "delete":
		out := cur.Clone()
		if cur.M {
			for i, k := range m.Val.K {
				if m.Val.M {
					if v, ok := out.Get(k); ok && kit.EqAtom(v, m.Val.V[i]) {
						out = out.Without(k)
					}
				} else {
					out = out.Without(k)
				}
			}
			if out.V == nil {
				out.V = []kit.Atom{}
			}
			out.M = true
			return out, "", ""
		}
		for _, a := range m.Val.K {
			out = out.Without(a)
		}
		return out, "", ""
	}
	return cur, ErrGeneric, ""
}

// ---- commit ----

type refSite struct {
	col   *kit.Col
	value bool // map value position
	ref   *kit.Ref
}

func refSites(t *kit.Table) []refSite {
	var out []refSite
	for i := range t.Cols {
		c := &t.Cols[i]
		if c.Key.T == kit.TUUID && c.Key.Ref != nil && c.Key.Ref.Table != "" {
			out = append(out, refSite{col: c, ref: c.Key.Ref})
		}
		if c.Value != nil && c.Value.T == kit.TUUID && c.Value.Ref != nil && c.Value.Ref.Table != "" {
			out = append(out, refSite{col: c, value: true, ref: c.Value.Ref})
		}
	}
	return out
}

func siteTargets(site refSite, row kit.Row) []string {
	v := row[site.col.Name]
	var out []string
	if site.value {
		for _, a := range v.V {
			out = append(out, a.S)
		}
	} else {
		for _, a := range v.K {
			out = append(out, a.S)
		}
	}
	return out
}

// Commit applies the RFC commit procedure to the tentative state work (derived
// from pre). It returns the final state or an error class.
func Commit(s kit.Schema, pre, work kit.State) (post kit.State, gcDeleted, weakPruned int, causes []string, detail, mayReject string) {
	addCause := func(class, d string) {
		for _, c := range causes {
			if c == class {
				return
			}
		}
		causes = append(causes, class)
		if detail == "" {
			detail = d
		} else {
			detail += "; " + d
		}
	}
	post = work.Clone()
	// a default all-zero uuid in a scalar reference column is a reference like any other
	// 1. garbage collection to a fixpoint
	danglingFromGarbage := false
	type garbageRow struct {
		table, uuid string
		row         kit.Row
	}
	var garbage []garbageRow
	prunedRows := map[string]bool{}
	prunedThenCollected := false
	gcFixpoint := func() bool {
		any := false
		for {
			referenced := map[string]map[string]bool{} // table -> uuid
			for ti := range s.Tables {
				t := &s.Tables[ti]
				for _, site := range refSites(t) {
					if site.ref.Weak {
						continue
					}
					for _, row := range post[t.Name] {
						for _, to := range siteTargets(site, row) {
							if referenced[site.ref.Table] == nil {
								referenced[site.ref.Table] = map[string]bool{}
							}
							referenced[site.ref.Table][to] = true
						}
					}
				}
			}
			changed := false
			for _, t := range s.Tables {
				if s.IsRoot(t.Name) {
					continue
				}
				for _, u := range kit.SortedUUIDs(post[t.Name]) {
					if !referenced[t.Name][u] {
						// does the garbage row hold a dangling strong reference?
						tt := s.Table(t.Name)
						for _, site := range refSites(tt) {
							if site.ref.Weak {
								continue
							}
							for _, to := range siteTargets(site, post[t.Name][u]) {
								if _, ok := post[site.ref.Table][to]; !ok {
									danglingFromGarbage = true
								}
							}
						}
						garbage = append(garbage, garbageRow{t.Name, u, post[t.Name][u]})
						if prunedRows[t.Name+"/"+u] {
							prunedThenCollected = true
						}
						delete(post[t.Name], u)
						gcDeleted++
						changed = true
					}
				}
			}
			if !changed {
				break
			}
			any = true
		}
		return any
	}
	// 3. weak references to missing rows are dropped; dropping a pair of a map may drop a
	// strong reference too, so collect garbage and prune until nothing changes
	pruneWeak := func() bool {
		any := false
		for ti := range s.Tables {
			t := &s.Tables[ti]
			for ci := range t.Cols {
				c := &t.Cols[ci]
				keyWeak := c.Key.T == kit.TUUID && c.Key.Ref != nil && c.Key.Ref.Weak && c.Key.Ref.Table != ""
				valWeak := c.Value != nil && c.Value.T == kit.TUUID && c.Value.Ref != nil && c.Value.Ref.Weak && c.Value.Ref.Table != ""
				if !keyWeak && !valWeak {
					continue
				}
				for _, u := range kit.SortedUUIDs(post[t.Name]) {
					v := post[t.Name][u][c.Name]
					nv := kit.Val{M: v.M, K: []kit.Atom{}}
					if v.M {
						nv.V = []kit.Atom{}
					}
					for i, k := range v.K {
						drop := false
						if keyWeak {
							if _, ok := post[c.Key.Ref.Table][k.S]; !ok {
								drop = true
							}
						}
						if valWeak {
							if _, ok := post[c.Value.Ref.Table][v.V[i].S]; !ok {
								drop = true
							}
						}
						if drop {
							weakPruned++
							continue
						}
						nv.K = append(nv.K, k)
						if v.M {
							nv.V = append(nv.V, v.V[i])
						}
					}
					if len(nv.K) != len(v.K) {
						if len(nv.K) < c.Min {
							addCause(ErrConstraint, fmt.Sprintf("weak reference pruning leaves %s.%s of %s with %d < %d elements", t.Name, c.Name, u, len(nv.K), c.Min))
						}
						post[t.Name][u][c.Name] = nv
						prunedRows[t.Name+"/"+u] = true
						any = true
					}
				}
			}
		}
		return any
	}
	danglingStrong := func() string {
		for ti := range s.Tables {
			t := &s.Tables[ti]
			for _, site := range refSites(t) {
				if site.ref.Weak {
					continue
				}
				for _, u := range kit.SortedUUIDs(post[t.Name]) {
					for _, to := range siteTargets(site, post[t.Name][u]) {
						if _, ok := post[site.ref.Table][to]; !ok {
							return fmt.Sprintf("%s.%s of %s -> %s", t.Name, site.col.Name, u, to)
						}
					}
				}
			}
		}
		return ""
	}
	danglingBeforePruning := false
	for round := 0; ; round++ {
		g := gcFixpoint()
		if danglingStrong() != "" {
			// a strong reference that disappears only because its map pair is pruned for a
			// dangling weak reference: RFC 7047 does not order the two rules
			danglingBeforePruning = true
		}
		p := pruneWeak()
		if !g && !p {
			break
		}
	}
	// garbage rows whose weak references would fall under the column minimum: RFC 7047
	// deletes the row, the implementation may look at it before it is collected
	weakFromGarbage := false
	for _, g := range garbage {
		t := s.Table(g.table)
		for ci := range t.Cols {
			c := &t.Cols[ci]
			keyWeak := c.Key.T == kit.TUUID && c.Key.Ref != nil && c.Key.Ref.Weak && c.Key.Ref.Table != ""
			valWeak := c.Value != nil && c.Value.T == kit.TUUID && c.Value.Ref != nil && c.Value.Ref.Weak && c.Value.Ref.Table != ""
			if !keyWeak && !valWeak {
				continue
			}
			v := g.row[c.Name]
			left := 0
			for i, k := range v.K {
				ok := true
				if keyWeak {
					if _, e := post[c.Key.Ref.Table][k.S]; !e {
						ok = false
					}
				}
				if valWeak {
					if _, e := post[c.Value.Ref.Table][v.V[i].S]; !e {
						ok = false
					}
				}
				if ok {
					left++
				}
			}
			if left < c.Min && left != len(v.K) {
				weakFromGarbage = true
			}
		}
	}
	// 2. strong references must resolve
	for ti := range s.Tables {
		t := &s.Tables[ti]
		for _, site := range refSites(t) {
			if site.ref.Weak {
				continue
			}
			for _, u := range kit.SortedUUIDs(post[t.Name]) {
				for _, to := range siteTargets(site, post[t.Name][u]) {
					if _, ok := post[site.ref.Table][to]; !ok {
						addCause(ErrRefIntegity, fmt.Sprintf("%s.%s of %s -> %s", t.Name, site.col.Name, u, to))
					}
				}
			}
		}
	}
	// 4. unique indexes
	for _, t := range s.Tables {
		for _, idx := range t.Indexes {
			seen := map[string]string{}
			for _, u := range kit.SortedUUIDs(post[t.Name]) {
				key := ""
				for _, cn := range idx {
					key += post[t.Name][u][cn].Key() + "|"
				}
				if other, dup := seen[key]; dup {
					addCause(ErrConstraint, fmt.Sprintf("rows %s and %s of %s agree on index %v", other, u, t.Name, idx))
				}
				seen[key] = u
			}
		}
	}
	if len(causes) > 0 {
		if danglingFromGarbage {
			addCause(ErrRefIntegity, "dangling reference held by a garbage row")
		}
		if weakFromGarbage {
			addCause(ErrConstraint, "weak reference minimum violated in a garbage row")
		}
		if danglingBeforePruning {
			addCause(ErrRefIntegity, "dangling strong reference in a pair pruned for its weak reference")
		}

		return nil, gcDeleted, weakPruned, causes, detail, ""
	}
	if weakFromGarbage {
		mayReject = "commit:weak-minimum-violated-in-garbage-row"
	}
	if danglingBeforePruning {
		mayReject = "commit:dangling-strong-reference-in-weak-pruned-pair"
	}
	_ = prunedThenCollected // formerly a tolerance for a defect that has been repaired (gc-after-weak-prune)
	if danglingFromGarbage {
		mayReject = "commit:dangling-reference-held-by-garbage-row"
	}
	return post, gcDeleted, weakPruned, nil, "", mayReject
}

// HasDuplicates scans a state for unique-index violations.
func HasDuplicates(s kit.Schema, st kit.State) string {
	for _, t := range s.Tables {
		for _, idx := range t.Indexes {
			seen := map[string]string{}
			for _, u := range kit.SortedUUIDs(st[t.Name]) {
				key := ""
				for _, cn := range idx {
					key += st[t.Name][u][cn].Key() + "|"
				}
				if other, dup := seen[key]; dup {
					return fmt.Sprintf("rows %s and %s of %s agree on index %v", other, u, t.Name, idx)
				}
				seen[key] = u
			}
		}
	}
	return ""
}

// RowChange is the net change of one row between two states.
type RowChange struct {
	Table, UUID string
	Old, New    kit.Row // nil for insert / delete
}

// Diff lists the net row changes between two states, sorted.
func Diff(s kit.Schema, pre, post kit.State) []RowChange {
	var out []RowChange
	for _, t := range s.Tables {
		us := map[string]bool{}
		for u := range pre[t.Name] {
			us[u] = true
		}
		for u := range post[t.Name] {
			us[u] = true
		}
		keys := make([]string, 0, len(us))
		for u := range us {
			keys = append(keys, u)
		}
		sort.Strings(keys)
		for _, u := range keys {
			o, ook := pre[t.Name][u]
			n, nok := post[t.Name][u]
			switch {
			case ook && !nok:
				out = append(out, RowChange{Table: t.Name, UUID: u, Old: o})
			case !ook && nok:
				out = append(out, RowChange{Table: t.Name, UUID: u, New: n})
			case o.Key() != n.Key():
				out = append(out, RowChange{Table: t.Name, UUID: u, Old: o, New: n})
			}
		}
	}
	return out
}

// IndexMultiplicity returns the largest number of rows of one table that agree on all
// columns of one schema index (1 if there is no duplicate, 0 without indexed rows).
func IndexMultiplicity(s kit.Schema, st kit.State) int {
	max := 0
	for _, t := range s.Tables {
		for _, idx := range t.Indexes {
			count := map[string]int{}
			for _, row := range st[t.Name] {
				key := ""
				for _, cn := range idx {
					key += row[cn].Key() + "|"
				}
				count[key]++
				if count[key] > max {
					max = count[key]
				}
			}
		}
	}
	return max
}
