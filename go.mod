module verif

go 1.23

require (
	github.com/go-logr/stdr v1.2.2
	github.com/google/uuid v1.2.0
	github.com/ovn-org/libovsdb v0.0.0
	pgregory.net/rapid v1.3.0
)

require github.com/go-logr/logr v1.2.2 // indirect

replace github.com/ovn-org/libovsdb => /repo
