"""Per-property configuration of the driver: which rapid tests decide a property,
how many cases per tier, the non-triviality rule and the assumptions that go into
the evidence file."""

COMMON_ASSUMPTIONS = [
    "pgregory.net/rapid v1.3.0 generation and shrinking; Go toolchain and race detector",
    "checks build /repo's working tree through the module replace directive, with -tags verif",
]

HOOK_COMMITS = ["e364d764e802b6068fdf9985cfa7cb243dd54f15"]

NOT_APPLICABLE = {}

CHECKS = {
    "C12": {
        "rule": "each case draws one wire type (UUID, OvsSet, OvsMap, Row, Condition, Mutation, Operation (all ten ops, "
                "every optional member independently present/absent), TableUpdates, TableUpdates2, MonitorCondSinceReply, "
                "MonitorRequest/MonitorSelect, OperationResult/TransactResponse, errors through ResultFromError/"
                "CheckOperationResults, DatabaseSchema from the full-type-space schema generator) in decoded canonical form; "
                "oracle decode(encode(x)) == x (reflect.DeepEqual; schemas through every exported accessor plus stable "
                "re-encoding). Non-trivial = value with >=1 optional member present and >=1 nested set/map, or a schema "
                "with >=1 base-type constraint; distinct = hash of the structural signature (type, members present, "
                "shapes of nested values / column type signature).",
        "assumptions": COMMON_ASSUMPTIONS + [
            "untyped positions use the decoded canonical form: JSON numbers are float64 and a one-element set is its atom "
            "(RFC 7047 notation is ambiguous there by design)",
            "strings are valid UTF-8; reals are finite",
        ],
        "level_text": "exploration: tens of thousands (quick) to millions (thorough) of structurally generated wire values per "
                      "run are round-tripped through the real encoders/decoders; a violation is a concrete value that changes.",
        "level_note": "trusts encoding/json and reflect.DeepEqual; values are generated in decoded canonical form so the "
                      "documented notation ambiguities (numbers, one-element sets) are not counted as failures",
        "technique": "property-based testing (rapid): round-trip oracle over structurally generated wire values and schemas",
        "tests": [
            {"name": "TestC12", "quick": 40000, "thorough": 2400000},
        ],
    },
    "C03": {
        "rule": "each case = a generated schema (1-3 tables, all column kinds: scalar/optional/set/map over integer, real, boolean, "
                "string, uuid, enums, references, immutable columns, indexes) and a history of 1-20 transactions of 1-4 operations "
                "(insert/select/update/mutate/delete/wait with generated where-clauses, every mutator, named uuids, server-assigned "
                "uuids) drawn against the evolving reference state; every transaction is executed on the in-memory database "
                "(decoded from JSON text exactly as the server decodes a request) and on refdb, an independent RFC 7047 "
                "interpreter; per-operation results, accept/reject decision, the complete database contents and the reported "
                "update (pre-state + update2 difference = post-state) are compared after every step. evaluations = histories. "
                "Non-trivial = history containing a transaction where >=2 operations touch the same table, or a condition/"
                "mutation on a set or map column; distinct = hash of (schema column kinds, operation/condition/mutator sequence).",
        "assumptions": COMMON_ASSUMPTIONS + [
            "refdb (pbt/refdb) is the reference: naive full-scan interpreter of RFC 7047 5.1/5.2 + commit rules, written from the RFC",
            "tolerance classes (forms libovsdb documents as unsupported may be rejected): arithmetic on set/optional columns, "
            "insert/delete mutators on optional columns, mutation of enum columns, includes/excludes on optional columns, "
            "integer overflow; error kinds are compared only for 'timed out' and commit-time errors",
            "representation: absent column = default, nil = empty, sets as sets, \"\" = all-zero uuid for unset scalar uuid columns",
            "generated domain: wait only where libovsdb's documented simplification coincides with RFC 7047 (known finding "
            "wait-semantics), select without 'columns' (known finding select-columns), cardinality bounds not enforced by the "
            "in-memory database, no explicit all-zero uuid, no -0.0",
        ],
        "level_text": "exploration: thousands of generated histories over generated schemas per run, each step compared in full "
                      "(results, decision, whole state, update) against an independent executable model of RFC 7047",
        "level_note": "trusts refdb and the tolerance policy of DESIGN.md 2.4; L1 (Database/Transaction API) only for the hand-built "
                      "operations, the model-API-built operations are exercised by the L2 checks",
        "technique": "property-based testing (rapid): stateful history generation, differential against an executable reference model",
        "tests": [
            {"name": "TestC03", "quick": 2400, "thorough": 160000},
            {"name": "TestC03NoRefs", "quick": 1600, "thorough": 80000},
        ],
    },
    "C04": {
        "rule": "reference-heavy schemas (2-4 tables, root/non-root mixes, strong and weak references in scalar, optional, set, "
                "map-key and map-value positions, self references and cycles) and histories of 1-20 transactions biased to "
                "insert-and-attach, move and detach of references; after every step: from-scratch scan of Database.List "
                "(every strong reference resolves, every non-root row has a strong referrer, no weak reference dangles), "
                "exact agreement with refdb (GC closure, pruning, accept/reject and error kind), Database.GetReferences for every "
                "live, recently deleted and dangling uuid = references recomputed from the rows; TestC04Independence additionally "
                "loads a fresh database with the current rows at a drawn step and runs the rest of the history on both. "
                "Non-trivial = history with a commit that garbage-collects >=1 row, prunes >=1 weak reference, or is rejected "
                "for a reference reason; distinct = hash of (schema kinds, operation sequence).",
        "assumptions": COMMON_ASSUMPTIONS + [
            "refdb commit procedure: GC to fixpoint interleaved with weak pruning, then strong check, weak minimum, indexes",
            "tolerated (RFC does not order the rules): dangling strong reference or weak-minimum violation held only by a row that "
            "is garbage collected in the same commit; strong reference inside a map pair that is pruned for its weak reference",
            "generated domain: scalar reference columns always given a value on insert; a symbolic name is only used for reference "
            "columns of its own table (known finding cross-table-uuid); no immutable weak-reference columns (known finding "
            "weak-prune-immutable)",
        ],
        "level_text": "exploration: generated reference-heavy histories with from-scratch invariant recomputation and model agreement "
                      "after every commit, plus history-independence differential against a freshly loaded database",
        "level_note": "trusts refdb's commit procedure; invariants I1-I3 and I5 are recomputed from Database.List independently of refdb",
        "technique": "property-based testing (rapid): stateful generation, invariants over every reachable state + reference model + twin differential",
        "tests": [
            {"name": "TestC04", "quick": 2000, "thorough": 160000},
            {"name": "TestC04Independence", "quick": 1000, "thorough": 80000},
        ],
    },
    "C06": {
        "rule": "index-heavy schemas (single and two-column unique indexes over scalar columns of every atomic type) and histories "
                "biased to swaps, 3-rotations, delete+insert of the same value (both orders), hand-overs, genuine duplicates by insert "
                "and by update, two inserts of one value with one deleted again, GC of indexed rows; after every step a full scan for "
                "duplicate index tuples, and accept/reject + 'constraint violation' must agree with refdb's final-state scan. "
                "Non-trivial = transaction with a transient duplicate that is accepted or a final duplicate that is rejected; "
                "distinct = hash of (schema kinds, operation sequence).",
        "assumptions": COMMON_ASSUMPTIONS + [
            "index columns are scalar (min=max=1) columns: the cache uses the value as a Go map key",
            "known finding index-overwrite excluded by construction: transactions in which >=3 rows hold one index tuple at the same "
            "time, or which look rows up through an index after a transient duplicate on it",
        ],
        "level_text": "exploration: generated histories that move index values between rows, with a duplicate scan and model agreement after every commit",
        "level_note": "trusts refdb's final-state duplicate scan (a full scan over canonical values)",
        "technique": "property-based testing (rapid): stateful generation biased to index hand-overs, invariant scan + reference model",
        "tests": [
            {"name": "TestC06", "quick": 2400, "thorough": 200000},
        ],
    },
    "C02": {
        "rule": "each case = a generated schema and a history of 2-12 transactions; two thirds of them get a failure injected at a drawn "
                "position for a drawn cause (unknown table/column/op, unsupported op, malformed uuid, ill-typed value, duplicate "
                "explicit uuid, immutable column, invalid mutator, division by zero, wait that times out, dangling strong reference, "
                "emptied min-1 weak reference, duplicate index value). The database under test sees every transaction, a twin only the "
                "ones expected to commit. Oracles: rows (Database.List of every table) and reference index (GetReferences of every row) "
                "unchanged by a failed transaction; reply shape (results up to the failing one / all results + one error for commit-time "
                "rejection); results, rows and reference index of every later transaction identical on both databases; the update "
                "returned for a failed transaction is never committed. Non-trivial = failure at position >=1 after an insert/update/"
                "mutate/delete of the same transaction, or a commit-time failure; distinct = hash of (schema kinds, cause@position "
                "sequence).",
        "assumptions": COMMON_ASSUMPTIONS + [
            "the 'no monitor is notified' clause is checked at wire level by the C07 L2 check (raw monitoring peers); here the "
            "database layer is checked: a failed Transact must leave List/GetReferences untouched and Commit is never reached",
            "failures the implementation detects in its validation pass (unknown table/column, malformed insert uuid, operations "
            "without table) are reported in the first result: the position is not compared for those causes",
        ],
        "level_text": "exploration: generated histories with injected failures at every position for 14 causes, snapshot equality and a "
                      "never-saw-the-failure twin as differential oracle",
        "level_note": "trusts Database.List/GetReferences as observation points and refdb for the expected position of natural failures",
        "technique": "property-based testing (rapid): fault-injected stateful histories, snapshot invariants + twin differential",
        "tests": [
            {"name": "TestC02", "quick": 3000, "thorough": 240000},
        ],
    },
    "C15": {
        "rule": "reference-heavy schemas and histories of 1-8 transactions in which most inserts carry a uuid-name; names are used in "
                "every uuid-typed position the generators know (row scalar/optional/set/map-key/map-value, where on _uuid and on "
                "reference columns, mutation arguments including map-delete key sets), before and after the defining insert, with "
                "explicit and server-assigned uuids, and sometimes two inserts claim one name. refdb binds each name to the uuid the "
                "implementation reports for the insert; after every commit all stored values must equal the model's (every use resolved "
                "to the row actually inserted), no stored uuid-typed value may still be a name, string columns holding the same text "
                "are untouched, clashing names are rejected. Non-trivial = a name used in a collection, condition or mutation "
                "position or before its definition; distinct = hash of (schema kinds, operation sequence).",
        "assumptions": COMMON_ASSUMPTIONS + [
            "a name is only offered for reference columns of the table of its insert (known finding cross-table-uuid); a set never "
            "holds a name together with the explicit uuid bound to it",
        ],
        "level_text": "exploration: generated transactions with symbolic names in every uuid position, compared in full with the reference model",
        "level_note": "trusts refdb's name resolution (a two-pass substitution over canonical values)",
        "technique": "property-based testing (rapid): stateful generation biased to named inserts, reference model",
        "tests": [
            {"name": "TestC15", "quick": 4000, "thorough": 300000},
        ],
    },
    "C19": {
        "rule": "three generators. TestC19Decode: for each of 16 wire types a valid encoding is generated structurally and 1-3 structural "
                "corruptions are applied (replace a node by one of ~70 hostile fragments, drop, retype, duplicate, swap set/map/uuid tags, "
                "extreme numbers), or the encoding of another type / a hostile constant is fed; json.Unmarshal (and re-encoding of "
                "whatever decoded) must return under recover(). TestC19Txn: valid generated transactions against a populated database "
                "are corrupted the same way at JSON level (plus ~45 incomplete/degenerate operations spliced in), decoded and executed: "
                "no panic, a failed request leaves every table unchanged, Commit never fails after Transact succeeded, a select on "
                "every table still answers. TestC19Wire (L2): the same requests are sent raw to a server followed by echo. thorough adds "
                "native go fuzzing of the decoders. Non-trivial = every executed case (each is a distinct corrupted input); distinct = "
                "hash of (target, input text).",
        "assumptions": COMMON_ASSUMPTIONS + [
            "a wait without timeout (or with a positive one) is not sent: RFC 7047 5.2.6 lets it block, and the single-threaded "
            "server cannot be woken by another transaction; the timeout member is protected from corruption",
            "sets that list an element twice in the request are stored as such (not a crash property)",
        ],
        "level_text": "exploration: hundreds of thousands of structurally corrupted encodings and transactions per run, panics caught by "
                      "recover() inside the property, state and liveness checked after each; coverage-guided fuzzing in the thorough tier",
        "level_note": "a recovered panic anywhere below json.Unmarshal / Transact is the violation; rapid is seeded, native fuzzing is not "
                      "(saved crashers are the reproducible unit)",
        "technique": "property-based testing (rapid) with structural JSON corruption + native go fuzzing (thorough)",
        "tests": [
            {"name": "TestC19Decode", "quick": 120000, "thorough": 8000000},
            {"name": "TestC19Txn", "quick": 6000, "thorough": 400000},
        ],
    },
}
