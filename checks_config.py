"""Per-property configuration of the driver: which rapid tests decide a property,
how many cases per tier, the non-triviality rule and the assumptions that go into
the evidence file."""

COMMON_ASSUMPTIONS = [
    "pgregory.net/rapid v1.3.0 generation and shrinking; Go toolchain and race detector",
    "checks build /repo's working tree through the module replace directive, with -tags verif",
]

HOOK_COMMITS = []

NOT_APPLICABLE = {}

CHECKS = {
    "C12": {
        "rule": "each case draws one wire type (UUID, OvsSet, OvsMap, Row, Condition, Mutation, Operation (all ten ops, "
                "every optional member independently present/absent), TableUpdates, TableUpdates2, MonitorCondSinceReply, "
                "MonitorRequest/MonitorSelect, OperationResult/TransactResponse, errors through ResultFromError/"
                "CheckOperationResults, DatabaseSchema from the full-type-space schema generator) in decoded canonical form; "
                "oracle decode(encode(x)) == x (reflect.DeepEqual; schemas through every exported accessor plus stable "
                "re-encoding). Non-trivial = value with >=1 optional member present and >=1 nested set/map, or a schema "
                "with >=1 base-type constraint; distinct = hash of the structural signature (type, members present, "
                "shapes of nested values / column type signature).",
        "assumptions": COMMON_ASSUMPTIONS + [
            "untyped positions use the decoded canonical form: JSON numbers are float64 and a one-element set is its atom "
            "(RFC 7047 notation is ambiguous there by design)",
            "strings are valid UTF-8; reals are finite",
        ],
        "level_text": "exploration: tens of thousands (quick) to millions (thorough) of structurally generated wire values per "
                      "run are round-tripped through the real encoders/decoders; a violation is a concrete value that changes.",
        "level_note": "trusts encoding/json and reflect.DeepEqual; values are generated in decoded canonical form so the "
                      "documented notation ambiguities (numbers, one-element sets) are not counted as failures",
        "technique": "property-based testing (rapid): round-trip oracle over structurally generated wire values and schemas",
        "tests": [
            {"name": "TestC12", "quick": 40000, "thorough": 2400000},
        ],
    },
    "C03": {
        "rule": "each case = a generated schema (1-3 tables, all column kinds: scalar/optional/set/map over integer, real, boolean, "
                "string, uuid, enums, references, immutable columns, indexes) and a history of 1-20 transactions of 1-4 operations "
                "(insert/select/update/mutate/delete/wait with generated where-clauses, every mutator, named uuids, server-assigned "
                "uuids) drawn against the evolving reference state; every transaction is executed on the in-memory database "
                "(decoded from JSON text exactly as the server decodes a request) and on refdb, an independent RFC 7047 "
                "interpreter; per-operation results, accept/reject decision, the complete database contents and the reported "
                "update (pre-state + update2 difference = post-state) are compared after every step. evaluations = histories. "
                "Non-trivial = history containing a transaction where >=2 operations touch the same table, or a condition/"
                "mutation on a set or map column; distinct = hash of (schema column kinds, operation/condition/mutator sequence).",
        "assumptions": COMMON_ASSUMPTIONS + [
            "refdb (pbt/refdb) is the reference: naive full-scan interpreter of RFC 7047 5.1/5.2 + commit rules, written from the RFC",
            "tolerance classes (forms libovsdb documents as unsupported may be rejected): arithmetic on set/optional columns, "
            "insert/delete mutators on optional columns, mutation of enum columns, includes/excludes on optional columns, "
            "integer overflow; error kinds are compared only for 'timed out' and commit-time errors",
            "representation: absent column = default, nil = empty, sets as sets, \"\" = all-zero uuid for unset scalar uuid columns",
            "generated domain: wait only where libovsdb's documented simplification coincides with RFC 7047 (known finding "
            "wait-semantics), select without 'columns' (known finding select-columns), cardinality bounds not enforced by the "
            "in-memory database, no explicit all-zero uuid, no -0.0",
        ],
        "level_text": "exploration: thousands of generated histories over generated schemas per run, each step compared in full "
                      "(results, decision, whole state, update) against an independent executable model of RFC 7047",
        "level_note": "trusts refdb and the tolerance policy of DESIGN.md 2.4; L1 (Database/Transaction API) only for the hand-built "
                      "operations, the model-API-built operations are exercised by the L2 checks",
        "technique": "property-based testing (rapid): stateful history generation, differential against an executable reference model",
        "tests": [
            {"name": "TestC03", "quick": 2400, "thorough": 160000},
            {"name": "TestC03NoRefs", "quick": 1600, "thorough": 80000},
        ],
    },
    "C04": {
        "rule": "reference-heavy schemas (2-4 tables, root/non-root mixes, strong and weak references in scalar, optional, set, "
                "map-key and map-value positions, self references and cycles) and histories of 1-20 transactions biased to "
                "insert-and-attach, move and detach of references; after every step: from-scratch scan of Database.List "
                "(every strong reference resolves, every non-root row has a strong referrer, no weak reference dangles), "
                "exact agreement with refdb (GC closure, pruning, accept/reject and error kind), Database.GetReferences for every "
                "live, recently deleted and dangling uuid = references recomputed from the rows; TestC04Independence additionally "
                "loads a fresh database with the current rows at a drawn step and runs the rest of the history on both. "
                "Non-trivial = history with a commit that garbage-collects >=1 row, prunes >=1 weak reference, or is rejected "
                "for a reference reason; distinct = hash of (schema kinds, operation sequence).",
        "assumptions": COMMON_ASSUMPTIONS + [
            "refdb commit procedure: GC to fixpoint interleaved with weak pruning, then strong check, weak minimum, indexes",
            "tolerated (RFC does not order the rules): dangling strong reference or weak-minimum violation held only by a row that "
            "is garbage collected in the same commit; strong reference inside a map pair that is pruned for its weak reference",
            "generated domain: scalar reference columns always given a value on insert; a symbolic name is only used for reference "
            "columns of its own table (known finding cross-table-uuid); no immutable weak-reference columns (known finding "
            "weak-prune-immutable)",
        ],
        "level_text": "exploration: generated reference-heavy histories with from-scratch invariant recomputation and model agreement "
                      "after every commit, plus history-independence differential against a freshly loaded database",
        "level_note": "trusts refdb's commit procedure; invariants I1-I3 and I5 are recomputed from Database.List independently of refdb",
        "technique": "property-based testing (rapid): stateful generation, invariants over every reachable state + reference model + twin differential",
        "tests": [
            {"name": "TestC04", "quick": 2000, "thorough": 160000},
            {"name": "TestC04Independence", "quick": 1000, "thorough": 80000},
        ],
    },
    "C06": {
        "rule": "index-heavy schemas (single and two-column unique indexes over scalar columns of every atomic type) and histories "
                "biased to swaps, 3-rotations, delete+insert of the same value (both orders), hand-overs, genuine duplicates by insert "
                "and by update, two inserts of one value with one deleted again, GC of indexed rows; after every step a full scan for "
                "duplicate index tuples, and accept/reject + 'constraint violation' must agree with refdb's final-state scan. "
                "Non-trivial = transaction with a transient duplicate that is accepted or a final duplicate that is rejected; "
                "distinct = hash of (schema kinds, operation sequence).",
        "assumptions": COMMON_ASSUMPTIONS + [
            "index columns are scalar (min=max=1) columns: the cache uses the value as a Go map key",
            "known finding index-overwrite excluded by construction: transactions in which >=3 rows hold one index tuple at the same "
            "time, or which look rows up through an index after a transient duplicate on it",
        ],
        "level_text": "exploration: generated histories that move index values between rows, with a duplicate scan and model agreement after every commit",
        "level_note": "trusts refdb's final-state duplicate scan (a full scan over canonical values)",
        "technique": "property-based testing (rapid): stateful generation biased to index hand-overs, invariant scan + reference model",
        "tests": [
            {"name": "TestC06", "quick": 2400, "thorough": 200000},
        ],
    },
}
