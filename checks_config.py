"""Per-property configuration of the driver: which rapid tests decide a property,
how many cases per tier, the non-triviality rule and the assumptions that go into
the evidence file."""

COMMON_ASSUMPTIONS = [
    "pgregory.net/rapid v1.3.0 generation and shrinking; Go toolchain and race detector",
    "checks build /repo's working tree through the module replace directive, with -tags verif",
]

HOOK_COMMITS = []

NOT_APPLICABLE = {}

CHECKS = {
    "C12": {
        "rule": "each case draws one wire type (UUID, OvsSet, OvsMap, Row, Condition, Mutation, Operation (all ten ops, "
                "every optional member independently present/absent), TableUpdates, TableUpdates2, MonitorCondSinceReply, "
                "MonitorRequest/MonitorSelect, OperationResult/TransactResponse, errors through ResultFromError/"
                "CheckOperationResults, DatabaseSchema from the full-type-space schema generator) in decoded canonical form; "
                "oracle decode(encode(x)) == x (reflect.DeepEqual; schemas through every exported accessor plus stable "
                "re-encoding). Non-trivial = value with >=1 optional member present and >=1 nested set/map, or a schema "
                "with >=1 base-type constraint; distinct = hash of the structural signature (type, members present, "
                "shapes of nested values / column type signature).",
        "assumptions": COMMON_ASSUMPTIONS + [
            "untyped positions use the decoded canonical form: JSON numbers are float64 and a one-element set is its atom "
            "(RFC 7047 notation is ambiguous there by design)",
            "strings are valid UTF-8; reals are finite",
        ],
        "level_text": "exploration: tens of thousands (quick) to millions (thorough) of structurally generated wire values per "
                      "run are round-tripped through the real encoders/decoders; a violation is a concrete value that changes.",
        "level_note": "trusts encoding/json and reflect.DeepEqual; values are generated in decoded canonical form so the "
                      "documented notation ambiguities (numbers, one-element sets) are not counted as failures",
        "technique": "property-based testing (rapid): round-trip oracle over structurally generated wire values and schemas",
        "tests": [
            {"name": "TestC12", "quick": 40000, "thorough": 2400000},
        ],
    },
}
