"""Per-property configuration of the driver: which rapid tests decide a property,
how many cases per tier, the non-triviality rule and the assumptions that go into
the evidence file."""

COMMON_ASSUMPTIONS = [
    "pgregory.net/rapid v1.3.0 generation and shrinking; Go toolchain and race detector",
    "checks build /repo's working tree through the module replace directive, with -tags verif",
]

HOOK_COMMITS = ["e364d764e802b6068fdf9985cfa7cb243dd54f15", "08e4444373b204ed941e1151ccaf72b02a37e293"]

NOT_APPLICABLE = {}

BIG_NOTE = (" About one case in eight runs in the Big mode of the generators (size thresholds): atoms from a universe of 300 values per type, "
            "sets and maps of 9-120 elements, mutate/update arguments that are the whole current value or half of it plus fresh elements, "
            "and fan-in transactions (33-70 new rows referring to one row).")

CHECKS = {
    "C12": {
        "rule": "each case draws one wire type (UUID, OvsSet, OvsMap, Row, Condition, Mutation, Operation (all ten ops, "
                "every optional member independently present/absent), TableUpdates, TableUpdates2, MonitorCondSinceReply, "
                "MonitorRequest/MonitorSelect, OperationResult/TransactResponse, errors through ResultFromError/"
                "CheckOperationResults, DatabaseSchema from the full-type-space schema generator) in decoded canonical form; "
                "oracle decode(encode(x)) == x (reflect.DeepEqual; schemas through every exported accessor plus stable "
                "re-encoding); the RFC error strings are compared exactly in both directions (wire string -> Go error type -> wire string; a string differing only in case is not that error). Schemas include integer bounds beyond +-2^53 and string enums as map keys and values; a quarter of the round trips come right after a structurally corrupted encoding of the same value was decoded (accepted or rejected). Non-trivial = value with >=1 optional member present and >=1 nested set/map, or a schema "
                "with >=1 base-type constraint; distinct = hash of the structural signature (type, members present, "
                "shapes of nested values / column type signature)."
                " Maps nested in rows, conditions, mutations and table updates also take sets of uuids (none, two, three) as values."
                " Real-typed base types spell out -MaxFloat64 and/or MaxFloat64 as their bounds one time in four.",
        "assumptions": COMMON_ASSUMPTIONS + [
            "untyped positions use the decoded canonical form: JSON numbers are float64 and a one-element set is its atom "
            "(RFC 7047 notation is ambiguous there by design)",
            "strings are valid UTF-8; reals are finite",
        ],
        "level_text": "exploration: tens of thousands (quick) to millions (thorough) of structurally generated wire values per "
                      "run are round-tripped through the real encoders/decoders; a violation is a concrete value that changes.",
        "level_note": "trusts encoding/json and reflect.DeepEqual; values are generated in decoded canonical form so the "
                      "documented notation ambiguities (numbers, one-element sets) are not counted as failures",
        "technique": "property-based testing (rapid): round-trip oracle over structurally generated wire values and schemas",
        "tests": [
            {"name": "TestC12", "quick": 160000, "thorough": 10000000},
        ],
    },
    "C03": {
        "rule": "each case = a generated schema (1-3 tables, all column kinds: scalar/optional/set/map over integer, real, boolean, "
                "string, uuid, enums, references, immutable columns, indexes) and a history of 1-20 transactions of 1-4 operations "
                "(insert/select/update/mutate/delete/wait with generated where-clauses, every mutator - division and modulo by zero included, which must be refused -, named uuids, server-assigned "
                "uuids) drawn against the evolving reference state; every transaction is executed on the in-memory database "
                "(decoded from JSON text exactly as the server decodes a request) and on refdb, an independent RFC 7047 "
                "interpreter; per-operation results, accept/reject decision, the complete database contents and the reported "
                "update (pre-state + update2 difference = post-state) are compared after every step; every second transaction goes through "
                "OvsdbServer.Transact itself, and after every transaction each stored row must be found through each schema index." + BIG_NOTE + " TestC03API "
                "(server + connected client): operations built through the model API - Where/WhereAll/WhereAny/WhereCache(...).Delete(), "
                ".Update(model, 1-2 drawn columns), .Mutate(model, 1-3 drawn mutations, repeats included) - executed through the client must have "
                "the effect refdb computes for the operations asked for; one case in seven asks for .Wait(until ==/!=, timeout 0, model, 1-3 listed fields) instead: "
                "as many wait operations as Delete() generates, each with the table, until, timeout, exactly the listed columns and one expected row holding the model's values, "
                "their where clauses together selecting exactly the listed rows, and each operation, executed alone, succeeds or times out as refdb decides for the rows "
                "a select with the same clause returns (expectations without default values and multi-element sets, clauses selecting at most one row: the agreeing domain of the finding wait-semantics). evaluations = histories / API cases. "
                "Non-trivial = history containing a transaction where >=2 operations touch the same table, or a condition/"
                "mutation on a set or map column; distinct = hash of (schema column kinds, operation/condition/mutator sequence).",
        "assumptions": COMMON_ASSUMPTIONS + [
            "refdb (pbt/refdb) is the reference: naive full-scan interpreter of RFC 7047 5.1/5.2 + commit rules, written from the RFC",
            "tolerance classes (forms libovsdb documents as unsupported may be rejected): arithmetic on set/optional columns, "
            "insert/delete mutators on optional columns, mutation of enum columns, includes/excludes on optional columns, "
            "integer overflow; error kinds are compared only for 'timed out' and commit-time errors",
            "representation: absent column = default, nil = empty, sets as sets, \"\" = all-zero uuid for unset scalar uuid columns",
            "generated domain: wait only where libovsdb's documented simplification coincides with RFC 7047 (known finding "
            "wait-semantics), select without 'columns' (known finding select-columns), cardinality bounds not enforced by the "
            "in-memory database, no explicit all-zero uuid, no -0.0",
        ],
        "level_text": "exploration: thousands of generated histories over generated schemas per run, each step compared in full "
                      "(results, decision, whole state, update) against an independent executable model of RFC 7047",
        "level_note": "trusts refdb and the tolerance policy of DESIGN.md 2.4; L1 (Database/Transaction API) only for the hand-built "
                      "operations, the model-API-built operations are exercised by the L2 checks",
        "technique": "property-based testing (rapid): stateful history generation, differential against an executable reference model",
        "tests": [
            {"name": "TestC03", "quick": 8000, "thorough": 160000},
            {"name": "TestC03NoRefs", "quick": 6000, "thorough": 80000},
            {"name": "TestC03API", "quick": 4000, "thorough": 60000},
        ],
    },
    "C04": {
        "rule": "reference-heavy schemas (2-4 tables, root/non-root mixes, strong and weak references in scalar, optional, set, "
                "map-key and map-value positions, self references and cycles) and histories of 1-20 transactions biased to "
                "insert-and-attach, move and detach of references; after every step: from-scratch scan of Database.List "
                "(every strong reference resolves, every non-root row has a strong referrer, no weak reference dangles), "
                "exact agreement with refdb (GC closure, pruning, accept/reject and error kind), Database.GetReferences for every "
                "live, recently deleted and dangling uuid = references recomputed from the rows; TestC04Independence additionally "
                "loads a fresh database with the current rows at a drawn step and runs the rest of the history on both. "
                "One case in about eight runs in the Big mode (fan-in: 33-70 referrers of one row, later removed again). Chains of 3-9 non-root rows, each holding a strong reference to the next, hang from one row (with an optional weak watcher of several links): letting the head go takes one garbage-collection round per link. Non-trivial = history with a commit that garbage-collects >=1 row, prunes >=1 weak reference, or is rejected "
                "for a reference reason; distinct = hash of (schema kinds, operation sequence).",
        "assumptions": COMMON_ASSUMPTIONS + [
            "refdb commit procedure: GC to fixpoint interleaved with weak pruning, then strong check, weak minimum, indexes",
            "tolerated (RFC does not order the rules): dangling strong reference or weak-minimum violation held only by a row that "
            "is garbage collected in the same commit; strong reference inside a map pair that is pruned for its weak reference",
            "generated domain: scalar reference columns always given a value on insert; a symbolic name is only used for reference "
            "columns of its own table (known finding cross-table-uuid); no immutable weak-reference columns (known finding "
            "weak-prune-immutable)",
        ],
        "level_text": "exploration: generated reference-heavy histories with from-scratch invariant recomputation and model agreement "
                      "after every commit, plus history-independence differential against a freshly loaded database",
        "level_note": "trusts refdb's commit procedure; invariants I1-I3 and I5 are recomputed from Database.List independently of refdb",
        "technique": "property-based testing (rapid): stateful generation, invariants over every reachable state + reference model + twin differential",
        "tests": [
            {"name": "TestC04", "quick": 8000, "thorough": 160000},
            {"name": "TestC04Independence", "quick": 4000, "thorough": 80000},
        ],
    },
    "C06": {
        "rule": "index-heavy schemas (single and two-column unique indexes over scalar columns of every atomic type) and histories "
                "biased to swaps, 3-rotations, delete+insert of the same value (both orders), hand-overs, genuine duplicates by insert "
                "and by update, two inserts of one value with one deleted again, GC of indexed rows, and replace-child transactions (a referenced "
                "row X of an indexed table is read or rewritten unchanged, a new row takes over X's index values, the referrer is pointed at the "
                "new row so that X is garbage collected); after every step a full scan for "
                "duplicate index tuples, and accept/reject + 'constraint violation' must agree with refdb's final-state scan. "
                "Schema indexes may include optional columns and (in a reference-heavy third of the cases) reference columns, whose values also change by weak-reference pruning and garbage collection: the commit-time check has to see those rows too. Non-trivial = transaction with a transient duplicate that is accepted or a final duplicate that is rejected; "
                "distinct = hash of (schema kinds, operation sequence)."
                " The index composites include: a row is renamed, deleted through a condition on its new value, and its old value is reused by an insert in the same transaction."
                " The index-heavy profile also draws immutable columns (an index may list them next to mutable ones).",
        "assumptions": COMMON_ASSUMPTIONS + [
            "index columns are scalar (min=max=1) columns: the cache uses the value as a Go map key",
            "known finding index-overwrite excluded by construction: transactions in which >=3 rows hold one index tuple at the same "
            "time, or which look rows up through an index after a transient duplicate on it",
        ],
        "level_text": "exploration: generated histories that move index values between rows, with a duplicate scan and model agreement after every commit",
        "level_note": "trusts refdb's final-state duplicate scan (a full scan over canonical values)",
        "technique": "property-based testing (rapid): stateful generation biased to index hand-overs, invariant scan + reference model",
        "tests": [
            {"name": "TestC06", "quick": 10000, "thorough": 600000},
        ],
    },
    "C02": {
        "rule": "each case = a generated schema and a history of 2-12 transactions; two thirds of them get a failure injected at a drawn "
                "position for a drawn cause (unknown table/column/op, unsupported op, malformed uuid, ill-typed value, duplicate "
                "explicit uuid, immutable column, invalid mutator, division by zero, wait that times out, dangling strong reference, "
                "emptied min-1 weak reference, duplicate index value). The database under test sees every transaction, a twin only the "
                "ones expected to commit. Oracles: rows (Database.List of every table) and reference index (GetReferences of every row) "
                "unchanged by a failed transaction; reply shape (results up to the failing one / all results + one error for commit-time "
                "rejection); results, rows and reference index of every later transaction identical on both databases; the update "
                "returned for a failed transaction is never committed. Non-trivial = failure at position >=1 after an insert/update/"
                "mutate/delete of the same transaction, or a commit-time failure; distinct = hash of (schema kinds, cause@position "
                "sequence).",
        "assumptions": COMMON_ASSUMPTIONS + [
            "the 'no monitor is notified' clause is checked at wire level by the C07 L2 check (raw monitoring peers); here the "
            "database layer is checked: a failed Transact must leave List/GetReferences untouched and Commit is never reached",
            "failures the implementation detects in its validation pass (unknown table/column, malformed insert uuid, operations "
            "without table) are reported in the first result: the position is not compared for those causes",
        ],
        "level_text": "exploration: generated histories with injected failures at every position for 14 causes, snapshot equality and a "
                      "never-saw-the-failure twin as differential oracle",
        "level_note": "trusts Database.List/GetReferences as observation points and refdb for the expected position of natural failures",
        "technique": "property-based testing (rapid): fault-injected stateful histories, snapshot invariants + twin differential",
        "tests": [
            {"name": "TestC02", "quick": 12000, "thorough": 240000},
        ],
    },
    "C15": {
        "rule": "reference-heavy schemas and histories of 1-8 transactions in which most inserts carry a uuid-name; names are used in "
                "every uuid-typed position the generators know (row scalar/optional/set/map-key/map-value, where on _uuid and on "
                "reference columns, mutation arguments including map-delete key sets), before and after the defining insert, with "
                "explicit and server-assigned uuids, and sometimes two inserts claim one name. refdb binds each name to the uuid the "
                "implementation reports for the insert; after every commit all stored values must equal the model's (every use resolved "
                "to the row actually inserted), no stored uuid-typed value may still be a name, string columns holding the same text "
                "are untouched, clashing names are rejected. Transactions that insert a referrer of a named row also wait on the new row with an expected row spelling the reference by the same name (== is satisfied at once, != times out). TestC15API: Create() of 2-6 models in one call whose _uuid fields hold a symbolic "
                "name, a real uuid or nothing, with references (by name or uuid) between them, in drawn order: every model becomes its own row, "
                "names denote the rows inserted under them, real uuids are kept; names include hex-like, braced, urn: and upper-case spellings of uuids, and the operations the API produces must tag such a string as named-uuid unless it is the canonical 36-character form. TestC15Large: transactions of 257, 300 and 520 named inserts without explicit uuids: every insert gets its own uuid and references by the first and the last name reach those rows. Non-trivial = a name used in a collection, condition or mutation "
                "position or before its definition; distinct = hash of (schema kinds, operation sequence)."
                " Names are spelt n<k>, Row_N<k> (upper-case letters) or row_<32 hex digits> (exactly as long as a uuid); TestC15API also uses Row_Name<k> and row_<32 hex digits> in the _uuid field of models given to Create.",
        "assumptions": COMMON_ASSUMPTIONS + [
            "a name is only offered for reference columns of the table of its insert (known finding cross-table-uuid); a set never "
            "holds a name together with the explicit uuid bound to it",
        ],
        "level_text": "exploration: generated transactions with symbolic names in every uuid position, compared in full with the reference model",
        "level_note": "trusts refdb's name resolution (a two-pass substitution over canonical values)",
        "technique": "property-based testing (rapid): stateful generation biased to named inserts, reference model",
        "tests": [
            {"name": "TestC15", "quick": 16000, "thorough": 900000},
            {"name": "TestC15API", "quick": 3000, "thorough": 60000},
            {"name": "TestC15Large", "kind": "plain", "quick": 1, "thorough": 1, "shards": {"quick": 1, "thorough": 1}},
        ],
    },
    "C19": {
        "rule": "three generators. TestC19Decode: for each of 16 wire types a valid encoding is generated structurally and 1-3 structural "
                "corruptions are applied (replace a node by one of ~70 hostile fragments, drop, retype, duplicate, swap set/map/uuid tags, "
                "extreme numbers, numbers that truncate to zero, an operation renamed into another kind with its members kept), or the encoding of another type / a hostile constant is fed; json.Unmarshal (and re-encoding of "
                "whatever decoded) must return under recover(). TestC19Txn: valid generated transactions against a populated database "
                "are corrupted the same way at JSON level (plus ~45 incomplete/degenerate operations spliced in), decoded and executed: "
                "no panic, a failed request leaves every table unchanged, Commit never fails after Transact succeeded, a select on "
                "every table still answers. TestC19Wire: the same requests are sent as raw JSON-RPC transact calls to a listening server with a "
                "monitoring peer attached, each followed by an echo on the same connection and a select on every table (a panic in a connection "
                "goroutine kills the test process: the case in flight is written to disk beforehand and reported by the driver). thorough adds "
                "native go fuzzing (go test -fuzz, 180 s x 8 workers per target): FuzzC19Decode (target selector byte + bytes, seeded with 8 valid "
                "encodings of each of the 16 wire types and the hostile constants) and FuzzC19Txn (a JSON array of operations executed on a populated "
                "database with every column kind, strong/weak/map references and an index; seeded with generated valid transactions and the "
                "degenerate operations; same oracles as TestC19Txn). Corruptions include growing an array to 9-130 elements (many conditions, mutations, operations, set elements). TestC19Wire first sends 0-2 requests the server refuses (duplicate monitor id, unknown database, table or column, unknown method, transact without database name) from either connection and ends with a valid transaction that must be served. A memory guard (5 GB resident set) ends a test process that a request makes allocate without bound; the case in flight is the reproduction. Non-trivial = every executed case (each is a distinct corrupted input); distinct = "
                "hash of (target, input text)."
                " Every text that decodes as a database schema is also written to a file and loaded with SchemaFromFile.",
        "assumptions": COMMON_ASSUMPTIONS + [
            "a wait without timeout (or with a positive one) is not sent: RFC 7047 5.2.6 lets it block, and the single-threaded "
            "server cannot be woken by another transaction; the timeout member is protected from corruption",
            "sets that list an element twice in the request are stored as such (not a crash property)",
        ],
        "level_text": "exploration: hundreds of thousands of structurally corrupted encodings and transactions per run, panics caught by "
                      "recover() inside the property, state and liveness checked after each; coverage-guided fuzzing in the thorough tier",
        "level_note": "a recovered panic anywhere below json.Unmarshal / Transact is the violation; rapid is seeded, native fuzzing is not "
                      "(saved crashers are the reproducible unit)",
        "technique": "property-based testing (rapid) with structural JSON corruption + native go fuzzing (thorough)",
        "tests": [
            {"name": "TestC19Decode", "quick": 300000, "thorough": 8000000},
            {"name": "TestC19Txn", "quick": 20000, "thorough": 400000},
            {"name": "TestC19Wire", "quick": 4000, "thorough": 120000},
            # the seed corpora of the native fuzz targets run as ordinary tests in both tiers
            {"name": "FuzzC19Decode", "kind": "plain", "quick": 1, "thorough": 1, "shards": {"quick": 1, "thorough": 1}},
            {"name": "FuzzC19Txn", "kind": "plain", "quick": 1, "thorough": 1, "shards": {"quick": 1, "thorough": 1}},
            # coverage-guided campaigns (thorough tier only; not seedable: a saved crasher is the reproducible unit)
            {"name": "native-fuzz", "kind": "fuzz", "targets": ["FuzzC19Decode", "FuzzC19Txn"], "fuzztime": "180s", "parallel": 8,
             "quick": None, "thorough": 1},
        ],
    },
    "C05": {
        "rule": "cache level (no server): a generated table (2-4 scalar columns of every atomic type, two optionals, a map, a set) with a "
                "generated index configuration (schema-only / client-only / mixed; single and two-column schema indexes, client indexes on "
                "plain, optional and map-key columns, overlaps) receives 1-8 batches. A batch is the difference to a drawn next content "
                "(valid: no duplicate schema-index tuple) biased to hand-overs (B takes A's values, A deleted or changed), swaps and "
                "delete+recreate; its rows are applied one by one in a rapid-drawn permutation through one of three code paths (direct "
                "Create/Update/Delete, single-row update2, single-row update notifications) - the generator owns the order Go's map "
                "iteration would pick - and the genuine multi-row update2 batch is applied to a twin cache. After every batch: Rows() = "
                "content; every Index(cols...) is a partition of exactly the cached uuids (no stale, missing, duplicated or mixed entry); "
                "RowByModel/RowsByModels by uuid, by schema-index values and by client-index values return exactly what a scan returns; before that, "
                "RowsByCondition with the values of every index of up to 4 rows - alone, and together with a _uuid condition naming the same or another row - must "
                "select what a scan (refdb) selects, and must leave the indexes intact for the comparisons that follow; "
                "values no row holds any more lead nowhere. Between batches one third of the cases issue a checked write the cache has to refuse (Create or Update that would give a second row the values of a schema index of a cached row, the other columns fresh): it must fail and leave Rows(), every index and every lookup as they were. The optional indexed column takes every atomic type. Non-trivial = history with a batch in which an indexed value changes owner; "
                "distinct = hash of (index configuration, per-batch path/size/hand-over)."
                " One case in three has a second table with the same columns and one to three client indexes of its own (the index configuration of one table is nobody else's)."
                " At a drawn point of a history (one batch in six) the cache is purged (TableCache.Purge) with a database model of the same schema whose client indexes are others (none to three, drawn afresh): from there on those are the indexes the lookups must agree with, starting from an empty cache.",
        "assumptions": COMMON_ASSUMPTIONS + [
            "single-column indexes on set/map columns are not generated (the cache uses the value as a Go map key)",
            "Index() addresses indexes by column names only: map-key client indexes are checked through the lookup half",
            "the client-level lookups (Get, Where(model).List on a connected client) are exercised by the L2 checks C01/C08",
        ],
        "level_text": "exploration: generated index configurations x batch histories x application orders, all indexes and lookups compared with a scan after every batch",
        "level_note": "scan oracle over canonical values; the order inside genuine multi-row notifications is not controllable (twin cache only adds evidence)",
        "technique": "property-based testing (rapid): generated histories with generator-owned application order, partition/scan invariants",
        "tests": [{"name": "TestC05", "quick": 30000, "thorough": 500000}],
    },
    "C08": {
        "rule": "a table content (0-12 rows with colliding values: near copies of earlier rows) and a sequence of 1-4 queries (each a list of 0-4 well-typed conditions, or a sub-list of an earlier query) evaluated one after the other on the same caches and databases, after which every cache index must still agree with a scan (all eight "
                "functions, scalar/enum/optional/set/map columns, _uuid, empty sets/maps, repeated columns, map includes on index keys) are "
                "evaluated under 3-5 index configurations over the same columns (none; schema single/multi; client single/multi incl. "
                "optional, map-key and a two-column index containing the set column; mixtures). For every configuration RowCache.RowsByCondition, Database.List(conds...) and a select "
                "operation must return exactly the uuids an independent evaluator of RFC 7047 5.1 returns (refdb.EvalCond), hence the "
                "same answer under every configuration. A quarter of the rows reach their contents in two steps (created with other values in one to three columns, then updated), so that index entries have been moved before the queries run. One case in eight holds sets of 17-100 elements, and set conditions (includes, excludes, ==, !=) are built from parts of a stored set; with a schema index on s0 alone, a checked Create repeating the s0 of a cached row precedes the queries and must be refused without trace (one configuration lists a multi-column index before it). TestC08API (server + connected client monitoring everything, one index configuration per case) checks "
                "WhereAll/WhereAny/WhereCache/Where(model)/Where(models...).List against predictions (all / any / predicate / first index, in the order uuid, "
                "schema indexes, client indexes, that finds a row) and that executing the operations generated by Delete(), Update(model, 1-2 drawn columns with drawn values) "
                "or Mutate(model, a drawn valid mutation of the set, map or a numeric column) has exactly the effect the reference interpreter computes for one "
                "operation per listed row (database compared in full, affected-row counts summed; where that effect is a constraint violation the request "
                "must be rejected and change nothing). Non-trivial = >=2 conditions, >=1 index "
                "configured, answer non-empty and a strict subset of the table; distinct = hash of (functions x column kinds, configurations)."
                " One cache in three is also asked through the mapper: Mapper.NewEqualityCondition over one to three listed fields of a cached object (one of them set to its type's default half of the time) must give one == per listed column, and the rows these conditions select must be the rows equal to the object on these columns.",
        "assumptions": COMMON_ASSUMPTIONS + [
            "includes/excludes on optional columns are documented as unsupported: an error is accepted there, a wrong answer is not",
            "the column s0 is unique by construction so that every schema index containing it is satisfiable",
        ],
        "level_text": "exploration: generated contents x condition lists x index configurations with an independent condition evaluator and the metamorphic 'indexes do not matter' relation",
        "level_note": "trusts refdb.EvalCond (30 lines, written from RFC 7047 5.1)",
        "technique": "property-based testing (rapid): differential against an independent evaluator + metamorphic relation across index configurations",
        "tests": [{"name": "TestC08", "quick": 8000, "thorough": 160000},
                  {"name": "TestC08API", "quick": 6000, "thorough": 60000}],
    },
    "C09": {
        "rule": "a generated schema over the whole type space (every atomic type as key and value, 0..1 / 1..1 / 0..n / 1..n / bounded, enums of every "
                "type, references, real and boolean map keys) and a value for every column (empty/singleton/multi collections, unset/set optionals, "
                "zero values, wide integers and reals, hostile strings) are sent model -> Mapper.NewRow -> json.Marshal -> Row.UnmarshalJSON -> "
                "Mapper.GetRowData into a model pre-filled with sentinels, and -> model.CreateModel: every mapped field must come back equal "
                "(sets as sets); with the default NewRow and after dropping drawn columns the absent columns keep their sentinels; NativeToOvs/"
                "SetField with any other Go type and OvsToNative with a wire value of another kind (per column kind: ~10 wrong shapes) must "
                "return an error; CreateModel from a sparse or empty row still yields a model carrying the uuid; a model struct whose field for a drawn column has another Go type - including types the native value is assignable or convertible to (interface{}, a defined type over the same underlying type) - must be refused by the schema-driven type check. Half of the sparse-row conversions come right after a row of the same table was rejected for one wrongly typed column. After both models are decoded from one row, every pointer, slice element and map entry of the first one is written through: the second one and the next decode of the row must be unaffected. Non-trivial = >=1 collection/optional column with a non-default value; distinct = hash of the table's type signature.",
        "assumptions": COMMON_ASSUMPTIONS + [
            "integers are kept within +-2^53 (known finding int53); reals are finite; strings valid UTF-8",
            "a JSON number for an integer column is the designed decoding path (float64 -> int), not a type mismatch",
        ],
        "level_text": "exploration: generated schemas x values round-tripped through the real mapper and JSON codec, plus a wrong-type matrix",
        "level_note": "values are compared in the harness' canonical form obtained by reflection (not through the mapper)",
        "technique": "property-based testing (rapid): round-trip oracle + negative typing matrix",
        "tests": [{"name": "TestC09", "quick": 100000, "thorough": 8000000}],
    },
    "C10": {
        "rule": "TestC10Exhaustive enumerates completely, per element type (integer, real, boolean, string, uuid): all pairs of ordered lists over a "
                "3-element universe for a set column (16 x 16), optionals {unset,x,y}^2, atoms^2, maps over 2 keys x 2 values (9 x 9) - ~1900 "
                "(type, a, b) triples; TestC10 draws larger tables/values, element orders and overlaps. For each pair: ModelUpdates.AddOperation("
                "update to b, current = a) records no update iff a = b; the Modify row names exactly the changed columns and, applied to a by the "
                "harness' own update2 rules, gives b; ModelUpdates.AddRowUpdate2(Modify sent through JSON) on a copy of a gives b; neither step "
                "changes the model handed in (reflect.DeepEqual with a reflective deep copy taken before); an arbitrary generated difference "
                "applied by the library equals the harness' applier (toggle / add-replace-remove / overwrite). The same checks run for a mutate "
                "operation of 1-4 mutations (repeated columns, mutations without effect, deletes that miss) whose net effect b is computed by refdb. "
                "After every pair a further difference (an update restoring a) is computed from the model the update set holds (ModelUpdates.GetModel): that model must not change either. One case in about eight draws sets and maps of 9-120 elements from a universe of 300 (thresholds such as 64 elements). Non-trivial = a != b with "
                "overlapping elements or b = default, or a peer difference that changes a; distinct = hash of (types, a, b shapes).",
        "assumptions": COMMON_ASSUMPTIONS + ["immutable columns are not generated here (a difference on them is rejected by design)"],
        "level_text": "exhaustive over the stated small universe (exhaustive sub-space) + exploration of larger values",
        "level_note": "the update2 rules are implemented twice in the harness (Update2Diff, ApplyUpdate2) from ovsdb-server(7)",
        "technique": "property-based testing (rapid) + exhaustive enumeration of a small universe: inverse law apply(a, diff(a,b)) = b",
        "tests": [
            {"name": "TestC10Exhaustive", "kind": "plain", "quick": 1, "thorough": 1, "shards": {"quick": 1, "thorough": 1}},
            {"name": "TestC10", "quick": 100000, "thorough": 8000000},
        ],
    },
    "C11": {
        "rule": "one row of a generated table receives a sequence of 2-6 operations (insert if absent; update, mutate with every supported mutator, "
                "restore some or all columns to their original value, delete) accumulated exactly as Transaction.Transact does: one ModelUpdates "
                "per operation through AddOperation, Merge into the aggregate, the next operation sees the model the previous one produced. After "
                "every step from the second on: aggregated ForEachModelUpdate has old = first old and new = last new; ForEachRowUpdate is one "
                "insert of the final row / one delete carrying the original row / one modify whose difference applied to the first old value "
                "gives the last new value and names no column that is back to its original value; nothing at all (table absent from "
                "GetUpdatedTables) if the row ends as it began or is inserted and deleted; GetModel/GetRow return the last state; a bystander row of the same table receives changes in between and must keep exactly its own net update whatever happens to the first row (also when that one cancels out). Expected "
                "states come from the reference rules (refdb.ApplyMutation). One case in about eight draws collections of 9-120 elements. While the aggregate holds changes of the row, a second insert of it is sometimes merged in between: it must be refused and leave the aggregate as it was. Non-trivial = sequence of length >=3 or one that restores a "
                "column; distinct = hash of (type signature, operation/mutator sequence)."
                " TestC11Refs covers 'reference-driven changes merged into it' on whole transactions: histories on reference-heavy schemas (chain-friendly schema one case in five; composites that release a referrer and touch the weak holders in the same transaction) run through the transaction engine; for every row named by a transaction's update the old model must be the row before the transaction, the new model the row after it (reference rules of refdb), and a row that ended as it began is not named; the modify difference is checked by checkUpdate in the same step. Non-trivial there = garbage collection or weak-reference pruning took part in the commit.",
        "assumptions": COMMON_ASSUMPTIONS + ["only mutations the implementation supports are generated (see C03 tolerance classes)"],
        "level_text": "exploration: generated operation sequences on one row with net-update laws checked after every step",
        "level_note": "the merge of reference-driven changes into a transaction is checked by TestC11Refs on whole transactions (old model = row before, new model = row after, unchanged rows not named; the modify difference by checkUpdate in every L1 history)",
        "technique": "property-based testing (rapid): stateful sequences, algebraic net-update laws against first-old/last-new",
        "tests": [{"name": "TestC11", "quick": 100000, "thorough": 8000000}, {"name": "TestC11Refs", "quick": 6000, "thorough": 120000}],
    },
    "C13": {
        "rule": "model family in {hand-written struct cloned through JSON (15 mapped fields of every kind), generated struct with its own deep copy "
                "(serverdb.Database), run-time struct for a generated schema}; drawn field values; Clone/CloneInto must return an Equal model "
                "sharing no slice, map or pointer (reflect.Value.Pointer), must not modify the argument, Equal must be reflexive, symmetric and "
                "false after any single-field mutation of the clone; the model is then stored in a cache (Create / Update / update2 notification), "
                "the caller's copy is mutated (overwrite scalar, append/overwrite/truncate slice, insert/overwrite/delete map entry, write "
                "through/nil a pointer) and a model read through one of 6-7 read paths (Row, Rows, RowByModel by uuid and by index, RowsByModels, "
                "RowsByCondition with and without conditions) is mutated too: every path must still return the stored value. Event-handler "
                "arguments are covered by C14. TestC13API does the same through a connected client (server, MonitorAll): List into []T and []*T, "
                "WhereCache/Where(models)/WhereAny(...).List into both, Get, Cache().Table().Row/Rows; 1-3 mutations of returned models, then every path "
                "must return the rows the database holds; conditionals are reused for several reads (a later List on the same ConditionalAPI must not hand out memory an earlier one returned). The row RowCache.Update hands back (for an update that changes nothing) is one of the read paths; the hand-written model has its untagged field in the middle. The hand-written family has a client index, and a look-up resolved through it is a read path. TestC13Large: tables of 300, 1027, 2051 and 4100 rows read in full through Rows, RowsByCondition and row by row, every returned model scribbled over: the cache must still hold what was stored. Non-trivial = a mutation through a non-empty slice, map or "
                "pointer; distinct = hash of (family, read path, write path, mutation kind)."
                " The write paths include 'InitialData': the model is handed over as the initial contents of a new cache (NewTableCache).",
        "assumptions": COMMON_ASSUMPTIONS + [
            "RowsShallow is the documented read-only exception",
            "map columns keyed by real/boolean are not generated for JSON-cloned models (known finding clone-nonjson-map-key)",
        ],
        "level_text": "exploration: generated models x read paths x caller mutations, snapshot-equality oracle and Clone/Equal algebraic laws",
        "level_note": "memory sharing is detected through reflect pointers and by observing mutations; generated deep-copy code for slices/maps is checked in C20",
        "technique": "property-based testing (rapid): aliasing probes (mutate-and-reread) + algebraic laws",
        "tests": [{"name": "TestC13", "quick": 50000, "thorough": 3000000},
                  {"name": "TestC13API", "quick": 5000, "thorough": 60000},
                  {"name": "TestC13Large", "kind": "plain", "quick": 1, "thorough": 1, "shards": {"quick": 1, "thorough": 1}}],
    },
    "C14": {
        "procs": 8,
        "rule": "cache level, built with -race: 1-3 handlers are registered, the dispatcher runs, and a history of 1-14 notifications computed by "
                "the reference model (inserts, modifies, deletes incl. GC and weak pruning; update2 and update encodings) is applied while "
                "the first handler blocks on a harness channel: a drawn word over {apply next notification, release next event, stop the "
                "dispatcher with events outstanding and start it again (what a disconnect and the next connection do; at most 3 times), feed a notification the cache must refuse "
                "(insert of a cached row, delete of an unknown row; at most 2): nothing is applied, so no event may follow} decides how "
                "far the dispatcher lags. Oracles per handler: number of events = number of applied row changes (a missing one is detected "
                "with the dispatcher released and nothing else outstanding; 20 s bound), replaying the events from empty reproduces Rows() of "
                "every table and the reference state, per row add -> update* -> delete, update.old = replayed previous state, update old != new, "
                "all handlers saw identical sequences; the last handler may scribble over the models it receives without effect on the cache. "
                "TestC14Partial: a notification of 1-8 new rows plus one row that cannot be applied (insert of a cached row, modification or deletion of an unknown row; update and update2 encodings): however many of the other rows Go map order lets through, replaying the delivered events must reproduce the cache, also after the rows that made it are modified once more. Non-trivial = a row with >=3 changes and the dispatcher lagging >=2 events at some point; distinct = hash of (schema kinds, "
                "schedule word, handlers)."
                " TestC14HeldHandler: the first callback is held while 8-60 further updates queue behind it, the connection is cut, and the callback returns only after 3-5 times the client's reconnect timeout (60-150 ms); the handler must be told the queued updates once and in order (first old value 0, each old value the previous new value), followed by five updates made after the reconnection (a row inserted through another connection tells when the client is monitoring again)."
                " TestC14Partial has a third way of delivering its rows: accumulated into one ModelUpdates (AddRowUpdate2 per row) and applied with one ApplyCacheUpdate call.",
        "assumptions": COMMON_ASSUMPTIONS + [
            "generated histories keep fewer events outstanding than the 65536-entry buffer; TestC14Overflow overflows it once on purpose and checks that drops stop when it has free slots again",
            "handlers of one cache share the event's model objects; only isolation from the cache is required (C13)",
        ],
        "level_text": "exploration: generated notification histories x dispatcher schedules owned by the harness, under the race detector",
        "level_note": "the interleaving of the two goroutines is controlled only through the handler gate; finer schedules are the Go scheduler's",
        "technique": "property-based testing (rapid): history replay oracle over event logs, harness-gated schedules, race detector as instrumented oracle",
        "race": True,
        "tests": [{"name": "TestC14", "quick": 6000, "thorough": 300000},
                  {"name": "TestC14Overflow", "kind": "plain", "quick": 1, "thorough": 1, "shards": {"quick": 1, "thorough": 1}},
                  {"name": "TestC14Client", "quick": 120, "thorough": 3000},
                  {"name": "TestC14HeldHandler", "quick": 64, "thorough": 1600},
                  {"name": "TestC14Partial", "quick": 4000, "thorough": 200000}],
    },
    "C01": {
        "rule": "wire level: a generated schema, libovsdb's server on a unix socket, a plain writer client and 1-2 monitoring clients with 1-2 "
                "monitors each (method drawn from monitor / monitor_cond / monitor_cond_since; disjoint table subsets; all columns or a drawn "
                "column subset per table), each established at a drawn point of a history of 1-16 committed transactions (inserts, updates, "
                "mutations, deletes, GC, weak pruning, several rows per transaction) issued by the writer or by a monitoring client. One third of "
                "the monitors are established with the window schedule: the verif pause point parks Monitor() after the reply, one more "
                "transaction is committed (its notification is handled by the read loop meanwhile), then the monitor is released - for first "
                "and additional monitors alike. After every establishment and every transaction, for every monitor: "
                "client.Cache().Table(t).Rows() projected on the monitored columns = Database.List of the server projected the same way "
                "(no waiting: the server notifies before it replies), immediately after the issuer's own Transact too; all clients must "
                "still be connected. TestC01Long: one history long enough to exceed the 65536-entry event buffer of the cache while a registered handler is slow: the cache must keep following the database (dropping events is allowed, dropping updates is not). Between transactions a client that already monitors something sometimes makes a Monitor call that fails (a method the client does not know, a request the server refuses): its established monitors must go on being served." + BIG_NOTE + " evaluations = cases (each with up to ~100 cache/database comparisons). Non-trivial = a monitor established "
                "strictly inside the history with committed transactions after it; distinct = hash of (schema kinds, monitor "
                "methods/positions/schedules, history length)."
                " One case in three draws its schema from the reference-heavy profile (one in five of those is the chain-friendly schema: a root table holding rows of a non-root table that refer to each other, watched by a root table through weak references), and mutate operations carry up to four mutations, so that rows are pruned in several rounds of one commit and a mutation without effect sits between two that have one."
                " One monitored table in four is set up through WithConditionalTable with the two conditions column == <zero value> and column != <zero value> on a drawn integer, string or boolean column (every row satisfies exactly one of them: the expected contents are the whole table whether a server evaluates the clause as RFC 7047 says or, like libovsdb's, not at all).",
        "assumptions": COMMON_ASSUMPTIONS + [
            "the peer is libovsdb's own server (no ovsdb-server offline): it never answers monitor_cond_since with found=true and never sends update3",
            "the monitors of one client cover disjoint table sets; monitor conditions (where) are empty",
            "known finding v1-default-reset: for 'monitor'-method monitors columns whose database value is the type default are not compared",
            "the server's database is the ground truth here (its conformance is C03's subject)",
        ],
        "level_text": "exploration: generated schemas x histories x monitor configurations x establishment points x reply/notification order, whole-cache comparison after every step",
        "level_note": "the window order is forced through the verif hook monitor:reply; every other ordering is whatever the two goroutines do",
        "technique": "property-based testing (rapid): stateful wire-level histories with a harness-owned pause point, cache-vs-database oracle",
        "tests": [{"name": "TestC01", "quick": 3000, "thorough": 60000},
                  {"name": "TestC01Long", "kind": "plain", "quick": 1, "thorough": 1, "shards": {"quick": 1, "thorough": 1}}],
    },
    "C07": {
        "rule": "TestC07 (wire): 2-4 raw JSON-RPC peers (no libovsdb client code) register monitors after a drawn prefix of the history: every "
                "method, any subset of tables, omitted columns (= all) or a drawn subset (possibly empty), omitted select or every combination "
                "of initial/insert/delete/modify present-true/present-false/absent; the first peer monitors everything. The initial reply "
                "must match the database (and be empty when initial is false). A writer commits 1-12 generated transactions; after each one "
                "every peer must have received exactly one message iff the difference between the database before and after (refdb.Diff over "
                "Database.List) contains something it selected: the right method and monitor id, no empty table entries, exactly the "
                "selected rows with the right kind, no unselected column, and state-before + message (applied with the harness' own update / "
                "update2 rules) = state-after on the monitored columns; old values must be the previous values. Failed transactions must "
                "produce no message at all. A peer may answer a drawn notification with a JSON-RPC error (it stays connected and monitoring: what it is told afterwards must not depend on that). One case in about eight runs in the Big mode (sets of up to 120 elements growing and shrinking). In a third of the cases one peer sets up a second monitor (any method, all tables, another id) on its connection; its messages are set aside, the first monitor is checked as before. TestC07L1: the same pre + update = post law on database.Update for thousands of L1 histories "
                "(GC, pruning, merges). A third of TestC07L1 uses the reference-heavy profile (multi-round collections, rows pruned more than once). TestC07Order (one notification per commit, in commit order, under concurrency): 2-4 connections each commit 1-4 "
                "increments of one counter at the same time while 2-3 monitoring peers (any method) acknowledge their notifications with drawn delays "
                "(0-8 ms): every monitor must be told exactly the values 1..N in this order. Non-trivial = transaction with >=2 net row changes (wire) / GC, pruning or multi-operation "
                "transactions (L1); distinct = hash of (schema kinds, peer requests, history length)."
                " A third of the monitor_cond / monitor_cond_since requests of raw peers carry a where clause (column == zero, column != zero, on a column that need not be among the selected ones): libovsdb's server serves every row whatever the clause says, and the selected columns stay the selected columns.",
        "assumptions": COMMON_ASSUMPTIONS + [
            "an RFC 'update' new row is taken as the complete monitored row with absent = default (the server omits default-valued "
            "columns; the effect on libovsdb's own client is the known finding v1-default-reset under C01); extra columns in old are tolerated",
            "an empty monitor-requests map is not generated (the server documents it as 'all tables')",
            "initial replies are compared on the requested columns only (known finding select-columns makes them carry more)",
        ],
        "level_text": "exploration: generated monitor requests x histories, every message checked against an independently computed state difference",
        "level_note": "messages are counted between Transact returns: the server delivers notifications (and waits for the peer's reply) before answering transact",
        "technique": "property-based testing (rapid): raw-peer replicas with an independent update/update2 applier, metamorphic filter law against the database difference",
        "tests": [
            {"name": "TestC07", "quick": 4000, "thorough": 80000},
            {"name": "TestC07L1", "quick": 6000, "thorough": 120000},
            {"name": "TestC07Order", "quick": 400, "thorough": 12000, "procs": 8},
        ],
    },
    "C16": {
        "level": "fault_enumeration",
        "rule": "a client configured to reconnect talks to the server through a byte-forwarding proxy that delimits and counts JSON-RPC "
                "messages per direction. A scenario is a script of one-at-a-time actions (set up 1-3 monitors of drawn methods over disjoint "
                "tables, own transactions writing unique markers, foreign transactions by a second client attached directly to the server "
                "that insert, update and delete rows, echo). TestC16Fixed: one fixed two-monitor scenario is first run fault-free to count "
                "the M message boundaries, then re-run once for EVERY boundary k <= M, in both directions, with the connection cut after "
                "message k, inside it (half the bytes forwarded) and before it - i.e. during connect, schema fetch, monitor set-up, between "
                "and inside notifications, with a transaction in flight (exhaustive for that scenario). TestC16 draws scenarios and, in the "
                "quick tier, one sampled first cut plus (30%) a second cut on the re-established connection or (10%) a silent stall detected "
                "by the inactivity probe; in the thorough tier half of the drawn scenarios are enumerated completely. Oracle after the plan "
                "is exhausted: Connected() within 60 s; after a barrier transaction by the direct client, for every established monitor "
                "cache = Database.List (no resurrected, no missing row); every own Transact that returned results left exactly one marker "
                "row, every one that returned an error at most one. TestC16ReconnectWindow (pause point monitor:reply of the verif hooks): "
                "1-3 monitors, 0-3 foreign transactions, an unplanned reset of every proxied connection; the reconnecting client is parked "
                "between the reply of its k-th restarted monitor (k drawn) and the application of that reply while 1-3 foreign "
                "transactions commit (their notifications arrive on the new connection), is released, 0-2 more commit, and the cache "
                "must converge to the database within 20 s of barriers. TestC16Leader: 2-3 servers each exporting _Server (its own row, standalone, and the "
                "database's row, clustered, with a leader flag and server id, inserted in drawn order) and holding different contents; a leader-only client with "
                "the endpoints in drawn order and one monitor; 1-3 leadership changes (to another member or to nobody; the resignation and the announcement "
                "in drawn order, with a commit at the new leader): within 20 s the client must be attached to the member that reports leadership with its "
                "cache equal to that member's database, or to nobody while nobody leads, and must stay so for 50 ms. TestC16Inconsistent: the proxy "
                "delivers insert-only notifications 2-4 times in a row (the client cannot apply the copies): it must drop the connection, reconnect, "
                "re-establish 1-3 monitors and converge within 20 s. TestC16Outage: the endpoint is unreachable for 2-4 times the reconnect "
                "timeout while other clients commit; TestC16Silent: the connection goes silent (the proxy keeps acknowledging the server's calls) while "
                "the application keeps calling Transact with deadlines shorter than the inactivity timeout - a second connection must appear within 15 s; "
                "both end with the convergence oracle. TestC16Large: 66000 + 1200 monitored rows (more than the 65536 entries of the event buffer), two cuts with deletions and insertions meanwhile. Scripts contain transactions the client refuses itself (unknown column: nothing is sent). A scenario that does not finish because goroutines have been waiting for minutes on mutexes inside libovsdb/client is reported as reconnect.wedged. After every convergence the client indexes on T0.marker and T1.name are compared with a scan of the cache. Non-trivial = cut after the 6th message (monitor set-up begun) "
                "resp. a parked window with foreign commits inside; distinct = (scenario, direction, k, mode) resp. (monitors, k, foreign kinds)."
                " Scenarios contain the step 'cancel-failed' (MonitorCancel of the first established monitor; libovsdb's server does not implement it and a cut may hit it: unless the call returns nil the monitor is still one the client has to re-establish), also in the fixed scenario that is cut at every message boundary; inactivity scenarios configure the client with WithInactivityCheck alone or followed by WithReconnect with the same timeout and back-off; one sampled scenario in four hands its options to SetOption on the never-connected client instead of to the constructor."
                " TestC16Leader: half of the clients whose first endpoint is the leader start with that endpoint alone and are told the others through UpdateEndpoints (endpoint in use first) once attached; they must follow the leadership like the others.",
        "assumptions": COMMON_ASSUMPTIONS + [
            "enumerated scenarios run without the inactivity probe so that the fault-free message sequence is the same in every run up to the cut",
            "the keep-the-cache path of monitor_cond_since (found=true) is unreachable with libovsdb's server, which always answers found=false",
            "leader-only mode: the cluster is 2-3 independent libovsdb servers whose _Server.Database rows the harness edits; raft itself is not modelled",
            "a Monitor call that fails because of the cut is not re-issued: only monitors that were established are compared",
        ],
        "level_text": "fault enumeration: every message boundary x direction x {after, inside, before} of a fixed session is cut exactly once "
                      "(complete for that session), plus sampled scenarios, double cuts and stalls; complete cache/database comparison after "
                      "every recovery",
        "level_note": "the first cut is enumerated, repeated cuts and probe timing are sampled; TCP half-open states are not modelled (unix sockets)",
        "technique": "fault injection by a message-counting proxy, exhaustive enumeration of cut points + property-based sampling (rapid)",
        "tests": [
            {"name": "TestC16Fixed", "kind": "plain", "quick": 8, "thorough": 16, "shards": {"quick": 8, "thorough": 16}},
            {"name": "TestC16", "quick": 320, "thorough": 1600},
            {"name": "TestC16ReconnectWindow", "quick": 3000, "thorough": 40000},
            {"name": "TestC16Inconsistent", "quick": 1600, "thorough": 30000},
            {"name": "TestC16Outage", "quick": 48, "thorough": 1600},
            {"name": "TestC16Silent", "quick": 64, "thorough": 1600},
            {"name": "TestC16Leader", "quick": 320, "thorough": 8000, "shards": {"quick": 8, "thorough": 16}},
            {"name": "TestC16Large", "kind": "plain", "quick": 1, "thorough": 1, "shards": {"quick": 1, "thorough": 1}},
        ],
    },
    "C17": {
        "procs": 8,
        "rule": "built with -race. One server; 2-5 clients run drawn programs of 3-14 transactions each concurrently (counter += d, insert-if-absent "
                "on a unique index value shared with other clients, move a strong reference between two parents, compare-and-set via "
                "wait+update), every transaction also inserting a uniquely tagged log row; 1-3 raw monitoring peers (monitor / monitor_cond on "
                "all tables) and one caching client (MonitorAll) are attached. Oracles: the tag order pi in a monitor's stream is a permutation "
                "of exactly the committed transactions (one notification each, none for failed ones), identical at every monitor, consistent "
                "with each client's program order and with real time (A returned before B was sent => A before B); replaying the committed "
                "transactions in order pi on refdb reproduces every count/uuid each client received and the final Database.List; every failed "
                "transaction fails at some position of pi compatible with its client's order; closed forms: counters = sum of committed "
                "deltas, each contested key has exactly one winner; the caching client's cache equals the database at the end; no race report "
                "involving libovsdb code. Programs also detach a child from a parent (a child no parent holds is garbage collected), alone or together with a claim of a contested key - when the claim fails nothing of the detachment may remain; some children belong to both parents from the start. In two thirds of the runs a bystander monitors a few columns of every table only. Half of the bystanders close their connection right after registering (the server keeps their monitors). TestC17Aged: the same programs on a server that has committed 66000 row changes before. TestC17Tokens: 2-5 clients race to take 1-4 tokens with transactions that only delete (optionally after a select or a wait, so they look read-only at first) while monitoring peers acknowledge slowly: each token is taken by exactly one transaction, nobody gets an RPC error, every monitor is told of each deletion once. TestC17MonitorWindow pins, with the server-side verif hook, a monitor set-up between 'monitors "
                "notified' and 'committed'. Non-trivial = run in which transactions of different clients overlapped in time at least "
                "twice (measured by invocation/response timestamps); distinct = the observed order pi."
                " Programs also contain 'retire+claim' (delete a scratch row and insert a contested key: when the claim fails the row is still there for everybody) and 'incr-scratch' (increment of a scratch row; count 0 once it is retired); TestC17Aged builds the database model of server and clients with client indexes over the columns of the schema indexes (Item.key, Counter.name) and one more (Item.owner)."
                " Program 'own+list': an item changes hands (update) and the same transaction selects the items of the others; the rows returned are compared with the serial execution in the observed order (columns holding their default are left out by select and read as the default).",
        "assumptions": COMMON_ASSUMPTIONS + [
            "schedules are whatever the Go scheduler produces on this machine plus the one pinned window; a rarer interleaving can be missed",
            "race reports whose two racing accesses are both inside third-party modules (the JSON-RPC library writes responses of "
            "concurrent handlers through one encoder) are counted in evidence and not attributed to libovsdb",
        ],
        "level_text": "exploration of schedules: concurrent generated programs with a serial-order oracle derived from the monitor stream, under the race detector",
        "level_note": "a failing run is reported with its programs and observed order (not reproducible from a seed: the schedule is not owned by the harness)",
        "technique": "property-based testing (rapid) of concurrent programs: history checking against a serial replay on the reference model, race detector as instrumented oracle",
        "race": True,
        "tests": [
            {"name": "TestC17MonitorWindow", "kind": "plain", "quick": 1, "thorough": 1, "shards": {"quick": 1, "thorough": 1}},
            {"name": "TestC17", "quick": 240, "thorough": 12000},
            {"name": "TestC17Tokens", "quick": 400, "thorough": 12000},
            {"name": "TestC17Aged", "quick": 8, "thorough": 160},
        ],
    },
    "C18": {
        "procs": 8,
        "rule": "built with -race. The client talks to the server through the harness proxy, which can answer chosen methods with a JSON-RPC error "
                "('unknown method' = what a server lacking the method says). TestC18Enumerated enumerates completely 31 ways an API call can fail "
                "(Monitor with option errors / a conditional table whose condition cannot be converted / no tables / unknown table / unsupported method / cancelled context / not connected / refused by the "
                "server / monitor_cond_since unknown and the monitor_cond fallback refused / both unknown and the monitor fallback refused / no monitor "
                "method known / a table that is already monitored / a notification the cache cannot apply arriving before the monitor reply; Transact answered with an RPC error, failing validation, on an unknown table, with "
                "an expired context, not connected, rejected by the server; MonitorCancel refused; MonitorCancel with a notification the cache cannot apply in flight; Echo answered with such a notification and the connection lost 0-3 ms later (two reasons to tear the connection down at once); Echo against a mute server; Get miss; List with a "
                "wrong or non-pointer type; Where without models; Create of a foreign model; SetOption refused because the client is connected, SetOption of an option that reports an error while disconnected, SetOption accepted while disconnected) x 10 follow-up calls (Disconnect+Connect, Disconnect+SetOption+Connect, "
                "Close+Connect, Monitor, Transact, Get, Echo, List, and Get/List with context.Background(): a cache read on an idle connected client "
                "must not need a deadline to return) x monitor present or not = 620 combinations: every call returns within "
                "20 s (bounded contexts allow 2 s) and an epilogue Close, Connect, Echo, Monitor, Get of a seeded row succeeds. TestC18Concurrent: 2-4 "
                "goroutines run drawn lists of 4-14 calls (Get, List, Where.List, WhereCache.List, Cache().Rows, Transact, Monitor, MonitorCancel, "
                "Echo, Disconnect, Connect, Close) on one client, with and without reconnect, while a writer commits transactions that keep "
                "two columns of every row equal and a chaos goroutine cuts the connection 0-3 times through the proxy: no call may exceed "
                "the bound (a hang is reported with the blocked goroutines' stacks), no reader may obtain a row whose two columns differ, "
                "the epilogue must succeed, no race report involving libovsdb code. The client of TestC18Concurrent runs without reconnect, with reconnect, or with the inactivity probe (40/120/1000 ms). TestC18Leader: a leader-only client of two servers exporting _Server receives 1-5 drawn updates of the Database rows of the servers (leadership given up or taken, server id replaced or removed, model standalone/clustered, disconnected) in any order; after each one Connected, Echo, Transact, Get and CurrentEndpoint must return within the bound, and once server 0 reports leadership again the client must connect and echo within 20 s. TestC18Large: the history of TestC16Large (67200 rows, two cuts) under the hang watchdog, without the race detector. One of the drawn calls lists into a slice of structs and writes through the sets of the result. Non-trivial = every enumerated combination; concurrent "
                "runs with >=2 calls overlapping a notification or with >=1 cut; distinct = (combination) / (programs, cuts, reconnect).",
        "assumptions": COMMON_ASSUMPTIONS + [
            "liveness verdicts use a 20 s bound for calls whose contexts expire after 1.5-2 s, and the report carries the stacks of the goroutines parked in libovsdb/client",
            "the monitors of one client cover disjoint tables (a second initial dump of a cached row is a Create of an existing row)",
            "third-party-only race reports are not attributed to libovsdb (see C17)",
        ],
        "level_text": "exhaustive enumeration of (failing call, follow-up) pairs + exploration of concurrent schedules with connection chaos under the race detector",
        "level_note": "this family cannot establish race freedom or liveness; it explores schedules and bounds waiting generously",
        "technique": "enumeration of failure/follow-up combinations + property-based concurrent call lists (rapid), watchdog and torn-read oracles, race detector",
        "race": True,
        "hang_is_violation": True,
        "tests": [
            {"name": "TestC18Enumerated", "kind": "plain", "quick": 1, "thorough": 1, "shards": {"quick": 1, "thorough": 1}},
            {"name": "TestC18Concurrent", "quick": 320, "thorough": 6400, "shards": {"quick": 16, "thorough": 16}},
            {"name": "TestC18Leader", "quick": 240, "thorough": 6400},
            # (without the race detector: rebuilding 67200 rows under it takes minutes)
            {"name": "TestC18Large", "kind": "plain", "race": False, "quick": 1, "thorough": 1, "shards": {"quick": 1, "thorough": 1}},
        ],
    },
    "C20": {
        "rule": "schemas from the full type space (every atomic type as key/value, all min/max classes, enums of every atomic type on scalar, optional and "
                "set columns with hostile enum strings such as '802.1q', 'a b', quotes and backslashes, references, constraints) plus naming "
                "stress (columns and tables needing initialism / camel-case / underscore handling). Tables carry up to four string-enum columns. TestC20 (in-process, hundreds per run): the "
                "library generator formats every table and the db model four times (byte-identical), output parses, TYPE-CHECKS with go/types against "
                "the real model and ovsdb packages (source importer), and for every column the tagged struct field has, after resolving aliases, "
                "exactly the type string of ovsdb.NativeType(column); with extended generation and enum types independently on/off. "
                "One template data object configured by a drawn history of option switches (enum types and extended generation switched back and forth, ending at the same settings) and rendered twice must give the files fresh data gives. String enums also occur as map keys and map values. A third of the cases make the generator refuse a rendering first (template output that is not Go source), and a third use column names no earlier schema of the process has used; TestC20ManyNames renders a schema of 24 tables x 16 columns (about 400 distinct names) twice in one process: byte-identical, type-checks, one field per column. TestC20Compiled (batches of 4-10 packages): the real cmd/modelgen binary built from /repo generates each package twice into two "
                "directories (byte-identical), with -extended on/off; the scratch module is vetted, compiled and tested: model.NewDatabaseModel("
                "Schema(), FullDatabaseModel()) must validate, and for 40 reflectively filled values per table the generated CloneModel / "
                "CloneModelInto / EqualsModel must agree with the generic laws (clone equal, no shared slice/map/pointer, Equal == field-wise "
                "DeepEqual on pairs, false after any single-field change, argument untouched; plus, per field, size-preserving and zero-valued variants - "
                "a map key replaced by another holding the same or the zero value, one value zeroed, one more zero-valued key, a slice element zeroed / "
                "dropped / a zero element appended, a pointee zeroed or the pointer cleared - on which Equal must agree with DeepEqual in both directions). Non-trivial = schema with >=1 enum and >=1 "
                "collection/optional column (in-process) / every compiled package; distinct = hash of (column type signature, options)."
                " One case in four also writes the files with Generate into a directory that holds the output of an earlier run with other options (extended and/or enum types flipped), twice: each file must be byte-identical to what a fresh run renders."
                " The compiled laws check that the copy made by CloneInto, like the one made by Clone, shares no pointer, map or slice with its source and leaves the source as it was.",
        "assumptions": COMMON_ASSUMPTIONS + [
            "two enum strings that collapse to one Go identifier are not generated together",
            "packages generated without -extended clone through JSON: tables with real/boolean map keys are skipped for the clone laws there (known finding clone-nonjson-map-key)",
            "enum types off exists only in the library API and is covered by the in-process tier",
        ],
        "level_text": "exploration: generated schemas x generator options, type-checked in process and compiled/tested in batches with law checks on the generated methods",
        "level_note": "trusts go/types (source importer) and the go tool; a failing batch is attributed to its package and schema from the tool output",
        "technique": "property-based testing (rapid): generate-compile-run pipeline with type-level and behavioural oracles",
        "tests": [
            {"name": "TestC20", "quick": 480, "thorough": 24000, "shards": {"quick": 12, "thorough": 16}},
            {"name": "TestC20Compiled", "quick": 4, "thorough": 160, "shards": {"quick": 2, "thorough": 16}},
            {"name": "TestC20ManyNames", "kind": "plain", "quick": 1, "thorough": 1, "shards": {"quick": 1, "thorough": 1}},
        ],
    },
}
