#!/usr/bin/env python3
"""Regenerates MANIFEST.json from checks_config.py (single source of truth)."""
import json, os, subprocess, sys
ROOT = os.path.dirname(os.path.abspath(__file__))
sys.path.insert(0, ROOT)
from checks_config import CHECKS, NOT_APPLICABLE, HOOK_COMMITS

props = [json.loads(l)["id"] for l in open(os.path.join(ROOT, "properties.jsonl"))]
checks = []
for pid in props:
    if pid not in CHECKS:
        continue
    c = CHECKS[pid]
    checks.append({
        "property_id": pid,
        "quick_cmd": f"./check {pid} --tier quick",
        "thorough_cmd": f"./check {pid} --tier thorough",
        "evidence_file": f"evidence/{pid}.json",
        "replay_cmd_template": f"./check {pid} --replay {{path}}",
        "engine": "pbt",
        "level_claimed": {
            "category": c.get("level", "exploration"),
            "text": c["level_text"],
            "design_ref": c.get("design_ref", f"DESIGN.md section 4, {pid}"),
        },
        "level_note": c["level_note"],
        "technique": c["technique"],
    })
na = [{"property_id": p, "reason": NOT_APPLICABLE.get(p, "check not built yet (work in progress); see DESIGN.md")}
      for p in props if p not in CHECKS]
m = {
    "version": 1,
    "setup_cmd": "./check --setup",
    "hooks": {
        "guard": "verif",
        "enable": "go test -tags verif (the driver builds ./pbt/props with -tags verif against /repo through a module replace)",
        "baseline_off_cmd": "cd /repo && go test -mod=mod -json -vet=off -count=1 -timeout 25m ./...",
        "source_commits": HOOK_COMMITS,
        "add_only": True,
    },
    "engines": [{
        "name": "pbt",
        "path": "pbt/props (rapid property tests), pbt/kit (generators, canonical values, harness), pbt/refdb (reference model), check (driver)",
        "serves_properties": [c["property_id"] for c in checks],
        "kind_free_text": "property-based testing with pgregory.net/rapid v1.3.0 (stateful generation, shrinking) plus native go fuzzing in the thorough tier of C12/C19",
    }],
    "checks": checks,
    "not_applicable": na,
    "notes": "All checks are generated-input search against explicit oracles; exit 2 means inconclusive (build failure/watchdog), never a verdict. Known findings: KNOWN_FINDINGS.txt.",
}
json.dump(m, open(os.path.join(ROOT, "MANIFEST.json"), "w"), indent=1)
print("MANIFEST.json:", len(checks), "checks,", len(na), "not applicable")
