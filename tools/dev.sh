#!/bin/bash
# usage: tools/dev.sh TestName checks [seed] -- runs one rapid test, prints failure summary and the shrunk case
export GOFLAGS=-mod=mod GOPROXY=off GOSUMDB=off GOTOOLCHAIN=local
cd /verif
rm -rf pbt/props/testdata /tmp/vdev; mkdir -p /tmp/vdev
SEED=${3:-0}
VERIF_REPLAY_DIR=/tmp/vdev VERIF_SHARD=dev go test -tags verif ./pbt/props -run "^$1\$" -rapid.checks=$2 -rapid.seed=$SEED -count=1 -timeout ${TMO:-120s} ${4} 2>&1 | grep -v "rapid\] draw" | head -${LINES_MAX:-25}
f=$(ls -t /tmp/vdev/*.json 2>/dev/null | head -1)
[ -n "$f" ] && python3 - "$f" <<'PY'
import json,sys
d=json.load(open(sys.argv[1]))
c=d['case']
print("CLASS", d['class'])
if isinstance(c,dict) and 'schema' in c:
    print("SCHEMA", json.dumps(c['schema']))
    for i,h in enumerate(c.get('history',[])):
        print(" TXN",i,h)
    print("RESULTS", c.get('results'))
    print("MODEL", json.dumps(c.get('model'))[:1500])
else:
    print(json.dumps(c)[:3000])
PY
