#!/bin/bash
# Run one property check against a seeded change, then restore /repo.
#   tools/try_seeded.sh <ID> <patch.diff> [tier] [seed]
# Prints the check's exit code and its VIOLATION lines. /repo must be clean.
set -u
ID=$1; PATCH=$2; TIER=${3:-quick}; SEED=${4:-1}
export GOFLAGS=-mod=mod GOPROXY=off GOSUMDB=off GOTOOLCHAIN=local
if [ -n "$(git -C /repo status --porcelain)" ]; then echo "/repo not clean"; exit 3; fi
git -C /repo apply "$PATCH" || { echo "patch does not apply"; exit 3; }
trap 'git -C /repo checkout -- . ; git -C /repo clean -fdq' EXIT
cd /verif
start=$(date +%s)
VERIF_EVIDENCE_DIR=/tmp/try_seeded.evidence ./check "$ID" --tier "$TIER" --seed "$SEED" > /tmp/try_seeded.$ID.out 2>&1
rc=$?
end=$(date +%s)
echo "seeded $ID tier=$TIER seed=$SEED rc=$rc secs=$((end-start))"
grep -E "VIOLATION|KNOWN-FINDING|INCONCLUSIVE|error" /tmp/try_seeded.$ID.out | head -8
exit $rc
