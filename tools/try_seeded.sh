#!/bin/bash
# Run one property check against a seeded change WITHOUT touching /repo: the change is
# applied to a scratch copy of /repo, and a scratch copy of /verif is pointed at it.
#   tools/try_seeded.sh <ID> <patch.diff> [tier] [seed]
# Prints the check's exit code and its VIOLATION lines. Several may run at once when
# given different ALT directories (ALT=/tmp/alt2 tools/try_seeded.sh ...).
set -u
ID=$1; PATCH=$(readlink -f "$2"); TIER=${3:-quick}; SEED=${4:-1}
ALT=${ALT:-/tmp/alt}
export GOFLAGS=-mod=mod GOPROXY=off GOSUMDB=off GOTOOLCHAIN=local
mkdir -p "$ALT/repo" "$ALT/verif"
rsync -a --delete --exclude .git /repo/ "$ALT/repo/"
rsync -a --delete --exclude .git --exclude .run --exclude .bin --exclude replays --exclude .fuzzcache --exclude evidence /verif/ "$ALT/verif/"
# git must not discover a repository above the scratch copy (inside one, "git apply" run from a
# sub-directory silently ignores every path of the patch), and the patch must change something
export GIT_CEILING_DIRECTORIES="$ALT"
sum_before=$(cd "$ALT/repo" && find . -name '*.go' -newer "$ALT/repo/go.mod" -o -name '*.go' | sort | xargs cat | sha256sum)
( cd "$ALT/repo" && git apply "$PATCH" ) || { echo "patch does not apply"; exit 3; }
sum_after=$(cd "$ALT/repo" && find . -name '*.go' -newer "$ALT/repo/go.mod" -o -name '*.go' | sort | xargs cat | sha256sum)
[ "$sum_before" != "$sum_after" ] || { echo "patch changed nothing (applied outside the scratch copy?)"; exit 3; }
sed -i "s|=> /repo\$|=> $ALT/repo|" "$ALT/verif/go.mod"
grep -q "=> $ALT/repo" "$ALT/verif/go.mod" || { echo "go.mod not redirected"; exit 3; }
start=$(date +%s)
( cd "$ALT/verif" && VERIF_REPO_DIR="$ALT/repo" VERIF_EVIDENCE_DIR="$ALT/evidence" ./check "$ID" --tier "$TIER" --seed "$SEED" ) > "$ALT/out.$ID.txt" 2>&1
rc=$?
end=$(date +%s)
echo "seeded $ID tier=$TIER seed=$SEED rc=$rc secs=$((end-start))"
grep -E "VIOLATION|KNOWN-FINDING|INCONCLUSIVE|error" "$ALT/out.$ID.txt" | head -8
exit $rc
