#!/usr/bin/env python3
"""Rewrites the 'fixed:' section of KNOWN_FINDINGS.txt with the current commit ids of /repo
(looked up by commit subject), keeping the hand-written 'open:' entries."""
import subprocess, re, sys
FIXED = [
 # (subject prefix, property, test, what failed)
 ("fix: BaseType minLength", "C12", "TestFixedC12MinLength", "BaseType decoded minLength from maxLength and encoded maxLength as minLength (schemas with a string length constraint did not round-trip)"),
 ("fix: set, map and uuid decoders", "C19", "TestFixedC19Decoders", "set/map/uuid decoders panicked on [], [\"uuid\"], [\"uuid\",1], [\"set\",1], [\"map\",1], [\"map\",[[1]]], non-atom map keys"),
 ("fix: condition decoder", "C19", "TestFixedC19Decoders", "condition decoder panicked on a non-string column or function"),
 ("fix: schema decoders", "C19", "TestFixedC19Decoders", "schema decoders panicked on (or accepted, to panic later) columns without type, types without key, base types without atomic type, malformed enum sets"),
 ("fix: later operations of a transaction", "C03", "TestFixedC03LaterOpsSeeEarlier", "an operation whose where-clause matched the old value of a row changed earlier in the transaction failed with 'cache inconsistent'; a row deleted earlier was brought back into the transaction cache (spurious constraint violation for delete+insert of one index value)"),
 ("fix: conditions compared sets by order", "C08", "TestFixedC08ConditionSets", "== / != compared sets order-sensitively and nil != empty; excludes was 'not includes' (wrong for partial overlap and empty argument)"),
 ("fix: named UUIDs used as map keys", "C15", "TestFixedC15MapKeyName", "a named-uuid used as map key was left symbolic unless the map values are uuids too"),
 ("fix: insert mutation on an empty map", "C03", "TestFixedC03MapInsertTwice", "two insert mutations on an empty map column in one operation lost the second one (aliasing of the mutation value)"),
 ("fix: RowCache.Update dropped the schema index", "C05", "TestFixedC05IndexHandOver", "when an indexed value moved from row A to row B and B was applied first, updating A dropped B's index entry (row unreachable through the index, value insertable twice)"),
 ("fix: reference tracking mutated", "C04", "TestFixedC04RefAliasing", "transactions (even failing ones) modified the database's reference lists in place: duplicated/dropped referrers, later spurious referential integrity or weak-minimum violations depending on map order"),
 ("fix: reference tracking lost references", "C04", "TestFixedC04MapValueRefs", "references held through several map values to one row, or a referencing map key whose value changed, were toggled off in the reference index"),
 ("fix: weak reference pruning of a row lost", "C04", "TestFixedC04WeakPruneSetAndOptional", "a row needing both set/map pruning and optional clearing kept its dangling weak references in sets/maps"),
 ("fix: reference garbage collection worked on rows", "C04", "TestFixedC04GCAfterWeakPrune", "a row pruned of weak references and then garbage collected had its removed references counted back in (spurious violation or stale reference index entries)"),
 ("fix: a duplicate index value was accepted", "C06", "TestFixedC06SecondIndexConflict", "a duplicate on a second index was committed when the first index conflicted only with a row deleted in the same transaction"),
 ("fix: insert with the uuid of an existing row", "C02", "TestFixedC02DuplicateUUID", "insert with the explicit uuid of an existing row passed Transact, monitors were notified, Commit failed"),
 ("fix: division or modulo by zero", "C19", "TestFixedC19DegenerateOps", "integer /= 0 and %= 0 panicked the transaction handler, real /= 0 stored +Inf"),
 ("fix: a null where an integer", "C19", "TestFixedC19DegenerateOps", "{\"n\": null} for an integer column panicked (reflect.TypeOf(nil).ConvertibleTo)"),
 ("fix: multi-column index values collided", "C05", "TestFixedC05OptionalTuple", "a multi-column index hashed (unset, x) and (x, unset) of two optional columns to the same value"),
 ("fix: two conditions on different keys", "C08", "TestFixedC08IndexedConditions", "two includes conditions on different keys of one map column, matching a client index over both keys, were looked up as one (only the last key) and missed rows"),
 ("fix: 'includes' of an empty value", "C08", "TestFixedC08IndexedConditions", "includes [] on an optional column with a client index returned only the rows where it is unset"),
 ("fix: notifications of a plain 'monitor'", "C01", "TestFixedC01PlainMonitor", "notifications for a 'monitor'-method monitor were sent as update2: the client reported cache inconsistencies and treated modifications as deletions"),
 ("fix: notifications racing the set-up of an additional monitor", "C01", "TestFixedC01AdditionalMonitorWindow", "a notification handled between the reply and the application of an additional monitor was applied before (and overwritten by) its initial contents, or disconnected the client"),
 ("fix: a failed Monitor call left the model lock", "C18", "TestFixedC18MonitorErrorThenReconnect", "Monitor of a table unknown to the model returned with modelMutex read-locked; the next Connect never returned"),
 ("fix: get_schema for an unknown database", "C18", "TestFixedC18MonitorErrorThenReconnect", "server.GetSchema returned with modelsMutex read-locked for an unknown database (same shape as the client-side leak)"),
 ("fix: monitor notifications crashed the server on requests without select", "C07", "TestFixedC07MonitorRequestDefaults", "monitor requests without select/columns crashed the server at the next commit; omitted columns meant no columns; rows changed only in unmonitored columns and empty tables were reported"),
 ("fix: monitor replies carried the initial contents", "C07", "TestFixedC07MonitorRequestDefaults", "select.initial=false was ignored"),
 ("fix: a null monitor request", "C07", "TestFixedC07MonitorRequestDefaults", "a null per-table monitor request panicked the monitor handlers"),
 ("fix: Monitor called while the client reconnects deadlocked", "C18", "TestFixedC18MonitorDuringReconnect", "lock order inversion between Monitor() (monitorsMutex then rpcMutex) and the reconnect path (rpcMutex then monitorsMutex)"),
 ("fix: after a reconnect only the tables of the last restarted monitor", "C16", "TestFixedC16TwoMonitorsReconnect", "with several monitors every restarted monitor purged the whole cache: only the last one's tables survived a reconnect"),
 ("fix: a monitor set up while a transaction was being committed", "C17", "TestC17MonitorWindow", "monitor handlers did not take txnMutex: a monitor registered between notification and commit of a transaction never saw it"),
 ("fix: NewMonitor and MonitorAll read the database model", "C18", "TestFixedC18CloseConnectRace race=1", "data race on db.model between NewMonitor/MonitorAll and the disconnect handler"),
 ("fix: connecting right after Close or Disconnect", "C18", "TestFixedC18CloseConnectRace race=1", "the disconnect handler cleared cache/model/monitors after releasing rpcMutex: a quick Connect set the new connection up on the state being torn down"),
 ("fix: the disconnect handler could wait", "C18", "TestFixedC18CloseConnectRace race=1", "WaitGroup.Wait of the disconnect handler raced with the Add calls of connect()"),
 ("fix: Create and the Where* calls read", "C18", "TestFixedC18CloseConnectRace race=1", "data race on db.api between Where/WhereAny/WhereAll/WhereCache/Create and connection set-up"),
 ("fix: modelgen failed or produced uncompilable code", "C20", "TestFixedC20EnumNames", "integer/real/boolean enums made the generator fail or emit aliases to OVSDB type names; enum strings were used verbatim in identifiers and unescaped in literals"),
 ("fix: ValidateCondition panics on enum columns", "C08", "TestFixedC08APIEnumAndModelOrder", "WhereAll/WhereAny (mapper.NewCondition) with a condition on an enum column panicked with 'Unsupported Type'"),
 ("fix: RowsByModels looks a model up by its indexes", "C08", "TestFixedC08APIEnumAndModelOrder", "Where(models...): a model whose uuid was already found through an earlier model fell through to the index search, so the selection depended on the order of the models"),
 ("fix: modelgen left separators in identifiers", "C20", "TestFixedC20EnumSeparators", "camelCase used the split words only when there were several: enum values such as \"~tilde\", \"$var\", \"up-\" gave constant names that are not Go identifiers"),
 ("fix: modelgen embedded schemas containing a back quote", "C20", "TestFixedC20EnumSeparators", "a back quote in the schema (enum value) terminated the raw string literal holding the schema in the generated model.go"),
 ("fix: data race between TableCache.Purge", "C18", "TestFixedC18PurgeAccessorRace race=1", "TableCache.DatabaseModel()/Mapper() read the database model without the cache mutex while Purge (reconnect) replaces it: data race between WhereCache/Where*/Create and a reconnect (found by the thorough tier of TestC18Concurrent)"),
 ("fix: the reply of a failed RPC was read", "C18", "TestFixedC18FailedCallReply", "monitor() copied and Echo compared the reply of a call that had failed because its context ended, while the read loop may still decode the late reply into it (data race reported by TestC18Enumerated monitor:cancelled-context under load; Echo returned 'incorrect server response' instead of the context error)"),
 ("fix: a where clause with a few dozen equality conditions", "C19", "TestFixedC19ConditionPowerSet", "a where clause with n equality (or map includes) conditions made the cache try all 2^n subsets of them as indexes: 22 conditions took 4.5 s and 900 MB, 30 exhaust the memory of the machine - one syntactically valid transact request (select, update, mutate, delete or wait) killed the server; found while confirming seeded change C19-r5 (preallocated power set)"),
 ("fix: Transact panicked (send on closed channel)", "C18", "TestFixedC18TrafficSeenClosed", "with WithInactivityCheck, transact() reported a reply to the inactivity prober by a blocking send on a channel that handleDisconnectNotification closes: a connection lost right after a transact reply made Transact panic in the caller (send on closed channel), or block until then holding rpcMutex; found as a data race closechan/chansend by TestC18Concurrent once it drew the inactivity option"),
 ("fix: an 'update' notification that modifies a row", "C18", "TestFixedC18UpdateOfUnknownRow", "TableCache.Populate (RFC 7047 'update' notifications) cloned a nil model when a notification modified a row the cache does not hold and panicked in the client's read loop (Populate2 has the guard): a Monitor call with the plain 'monitor' method given up by its context leaves a monitor registered at the server, and the next foreign update of that table killed the application; found by TestC14Partial's first run"),
 ("fix: data race on the endpoint list", "C18", "TestFixedC18EndpointListRace race=1", "handleDisconnectNotification read o.endpoints[0] for a log line after releasing rpcMutex while a Connect call of the application rewrites the list under the lock (moveEndpointFirst): data race reported by TestC18Concurrent on a busy machine in about one shard run in fifteen; pinned with the pause point disconnect:unlocked"),
 ("fix: commit, comment and assert", "C19", "TestFixedC19DegenerateOps", "commit/comment/assert operations carrying a table but not their member dereferenced nil"),
 ("fix: a plain monitor was notified of a row whose monitored set column only changed", "C07", "TestFixedC07SetOrderOnly", "a transaction that deletes an element of a set and inserts it again (the elements end up in another order) and changes a column the monitor does not select made the server send a plain 'update' notification for a row in which nothing monitored had changed (rows compared with reflect.DeepEqual, sets as ordered lists); found by the thorough tier of C07 once mutate operations carried up to four mutations"),
]
log = subprocess.run(["git","-C","/repo","log","--format=%h %s"],capture_output=True,text=True).stdout.splitlines()
def sha(prefix):
    for l in log:
        h, _, s = l.partition(" ")
        if s.startswith(prefix): return h
    return None
path="/verif/KNOWN_FINDINGS.txt"
lines=open(path).read().splitlines()
keep=[l for l in lines if not l.startswith("fixed:")]
while keep and keep[-1]=="": keep.pop()
out=keep+[""]
for prefix, prop, test, text in FIXED + EXTRA if 'EXTRA' in globals() else FIXED:
    h=sha(prefix)
    if not h:
        print("warning: no commit for", prefix, file=sys.stderr); continue
    tst, _, extra = test.partition(" ")
    out.append(f"fixed: property={prop} commit={h} test={tst}{' ' + extra if extra else ''} {text}")
open(path,"w").write("\n".join(out)+"\n")
print("fixed entries:", sum(1 for l in out if l.startswith("fixed:")))
