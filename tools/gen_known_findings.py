#!/usr/bin/env python3
"""Rewrites the 'fixed:' section of KNOWN_FINDINGS.txt with the current commit ids of /repo
(looked up by commit subject), keeping the hand-written 'open:' entries."""
import subprocess, re, sys
FIXED = [
 # (subject prefix, property, test, what failed)
 ("fix: BaseType minLength", "C12", "TestFixedC12MinLength", "BaseType decoded minLength from maxLength and encoded maxLength as minLength (schemas with a string length constraint did not round-trip)"),
 ("fix: set, map and uuid decoders", "C19", "TestFixedC19Decoders", "set/map/uuid decoders panicked on [], [\"uuid\"], [\"uuid\",1], [\"set\",1], [\"map\",1], [\"map\",[[1]]], non-atom map keys"),
 ("fix: condition decoder", "C19", "TestFixedC19Decoders", "condition decoder panicked on a non-string column or function"),
 ("fix: schema decoders", "C19", "TestFixedC19Decoders", "schema decoders panicked on (or accepted, to panic later) columns without type, types without key, base types without atomic type, malformed enum sets"),
 ("fix: later operations of a transaction", "C03", "TestFixedC03LaterOpsSeeEarlier", "an operation whose where-clause matched the old value of a row changed earlier in the transaction failed with 'cache inconsistent'; a row deleted earlier was brought back into the transaction cache (spurious constraint violation for delete+insert of one index value)"),
 ("fix: conditions compared sets by order", "C08", "TestFixedC08ConditionSets", "== / != compared sets order-sensitively and nil != empty; excludes was 'not includes' (wrong for partial overlap and empty argument)"),
 ("fix: named UUIDs used as map keys", "C15", "TestFixedC15MapKeyName", "a named-uuid used as map key was left symbolic unless the map values are uuids too"),
 ("fix: insert mutation on an empty map", "C03", "TestFixedC03MapInsertTwice", "two insert mutations on an empty map column in one operation lost the second one (aliasing of the mutation value)"),
 ("fix: RowCache.Update dropped the schema index", "C05", "TestFixedC05IndexHandOver", "when an indexed value moved from row A to row B and B was applied first, updating A dropped B's index entry (row unreachable through the index, value insertable twice)"),
 ("fix: reference tracking mutated", "C04", "TestFixedC04RefAliasing", "transactions (even failing ones) modified the database's reference lists in place: duplicated/dropped referrers, later spurious referential integrity or weak-minimum violations depending on map order"),
 ("fix: reference tracking lost references", "C04", "TestFixedC04MapValueRefs", "references held through several map values to one row, or a referencing map key whose value changed, were toggled off in the reference index"),
 ("fix: weak reference pruning of a row lost", "C04", "TestFixedC04WeakPruneSetAndOptional", "a row needing both set/map pruning and optional clearing kept its dangling weak references in sets/maps"),
 ("fix: reference garbage collection worked on rows", "C04", "TestFixedC04GCAfterWeakPrune", "a row pruned of weak references and then garbage collected had its removed references counted back in (spurious violation or stale reference index entries)"),
 ("fix: a duplicate index value was accepted", "C06", "TestFixedC06SecondIndexConflict", "a duplicate on a second index was committed when the first index conflicted only with a row deleted in the same transaction"),
 ("fix: insert with the uuid of an existing row", "C02", "TestFixedC02DuplicateUUID", "insert with the explicit uuid of an existing row passed Transact, monitors were notified, Commit failed"),
 ("fix: division or modulo by zero", "C19", "TestFixedC19DegenerateOps", "integer /= 0 and %= 0 panicked the transaction handler, real /= 0 stored +Inf"),
 ("fix: a null where an integer", "C19", "TestFixedC19DegenerateOps", "{\"n\": null} for an integer column panicked (reflect.TypeOf(nil).ConvertibleTo)"),
 ("fix: multi-column index values collided", "C05", "TestFixedC05OptionalTuple", "a multi-column index hashed (unset, x) and (x, unset) of two optional columns to the same value"),
 ("fix: two conditions on different keys", "C08", "TestFixedC08IndexedConditions", "two includes conditions on different keys of one map column, matching a client index over both keys, were looked up as one (only the last key) and missed rows"),
 ("fix: 'includes' of an empty value", "C08", "TestFixedC08IndexedConditions", "includes [] on an optional column with a client index returned only the rows where it is unset"),
 ("fix: commit, comment and assert", "C19", "TestFixedC19DegenerateOps", "commit/comment/assert operations carrying a table but not their member dereferenced nil"),
]
log = subprocess.run(["git","-C","/repo","log","--format=%h %s"],capture_output=True,text=True).stdout.splitlines()
def sha(prefix):
    for l in log:
        h, _, s = l.partition(" ")
        if s.startswith(prefix): return h
    return None
path="/verif/KNOWN_FINDINGS.txt"
lines=open(path).read().splitlines()
keep=[l for l in lines if not l.startswith("fixed:")]
while keep and keep[-1]=="": keep.pop()
out=keep+[""]
for prefix, prop, test, text in FIXED + EXTRA if 'EXTRA' in globals() else FIXED:
    h=sha(prefix)
    if not h:
        print("warning: no commit for", prefix, file=sys.stderr); continue
    out.append(f"fixed: property={prop} commit={h} test={test} {text}")
open(path,"w").write("\n".join(out)+"\n")
print("fixed entries:", sum(1 for l in out if l.startswith("fixed:")))
