#!/usr/bin/env python3
"""Runs the repository's pinned test suite (guard off) and compares with /root/.vp/BASELINE.json."""
import json, subprocess, sys, os
base = json.load(open('/root/.vp/BASELINE.json'))
want = set(base['stable_pass'])
env = dict(os.environ, GOFLAGS='-mod=mod', GOPROXY='off', GOSUMDB='off', GOTOOLCHAIN='local')
p = subprocess.run('go test -mod=mod -json -vet=off -count=1 -timeout 25m ./...', shell=True, cwd=sys.argv[1] if len(sys.argv) > 1 else '/repo',
                   env=env, capture_output=True, text=True)
passed, failed = set(), set()
for line in p.stdout.splitlines():
    try:
        e = json.loads(line)
    except Exception:
        continue
    if 'Test' in e and e.get('Action') in ('pass', 'fail'):
        (passed if e['Action'] == 'pass' else failed).add(f"{e['Package']}::{e['Test']}")
missing = sorted(want - passed)
print(f"passed={len(passed)} failed={len(failed)} baseline={len(want)} missing_from_pass={len(missing)}")
for m in missing[:40]:
    print("  MISSING", m)
for f in sorted(failed - set(base.get('always_fail', [])))[:40]:
    print("  FAILED", f)
sys.exit(1 if missing else 0)
