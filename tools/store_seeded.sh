#!/bin/bash
# Store a confirmed seeded change under /verif/seeded/<name>/.
#   tools/store_seeded.sh <ID> <name> <outdir> "<check result text>"
set -eu
ID=$1; NAME=$2; OUT=$3; RESULT=$4
D=/verif/seeded/$NAME
mkdir -p "$D"
cp "$OUT/patch.diff" "$D/patch.diff"
demo=$(ls "$OUT"/*_test.go | head -1)
cp "$demo" "$D/demo_test.go.txt"
[ -f "$OUT/run.txt" ] && head -c 20000 "$OUT/run.txt" > "$D/demonstration.txt"
python3 - "$ID" "$OUT/meta.json" "$D/meta.json" "$RESULT" "$(git -C /repo rev-parse --short HEAD)" <<'EOF'
import json, sys
pid, src, dst, result, head = sys.argv[1:6]
try:
    m = json.load(open(src))
except Exception as e:
    m = {"agent_meta_unreadable": str(e)}
out = {
    "property": pid,
    "base_commit": head,
    "what_changed": m.get("summary") or m.get("change") or m.get("description"),
    "needs_to_manifest": m.get("needs_to_manifest") or m.get("needs") or m.get("trigger"),
    "files_changed": m.get("files_changed"),
    "confirmed_by_me": "tools/verify_seeded.sh in a scratch worktree: demo passes without the change, the change builds and the package tests (cache client database mapper model ovsdb server updates cmd) pass with it, demo fails with it",
    "check_run": "git -C /repo apply patch.diff; ./check %s --tier quick --seed 1; git -C /repo checkout -- .  (tools/try_seeded.sh)" % pid,
    "check_result": result,
    "agent_meta": m,
}
json.dump(out, open(dst, "w"), indent=1)
EOF
echo stored $D
