#!/bin/bash
# Confirm a seeded change delivered by a sub-agent in a scratch worktree:
#   tools/verify_seeded.sh <ID> [outdir] [worktree]
# 1. clean worktree at /repo HEAD  2. demo passes without the change
# 3. change applies, builds, existing tests pass  4. demo fails with the change
set -u
ID=$1; OUT=${2:-/tmp/mut/$ID.out}; WT=${3:-/tmp/mut/$ID}
export GOFLAGS=-mod=mod GOPROXY=off GOSUMDB=off GOTOOLCHAIN=local
PKGS="./cache/... ./client/... ./database/... ./mapper/... ./model/... ./ovsdb/... ./server/... ./updates/... ./cmd/..."
cd "$WT" || exit 3
prev=$(git status --porcelain | grep 'zz_seeded_demo_test.go' | awk '{print $2}' | head -1)
git checkout -q -- . && git clean -fdq
git checkout -q --detach "$(git -C /repo rev-parse HEAD)" || { echo "cannot move worktree to /repo HEAD"; exit 3; }
demo=$(ls "$OUT"/*_test.go 2>/dev/null | head -1)
[ -n "$demo" ] || { echo "no demo"; exit 3; }
pkgdir=$(jq -r '.demo_package // .demo_dir // empty' "$OUT/meta.json" 2>/dev/null)
if [ -n "$prev" ]; then pkgdir=$(dirname "$prev"); fi
if [ -z "$pkgdir" ] || [ ! -d "$pkgdir" ]; then
  pkg=$(grep -m1 '^package ' "$demo" | awk '{print $2}')
  pkgdir=$(grep -l "^package $pkg\$" --include=*_test.go -r . 2>/dev/null | head -1 | xargs dirname)
fi
echo "demo=$demo pkgdir=$pkgdir"
cp "$demo" "$pkgdir/zz_seeded_demo_test.go"
echo "== demo without the change (must pass)"
go test -tags verif -vet=off -count=1 -run Seeded "./$pkgdir" 2>&1 | tail -3
r1=${PIPESTATUS[0]}
git apply "$OUT/patch.diff" || { echo "patch does not apply"; exit 3; }
echo "== build + existing tests with the change (must pass)"
rm -f "$pkgdir/zz_seeded_demo_test.go"
go build $PKGS ./modelgen/... && go test -vet=off -count=1 $PKGS 2>&1 | grep -v "^ok\|no test files" | tail -15
r2=${PIPESTATUS[0]}
cp "$demo" "$pkgdir/zz_seeded_demo_test.go"
echo "== demo with the change (must fail)"
go test -tags verif -vet=off -count=1 -run Seeded "./$pkgdir" 2>&1 | tail -6
r3=${PIPESTATUS[0]}
git checkout -q -- . && git clean -fdq
echo "RESULT $ID demo_without=$r1 suite_with=$r2 demo_with=$r3 (want 0 0 nonzero)"
