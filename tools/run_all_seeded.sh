#!/bin/bash
# Sensitivity regression: run every stored seeded change against the check of its
# property (quick tier) on scratch copies (tools/try_seeded.sh) and print one line per
# change. A file check_with in the change's directory names another property whose check
# is the one expected to catch it, or "none" for a change recorded as out of reach.
# Usage: tools/run_all_seeded.sh [seed] [name-pattern]
SEED=${1:-1}; PAT=${2:-}
cd /verif
caught=0; missed=0; skipped=0
for d in seeded/*${PAT}*/; do
  name=$(basename "$d")
  id=${name%%-*}
  [ -f "$d/check_with" ] && id=$(cat "$d/check_with")
  if [ "$id" = "none" ]; then skipped=$((skipped+1)); echo "OUT-OF-REACH $name"; continue; fi
  out=$(tools/try_seeded.sh "$id" "/verif/${d}patch.diff" quick "$SEED" 2>&1 | head -1)
  rc=$(echo "$out" | sed -n 's/.* rc=\([0-9]*\) .*/\1/p')
  if [ "$rc" = "1" ]; then caught=$((caught+1)); verdict=CAUGHT; else missed=$((missed+1)); verdict="MISSED(rc=$rc)"; fi
  echo "$verdict $name $out"
done
echo "caught=$caught missed=$missed out_of_reach=$skipped"
[ "$missed" = "0" ]
