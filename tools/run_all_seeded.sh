#!/bin/bash
# Sensitivity regression: run every stored seeded change against the check of its
# property (quick tier) and print one line per change. /repo must be clean; it is
# restored after every run. Usage: tools/run_all_seeded.sh [seed]
SEED=${1:-1}
cd /verif
caught=0; missed=0
for d in seeded/*/; do
  name=$(basename "$d")
  id=${name%%-*}
  out=$(tools/try_seeded.sh "$id" "/verif/${d}patch.diff" quick "$SEED" 2>&1 | head -1)
  rc=$(echo "$out" | sed -n 's/.* rc=\([0-9]*\) .*/\1/p')
  if [ "$rc" = "1" ]; then caught=$((caught+1)); verdict=CAUGHT; else missed=$((missed+1)); verdict="MISSED(rc=$rc)"; fi
  echo "$verdict $name $out"
done
echo "caught=$caught missed=$missed"
[ "$missed" = "0" ]
